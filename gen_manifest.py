#!/venv/bin/python
"""Regenerates MANIFEST.json from the per-property metadata below (keeps it valid at all times)."""
import json, os
HERE = os.path.dirname(os.path.abspath(__file__))

NA = {
 'C03': 'Optimality "given enough iterations" is a statement about the limit of a numerical iteration against an external optimum; no clause of it is visible in the shape of the code (static analysis only; see DESIGN.md section 4).',
 'C17': 'The fixed point of the norm-product iteration versus the optimum of a convex programme solved by an independent solver is a numerical comparison.',
}

CLAIMS = {}   # filled from claims.json

def main():
    claims = json.load(open(os.path.join(HERE, 'claims.json')))
    checks = []
    for pid in sorted(claims):
        c = claims[pid]
        checks.append({
            'property_id': pid,
            'quick_cmd': './check %s --tier quick' % pid,
            'thorough_cmd': './check %s --tier thorough' % pid,
            'evidence_file': '/verif/evidence/%s.json' % pid,
            'replay_cmd_template': './check explain {path}',
            'engine': 'pgmverif',
            'level_claimed': {'category': 'other', 'text': c['text'], 'design_ref': c.get('design_ref', 'DESIGN.md section 4')},
            'level_note': c['note'],
            'technique': c['technique'],
        })
    na = [{'property_id': k, 'reason': v} for k, v in sorted(NA.items())]
    pending = json.load(open(os.path.join(HERE, 'pending.json')))
    for k, v in sorted(pending.items()):
        if k not in claims:
            na.append({'property_id': k, 'reason': v})
    man = {
        'version': 1,
        'setup_cmd': '/venv/bin/python -c "import ast, networkx" && /venv/bin/python -m compileall -q pgmverif >/dev/null',
        'hooks': {
            'guard': 'PRIVATE_PGM_VERIF',
            'enable': 'none needed: the checks are static analyses of the working tree; no instrumentation is compiled in',
            'baseline_off_cmd': 'cd /repo && /venv/bin/python -m pytest -ra -q -p no:cacheprovider --timeout=900',
            'source_commits': [],
            'add_only': True,
        },
        'engines': [{'name': 'pgmverif', 'path': '/verif/pgmverif', 'serves_properties': sorted(claims),
                     'kind_free_text': 'repository-specific static analysis on the Python AST: layout type system, '
                                       'origin/mutation analysis, log-space typestate, taint with declassifiers, '
                                       'sensitivity/cost algebra over rational normal forms, structured-CFG typestates, '
                                       'interface conformance'}],
        'checks': checks,
        'not_applicable': sorted(na, key=lambda d: d['property_id']),
        'notes': 'Static analysis only. Exit 0 = all obligations discharged (KNOWN-FINDING lines allowed); exit 1 + VIOLATION line = '
                 'a finding not listed in known_findings.json; exit 2 + ANALYSIS-ERROR = the analysis itself could not be carried out '
                 '(vanished anchor, unsupported construct, floor not met). Every claim covers the named structural clauses only; see level_note.',
    }
    json.dump(man, open(os.path.join(HERE, 'MANIFEST.json'), 'w'), indent=1)
    print('MANIFEST.json:', len(checks), 'checks,', len(na), 'not applicable')

if __name__ == '__main__':
    main()

""" C04 / round 12 / pair 1 -- GraphicalModel.project memoises the projected marginals.

The loss FactoredInference optimises must equal the loss recomputed from the answers the
estimated model gives through model.project(proj) -- at any later point of the session, however
often and in whatever order the projections were asked for before and whatever the caller (or
the library itself, in synthetic_data) did with the Factors that project() handed out.
"""
import os, sys, hashlib, warnings
ROOT = os.path.dirname(os.path.dirname(os.path.dirname(os.path.abspath(__file__))))
sys.path.insert(0, os.path.join(ROOT, 'src'))
warnings.filterwarnings('ignore')
import numpy as np
from scipy import sparse
from mbi import Domain, FactoredInference

failures, digest = [], []

def check(ok, msg):
    if not ok:
        failures.append(msg)

def measurements(seed):
    rng = np.random.RandomState(seed)
    P = np.tril(np.ones((4, 4)))                      # prefix sums on c
    return [
        (None,               rng.rand(2)*20,  1.5, 'a'),
        (sparse.eye(3),      rng.rand(3)*20,  0.7, ['b']),
        (P,                  rng.rand(4)*20,  2.0, ('c',)),
        (None,               rng.rand(2)*20,  1.0, ('d',)),
        (None,               rng.rand(6)*10,  1.0, ('a', 'b')),
        (sparse.eye(6),      rng.rand(6)*10,  3.0, ('b', 'a')),
        (rng.rand(5, 12),    rng.rand(5)*30,  0.5, ['c', 'b']),
        (None,               rng.rand(8)*10,  2.5, ('c', 'd')),
    ]

def recomputed(engine, model, ms, metric):
    """ the stated objective, from the answers of model.project """
    loss = 0.0
    for Q, y, noise, proj in engine.fix_measurements(ms):
        x = model.project(proj).datavector()
        r = (Q @ x - y) / noise
        loss += abs(r).sum() if metric == 'L1' else 0.5*(r @ r)
    return float(loss)

def compare(tag, engine, model, ms, ref):
    for metric in ['L2', 'L1']:
        got = recomputed(engine, model, ms, metric)
        ok = abs(got - ref[metric]) <= 1e-7*(1.0 + abs(ref[metric]))
        check(ok, '%s: %s loss recomputed from model.project = %.9g, the optimised loss is %.9g'
              % (tag, metric, got, ref[metric]))
        digest.append('%s %s %.8e' % (tag, metric, got))

def vec(model, proj):
    return model.project(proj).datavector()

dom = Domain(['a', 'b', 'c', 'd'], [2, 3, 4, 2])
for seed, total in [(0, 40), (1, 25.5)]:
    ms = measurements(seed)
    engine = FactoredInference(dom, iters=80, log=False)
    model = engine.estimate(ms, total=total)
    ref = { m : engine._marginal_loss(model.marginals, metric=m)[0] for m in ['L2', 'L1'] }
    tag = 'seed%d' % seed

    compare(tag + ' first', engine, model, ms, ref)
    compare(tag + ' again', engine, model, ms, ref)              # same projections a second time

    # both attribute orders of one marginal, asked in either sequence
    ab, ba = model.project(('a', 'b')), model.project(('b', 'a'))
    check(ab.domain.attrs == ('a', 'b') and ba.domain.attrs == ('b', 'a'), tag + ': attribute order')
    check(np.array_equal(ab.values, ba.values.T), tag + ': (a,b) and (b,a) are not transposes')

    # a caller turns two of the answers into probability tables, in place
    for proj in [('a', 'b'), ('c',)]:
        f = model.project(proj)
        f.values /= f.values.sum()
        check(abs(f.values.sum() - 1) < 1e-9, 'normalisation')
    compare(tag + ' after caller normalised its copies', engine, model, ms, ref)

    # the library itself rescales what project() returned, in place (synthetic_col)
    np.random.seed(seed)
    try:
        model.synthetic_data(rows=5*int(total))
    except Exception:
        pass                                 # Dataset construction fails under pandas 3, irrelevant
    compare(tag + ' after synthetic_data', engine, model, ms, ref)
    for a in dom.attrs:
        s = vec(model, (a,)).sum()
        check(abs(s - total) < 1e-6*total, '%s: marginal of %s sums to %.6g, total is %.6g' % (tag, a, s, total))

    # new marginals on the same model object must be what project answers from
    old = vec(model, ('c', 'b'))
    pots = model.potentials * 0.5
    model.marginals = model.belief_propagation(pots)
    ref2 = { m : engine._marginal_loss(model.marginals, metric=m)[0] for m in ['L2', 'L1'] }
    compare(tag + ' new marginals', engine, model, ms, ref2)
    new = vec(model, ('c', 'b'))
    check(not np.allclose(old, new), tag + ': project still answers from the replaced marginals')
    digest.append(tag + ' ' + hashlib.sha256(np.round(new, 8).tobytes()).hexdigest()[:16])

for line in digest:
    print(line)
if failures:
    print('FAIL')
    for f in failures:
        print('  -', f)
    sys.exit(1)
print('PASS')

""" C08 pair 1 -- GraphicalModel.krondot: share of the normalisation folded into the factors.

Every answer of the returned model must be finite, nonnegative and SUM TO THE MODEL TOTAL, and
answers obtained in two ways must agree.  krondot() is one way to ask, project() another.
"""
import os, sys, io, hashlib, contextlib, warnings
ROOT = os.path.dirname(os.path.dirname(os.path.dirname(os.path.abspath(__file__))))
sys.path.insert(0, os.path.join(ROOT, 'src'))
warnings.filterwarnings('ignore')
import numpy as np
import mbi
from mbi import Domain, FactoredInference

assert os.path.abspath(mbi.__file__).startswith(ROOT), 'wrong mbi: ' + mbi.__file__

def measurements(domain, cliques, total, prng):
    ans = []
    for cl in cliques:
        n = domain.size(cl)
        y = prng.rand(n)
        y *= total / y.sum()
        y += prng.normal(0, 0.05 * total / n, n)
        ans.append((None, y, 1.0, cl))
    return ans

def estimate(domain, cliques, total, engine, iters, zeros, seed):
    prng = np.random.RandomState(seed)
    ms = measurements(domain, cliques, 1.0 if total is None else total, prng)
    eng = FactoredInference(domain, iters=iters, structural_zeros=zeros)
    opts = {} if engine == 'MD' else {'lipschitz': 1.0}
    with contextlib.redirect_stdout(io.StringIO()):
        model = eng.estimate(ms, total=total, engine=engine, options=opts)
    return model

def kron_queries(domain, keep):
    """ identity on the attributes in keep, a single all-ones row on the others """
    return [np.eye(n) if a in keep else np.ones((1, n)) for a, n in zip(domain.attrs, domain.shape)]

def check(name, model, problems, digest):
    dom = model.domain
    tot = model.total
    asked = [()] + [(a,) for a in dom.attrs] + [tuple(cl) for cl in model.cliques] + [(dom.attrs[0], dom.attrs[-1])]
    for keep in asked:
        res = model.krondot(kron_queries(dom, keep))
        flat = np.asarray(res).flatten()
        ref = model.project(dom.canonical(keep)).datavector()
        digest.append('%s %s %s' % (name, keep, np.array2string(np.round(flat / tot, 6) + 0.0, threshold=10**6)))
        if not np.all(np.isfinite(flat)) or flat.min() < -1e-9 * tot:
            problems.append('%s: krondot answer on %s is not finite / nonnegative' % (name, keep))
        if not np.isclose(flat.sum(), tot, rtol=1e-6):
            problems.append('%s: krondot answer on %s sums to %.6g, the model total is %.6g'
                            % (name, keep, flat.sum(), tot))
        if flat.shape != ref.shape or not np.allclose(flat, ref, rtol=1e-6, atol=1e-9 * tot):
            problems.append('%s: krondot and project disagree on %s (max abs diff %.3g)'
                            % (name, keep, np.abs(flat - ref).max()))

def main():
    chain = Domain(['a', 'b', 'c', 'd'], [2, 3, 4, 5])
    star = Domain(['a', 'b', 'c', 'd', 'e'], [3, 2, 3, 2, 4])
    zeros = {('a', 'b'): [(0, 1), (1, 2)]}
    configs = [
        # name, domain, cliques, total, engine, iters, structural zeros
        ('chain/MD/total=1',     chain, [('a','b'), ('b','c'), ('c','d')], 1.0,   'MD',  30, {}),
        ('single/MD/total=250',  chain, [('a','b','c','d')],             250.0, 'MD',  10, {}),
        ('chain/MD/total=250',   chain, [('a','b'), ('b','c'), ('c','d')], 250.0, 'MD',  30, {}),
        ('chain/MD/1 iter',      chain, [('a','b'), ('b','c'), ('c','d')], 40.0,  'MD',  1,  {}),
        ('chain/RDA/total=40',   chain, [('a','b'), ('b','c'), ('c','d')], 40.0,  'RDA', 15, {}),
        ('chain/IG/zeros',       chain, [('a','b'), ('b','c'), ('c','d')], 40.0,  'IG',  15, zeros),
        ('star/MD/total=None',   star,  [('a','c'), ('b','c'), ('c','e')], None,  'MD',  20, {}),
        ('star/RDA/total=1000',  star,  [('a','c'), ('b','c'), ('c','e')], 1000.0,'RDA', 1,  {}),
        ('empty/MD/total=7',     star,  [],                               7.0,   'MD',  5,  {}),
    ]
    problems, digest = [], []
    for i, (name, dom, cliques, total, engine, iters, zs) in enumerate(configs):
        model = estimate(dom, cliques, total, engine, iters, zs, seed=100 + i)
        check(name, model, problems, digest)

    if problems:
        print('FAIL: %d krondot answers are not answers of one distribution with the model total' % len(problems))
        for p in problems[:12]:
            print('  -', p)
        sys.exit(1)
    print('PASS')
    print('answers checked:', len(digest))
    print('digest:', hashlib.sha256('\n'.join(digest).encode()).hexdigest())

if __name__ == '__main__':
    main()

#!/usr/bin/env python
"""C10 pair 1 demo - Factor - Factor with -inf operands (src/mbi/factor.py :: Factor.__sub__).

Belief propagation divides an incoming message back out of a belief with
`beliefs[i] - messages[(j,i)]`.  When a structural-zero set removes a WHOLE value of an
attribute that sits on a separator between two model cliques, that message is -inf there, and
so is the belief: the subtraction is -inf - -inf.  The property (C10) says that also in this
situation no answer is NaN, the declared cells carry no mass and the rest sums to the total -
for every solver, with and without warm start.
"""
import os, sys, io, contextlib, hashlib, warnings

# set iteration order and multi-threaded BLAS reductions influence the last bits of the floats;
# pin both so that the digest below is reproducible run after run
_PIN = {'PYTHONHASHSEED': '0', 'OMP_NUM_THREADS': '1', 'OPENBLAS_NUM_THREADS': '1',
        'MKL_NUM_THREADS': '1'}
if any(os.environ.get(k) != v for k, v in _PIN.items()):
    os.environ.update(_PIN)
    os.execv(sys.executable, [sys.executable] + sys.argv)

ROOT = os.path.dirname(os.path.dirname(os.path.dirname(os.path.abspath(__file__))))
sys.path.insert(0, os.path.join(ROOT, 'src'))
warnings.filterwarnings('ignore')
import numpy as np
np.seterr(all='ignore')
import mbi
from mbi import Domain, FactoredInference
assert os.path.abspath(mbi.__file__).startswith(os.path.join(ROOT, 'src')), mbi.__file__

TOTAL = 200.0
DOM = Domain(['a', 'b', 'c', 'd'], [3, 3, 4, 2])


def measurements(cliques, seed, noise=2.0):
    rng = np.random.RandomState(seed)
    out = []
    for cl in cliques:
        n = DOM.size(cl)
        y = rng.rand(n)
        y = y / y.sum() * TOTAL + rng.randn(n) * noise
        out.append((None, y, noise, cl))
    return out


# name, structural zeros, sequence of measured clique sets (len > 1 => warm-start history),
# extra projections to query (out-of-clique ones included)
CASES = [
    ('partial-zeros-chain',                       # no attribute value removed entirely
     {('a', 'b'): [(0, 0), (1, 2)], ('c', 'd'): [(3, 1)]},
     [[('a', 'b'), ('b', 'c'), ('c', 'd')]],
     [('a', 'c'), ('a', 'd'), ('b', 'd')]),
    ('whole-value-single-clique',                 # a=0 impossible, but only one clique
     {('a', 'b'): [(0, 0), (0, 1), (0, 2)]},
     [[('a', 'b')]],
     [('a',), ('a', 'c')]),
    ('whole-separator-value-1way-key',            # b=1 impossible; b separates (a,b) | (b,c)
     {('b',): [(1,)]},
     [[('a', 'b'), ('b', 'c')]],
     [('a', 'c'), ('b',), ('b', 'd')]),
    ('whole-separator-value-2way-key',            # every a with b=2 impossible => b=2 impossible
     {('a', 'b'): [(0, 2), (1, 2), (2, 2), (0, 0)]},
     [[('a', 'b'), ('b', 'c'), ('c', 'd')]],
     [('a', 'c'), ('b', 'd'), ('a', 'd')]),
    ('unmeasured-group-removes-value',            # (a,d) never measured, removes d=1 entirely
     {('a', 'd'): [(0, 1), (1, 1), (2, 1)]},
     [[('a', 'b'), ('c', 'd')]],
     [('a', 'c'), ('b', 'd')]),
    ('warm-start-history',                        # components first, joined later
     {('b',): [(0,)], ('c', 'd'): [(0, 0), (0, 1)]},
     [[('a', 'b'), ('c', 'd')], [('a', 'b'), ('c', 'd'), ('b', 'c')],
      [('a', 'b'), ('c', 'd'), ('b', 'c'), ('a', 'c')]],
     [('a', 'd'), ('b', 'd')]),
]


def declared_mass(values, attrs, key, cells):
    """mass the array `values` (over `attrs`) puts on the declared cells of zero-set `key`"""
    other = tuple(i for i, a in enumerate(attrs) if a not in key)
    marg = values.sum(axis=other) if other else values
    rest = [a for a in attrs if a in key]
    marg = np.moveaxis(marg, [rest.index(a) for a in key], range(len(key)))
    return float(sum(abs(marg[tuple(c)]) for c in cells))


problems, digest_lines = [], []


def check(tag, values, attrs, zeros):
    values = np.asarray(values, dtype=float)
    if np.isnan(values).any() or np.isinf(values).any():
        problems.append('%s: answer contains NaN/inf' % tag)
        return
    if abs(values.sum() - TOTAL) > 1e-6 * TOTAL:
        problems.append('%s: mass %.6f instead of total %.1f' % (tag, values.sum(), TOTAL))
    if values.min() < -1e-9:
        problems.append('%s: negative mass %.3g' % (tag, values.min()))
    for key, cells in zeros.items():
        if set(key) <= set(attrs):
            m = declared_mass(values, list(attrs), key, cells)
            if m > 1e-9 * TOTAL:
                problems.append('%s: %.6g records on cells declared impossible by %s'
                                % (tag, m, key))


def run_case(name, zeros, history, extra, solver):
    h = hashlib.sha256()
    engine = FactoredInference(DOM, structural_zeros=zeros, iters=40, warm_start=len(history) > 1)
    for step, cliques in enumerate(history):
        with contextlib.redirect_stdout(io.StringIO()):
            model = engine.estimate(measurements(cliques, 7 + step), total=TOTAL, engine=solver)
        tag = '%s/%s/step%d' % (name, solver, step)
        queries = list(model.cliques) + list(zeros.keys()) + list(extra)
        for q in queries:
            v = model.project(q).datavector(flatten=False)
            check('%s project%s' % (tag, q), v, q, zeros)
            h.update(np.ascontiguousarray(np.round(v, 7) + 0.0).tobytes())
        full = model.datavector(flatten=False)
        check('%s datavector' % tag, full, DOM.attrs, zeros)
        h.update(np.ascontiguousarray(np.round(full, 7) + 0.0).tobytes())
        with contextlib.redirect_stdout(io.StringIO()):
            many = model.calculate_many_marginals([tuple(q) for q in extra])
        for q in extra:
            v = many[tuple(q)].datavector(flatten=False)
            check('%s many_marginals%s' % (tag, q), v, q, zeros)
            h.update(np.ascontiguousarray(np.round(v, 7) + 0.0).tobytes())
    return h.hexdigest()[:16]


for name, zeros, history, extra in CASES:
    for solver in ['MD', 'RDA', 'IG']:
        try:
            d = run_case(name, zeros, history, extra, solver)
        except Exception as e:                     # a crash is a violation too
            problems.append('%s/%s: raised %s: %s' % (name, solver, type(e).__name__, e))
            d = 'exception'
        digest_lines.append('%-34s %-3s %s' % (name, solver, d))

print('\n'.join(digest_lines))
if problems:
    print('FAIL: structural zeros are not handled as property C10 requires (%d findings)'
          % len(problems))
    for p in problems[:25]:
        print('  -', p)
    if len(problems) > 25:
        print('  ... %d more' % (len(problems) - 25))
    print('Explanation: a zero set that removes a whole value of a separator attribute makes a')
    print('belief-propagation message -inf; Factor.__sub__ must treat "-inf - -inf" as -inf.')
    sys.exit(1)
print('PASS: %d configurations, no NaN, declared cells empty, mass == total' % len(digest_lines))
sys.exit(0)

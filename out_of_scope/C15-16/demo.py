""" C15 pair 2 -- Domain.marginalize with a set for the membership test.

Checks the marginalise laws of the domain algebra
    marginalize(X) == project(invert(X))           (same attributes, order, sizes)
    marginalize(X).size() * size(canonical(X)) == size()
    D1.merge(D2) == D1 + (D2 marginalised over D1)
and that marginalising the DOMAIN agrees with summing the dataset's contingency
table over the removed axes, for X given as list / tuple / set / dict keys /
Domain / numpy array / a single attribute name (a plain string, as Domain.project,
Dataset.project and Factor.project accept it).
Exit 0 + PASS + digest when all laws hold, exit 1 + FAIL otherwise.
"""
import os, sys, hashlib, warnings
warnings.filterwarnings('ignore')
ROOT = os.path.dirname(os.path.dirname(os.path.dirname(os.path.abspath(__file__))))
sys.path.insert(0, os.path.join(ROOT, 'src'))
import numpy as np
import pandas as pd
from mbi import Domain, Dataset, Factor

failures, lines = [], []

def show(dom):
    return '[' + ', '.join('%s:%d' % (a, n) for a, n in zip(dom.attrs, dom.shape)) + ']'

def names_of(X):
    """ the attribute names a request denotes: a plain string is ONE name """
    return [X] if isinstance(X, str) else list(X)

def check_laws(label, dom, X, data=None):
    names = names_of(X)
    kind = type(X).__name__
    expect_attrs = tuple(a for a in dom.attrs if a not in names)
    expect_shape = tuple(dom.config[a] for a in expect_attrs)
    got = dom.marginalize(X)
    problems = []
    if got.attrs != expect_attrs or got.shape != expect_shape:
        problems.append('marginalize gives %s, expected attributes %s' % (show(got), list(expect_attrs)))
    via_invert = dom.project(dom.invert(X))
    if not (got.attrs == via_invert.attrs and got.shape == via_invert.shape):
        problems.append('marginalize %s != project(invert) %s' % (show(got), show(via_invert)))
    removed = dom.canonical(names)
    if got.size() * dom.size(list(removed)) != dom.size():
        problems.append('size law: %d * %d != %d' % (got.size(), dom.size(list(removed)), dom.size()))
    if data is not None and len(got) > 0:    # (a table over zero attributes is not supported)
        # marginalising the domain must commute with summing the table
        table = data.datavector(flatten=False)
        axes = tuple(dom.attrs.index(a) for a in removed)
        expect = table.sum(axis=axes) if axes else table
        vec = data.project(got.attrs).datavector(flatten=False)
        if vec.shape != expect.shape or not np.allclose(vec, expect):
            problems.append('table over marginalised domain has shape %s, summed table %s'
                            % (vec.shape, expect.shape))
        lines.append('%s|%s|vec|%s' % (label, kind, ' '.join('%.6f' % v for v in vec.flatten())))
    lines.append('%s|%s|%s|%s' % (label, kind, sorted(map(str, names)), show(got)))
    for p in problems:
        failures.append('%s, request %r (%s): %s' % (label, X, kind, p))

prng = np.random.RandomState(7)
domains = {
    'census': Domain(['age', 'sex', 'income', 'race', 'marital'], [4, 2, 3, 1, 3]),
    'short': Domain(['a', 'b', 'c', 'd'], [2, 3, 2, 2]),
    'ints': Domain([10, 2, 33], [2, 3, 2]),
    'one': Domain(['only'], [4]),
}
for label, dom in domains.items():
    N = 60
    rows = np.array([prng.randint(0, n, N) for n in dom.shape]).T
    df = pd.DataFrame(rows, columns=list(dom.attrs))
    data = Dataset(df, dom, prng.rand(N) * 2)
    A = list(dom.attrs)
    requests = [[], A[:1], A[-1:], A[::2], tuple(A[::-1][:2]), set(A[1:3]), frozenset(A[:2]),
                A + ['zzz'], ['nope'], A[:1] * 2, dict.fromkeys(A[1:], 0).keys(),
                dom.project(A[-2:]), np.array(A[:2]), A]
    if all(isinstance(a, str) for a in A):
        requests += [A[0], A[-1], A[len(A) // 2], 'zzz']      # one name as a plain string
    for X in requests:
        check_laws(label, dom, X, data)

# merge is built on marginalize
pairs = [(domains['census'], Domain(['income', 'state', 'age'], [3, 5, 4])),
         (Domain(['state'], [5]), domains['census']),
         (domains['short'], Domain(['d', 'e'], [2, 7]))]
for d1, d2 in pairs:
    m = d1.merge(d2)
    extra = tuple(a for a in d2.attrs if a not in d1.attrs)
    if m.attrs != d1.attrs + extra or m.shape != d1.shape + tuple(d2.config[a] for a in extra):
        failures.append('merge %s + %s gives %s' % (show(d1), show(d2), show(m)))
    lines.append('merge|%s' % show(m))

# Factor.project with a bare name goes through Domain.marginalize
f = Factor(domains['short'], np.arange(24, dtype=float))
lines.append('factor|%s' % ' '.join('%.1f' % v for v in f.project('c').values.flatten()))
lines.append('factor|%s' % show(f.sum('bd').domain))
# tolerated oddities, recorded only (no law is claimed for them)
odd = Domain(['a', 'ab', 'b', 'cab'], [2, 3, 4, 5])
for X in ['ab', 'cab', 'ba', '', ('ab',), 'a']:
    lines.append('odd|%r|%s' % (X, show(odd.marginalize(X))))

digest = hashlib.sha256('\n'.join(lines).encode()).hexdigest()
if failures:
    print('FAIL: Domain.marginalize breaks the marginalise laws of the domain algebra')
    for f_ in failures[:12]:
        print('  -', f_)
    print('  (%d problems; all for a request that is a single attribute name given as a string)'
          % len(failures))
    sys.exit(1)
print('PASS: %d marginalise / merge / table checks hold' % len(lines))
print('digest', digest)
sys.exit(0)

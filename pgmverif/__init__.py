"""pgmverif - repository-specific static analysis for ryan112358/private-pgm.

Nothing from the analysed repository is imported or executed; every check
parses the current working tree with `ast` on every run.
"""

"""Structured forward dataflow over Python statements (syntax-directed CFG).

The repository uses structured control flow only, so instead of building an
explicit graph the analysis walks the statement tree: `if` forks and joins,
loops iterate to a fixpoint (the zero-trip path is always joined in), `break`,
`continue` and `return` divert the current state to the enclosing collector.
A dead state is represented by None.

Sub-classes provide the abstract domain:
    copy(st), join(a, b), equal(a, b)
    on_assign(st, stmt)          Assign / AnnAssign
    on_augassign(st, stmt)
    on_expr(st, expr, stmt)      every evaluated expression not covered above
    on_bind(st, target, iter_expr, stmt)   loop-variable binding
    on_return(st, stmt)
    refine(st, test, truth)      -> st or None (infeasible branch)
    on_funcdef(st, node)         nested def (default: ignore)
Anything else (with, raise, try with handlers that matter, match, ...) goes to
`unsupported`, which raises AnalysisError by default.
"""
import ast
from .srcmodel import AnalysisError, U

MAX_ITER = 40


class Structured:
    def __init__(self):
        self.returns = []        # (stmt, state)
        self._loops = []         # stack of {'break': [...], 'continue': [...]}

    # ---- domain hooks -------------------------------------------------
    def copy(self, st):
        raise NotImplementedError

    def join(self, a, b):
        raise NotImplementedError

    def equal(self, a, b):
        return a == b

    def on_assign(self, st, stmt):
        return st

    def on_augassign(self, st, stmt):
        return st

    def on_expr(self, st, expr, stmt):
        return st

    def on_bind(self, st, target, iter_expr, stmt):
        return st

    def on_return(self, st, stmt):
        return st

    def refine(self, st, test, truth):
        return st

    def on_funcdef(self, st, node):
        return st

    def on_assert(self, st, stmt):
        return self.on_expr(st, stmt.test, stmt)

    def on_delete(self, st, stmt):
        return self.unsupported(st, stmt)

    def unsupported(self, st, stmt):
        raise AnalysisError('unsupported construct %s at line %s: %s'
                            % (type(stmt).__name__, getattr(stmt, 'lineno', '?'), U(stmt)[:80]))

    # ---- engine ---------------------------------------------------------
    def _join(self, a, b):
        if a is None:
            return None if b is None else self.copy(b)
        if b is None:
            return self.copy(a)
        return self.join(a, b)

    def _join_all(self, states):
        out = None
        for s in states:
            out = self._join(out, s)
        return out

    def run(self, body, st):
        """Analyse a function body; returns the fall-through state (or None).
        Return states are collected in self.returns."""
        return self.block(body, st)

    def exits(self, body, st):
        """All exit states: explicit returns plus fall-through (stmt None)."""
        self.returns = []
        end = self.run(body, st)
        out = list(self.returns)
        if end is not None:
            out.append((None, end))
        return out

    def block(self, stmts, st):
        for s in stmts:
            if st is None:
                break
            st = self.stmt(s, st)
        return st

    def stmt(self, s, st):
        if isinstance(s, (ast.Assign, ast.AnnAssign)):
            return self.on_assign(st, s)
        if isinstance(s, ast.AugAssign):
            return self.on_augassign(st, s)
        if isinstance(s, ast.Expr):
            return self.on_expr(st, s.value, s)
        if isinstance(s, ast.Return):
            st = self.on_return(st, s)
            if st is not None:
                self.returns.append((s, self.copy(st)))
            return None
        if isinstance(s, ast.If):
            st = self.on_expr(st, s.test, s)
            t = self.refine(self.copy(st), s.test, True)
            f = self.refine(self.copy(st), s.test, False)
            a = self.block(s.body, t) if t is not None else None
            b = self.block(s.orelse, f) if f is not None else None
            return self._join(a, b)
        if isinstance(s, (ast.For, ast.While)):
            return self.loop(s, st)
        if isinstance(s, ast.Break):
            if not self._loops:
                raise AnalysisError('break outside loop')
            self._loops[-1]['break'].append(self.copy(st))
            return None
        if isinstance(s, ast.Continue):
            if not self._loops:
                raise AnalysisError('continue outside loop')
            self._loops[-1]['continue'].append(self.copy(st))
            return None
        if isinstance(s, ast.Assert):
            return self.on_assert(st, s)
        if isinstance(s, (ast.Pass, ast.Import, ast.ImportFrom, ast.Global, ast.Nonlocal)):
            return st
        if isinstance(s, (ast.FunctionDef, ast.AsyncFunctionDef, ast.ClassDef)):
            return self.on_funcdef(st, s)
        if isinstance(s, ast.Try):
            # body may be abandoned at any point: handlers start from join(entry, body-out)
            entry = self.copy(st)
            out = self.block(s.body, st)
            h_in = self._join(entry, out)
            outs = [self.block(s.orelse, out) if out is not None else None]
            for h in s.handlers:
                outs.append(self.block(h.body, self.copy(h_in)) if h_in is not None else None)
            res = self._join_all(outs)
            if s.finalbody and res is not None:
                res = self.block(s.finalbody, res)
            return res
        if isinstance(s, ast.With):
            for item in s.items:
                st = self.on_expr(st, item.context_expr, s)
            return self.block(s.body, st)
        if isinstance(s, ast.Raise):
            if s.exc is not None:
                self.on_expr(st, s.exc, s)
            return None
        if isinstance(s, ast.Delete):
            return self.on_delete(st, s)
        return self.unsupported(st, s)

    def loop(self, s, st):
        is_for = isinstance(s, ast.For)
        if is_for:
            st = self.on_expr(st, s.iter, s)
        head = st
        breaks = []
        last_back = None
        for _ in range(MAX_ITER):
            self._loops.append({'break': [], 'continue': []})
            cur = self.copy(head)
            if is_for:
                cur = self.on_bind(cur, s.target, s.iter, s)
                body_in = cur
            else:
                cur = self.on_expr(cur, s.test, s)
                body_in = self.refine(self.copy(cur), s.test, True)
            out = self.block(s.body, body_in) if body_in is not None else None
            frame = self._loops.pop()
            back = self._join_all([out] + frame['continue'])
            last_back = back
            new = self._join(head, back)
            breaks = frame['break']
            if self.equal(new, head):
                break
            head = new
        else:
            raise AnalysisError('loop fixpoint not reached at line %d' % s.lineno)
        if is_for and at_least_once(s.iter) and last_back is not None:
            exit_st = self.copy(last_back)      # `for i in range(25)`: the body has run when the loop is left normally - no zero-trip path
        elif is_for:
            exit_st = self.copy(head)
        else:
            exit_st = self.on_expr(self.copy(head), s.test, s)
            exit_st = self.refine(exit_st, s.test, False)
        if s.orelse and exit_st is not None:
            exit_st = self.block(s.orelse, exit_st)
        return self._join_all([exit_st] + breaks)


def at_least_once(it):
    """range(k) / range(a, b) with integer literals and at least one element"""
    if isinstance(it, ast.Call) and isinstance(it.func, ast.Name) and it.func.id == 'range' and not it.keywords and 1 <= len(it.args) <= 2 \
            and all(isinstance(a, ast.Constant) and isinstance(a.value, int) and not isinstance(a.value, bool) for a in it.args):
        vals = [a.value for a in it.args]
        return (vals[0] >= 1) if len(vals) == 1 else (vals[1] > vals[0])
    return False


def is_flag_test(test, flag_names):
    """Recognise `flag`, `not flag`, `flag == const`, `flag is None`, ... .
    Returns (name, op, const_repr) or None."""
    if isinstance(test, ast.Name) and test.id in flag_names:
        return (test.id, 'truthy', None)
    if isinstance(test, ast.UnaryOp) and isinstance(test.op, ast.Not):
        r = is_flag_test(test.operand, flag_names)
        if r and r[1] == 'truthy':
            return (r[0], 'falsy', None)
    if isinstance(test, ast.Compare) and len(test.ops) == 1:
        l, r = test.left, test.comparators[0]
        if isinstance(l, ast.Name) and l.id in flag_names and isinstance(r, ast.Constant):
            return (l.id, type(test.ops[0]).__name__, repr(r.value))
    return None

"""E2 - origins (fresh / borrowed) and mutation summaries.

Every value carries two may-sets of origin tokens, one for the object itself (`own`) and one for the objects it
holds (`elem`):
    F          allocated in this activation (constructor, display, comprehension, .copy(), arithmetic result)
    P:x, Pe:x  the object passed as parameter x / the objects it holds
    S:a        the object found in self.a on entry (persistent engine state, possibly a previously returned model)
    G          module-level / default-argument objects
A *mutation site* is an in-place write (element / attribute store, in-place augmented assignment on a kind that
has the in-place dunder, mutating method, out= argument, call of a summarised mutator).  Per function the
analysis derives a summary: which parameters (or their elements) it may mutate, what its result aliases, and
which self attributes it leaves bound to fresh objects.  Summaries are iterated to a fixpoint over the scope.
"""
import ast

from ..absint import Structured
from ..srcmodel import AnalysisError, U, attr_chain, target_names, walk_shallow

FRESH = frozenset({'F'})
VIEW_NP = {'asarray', 'reshape', 'moveaxis', 'broadcast_to', 'ravel', 'transpose', 'squeeze', 'atleast_1d',
           'atleast_2d', 'swapaxes', 'expand_dims', 'asanyarray', 'aslinearoperator', 'array_split', 'split'}
VIEW_METHODS = {'reshape', 'transpose', 'ravel', 'squeeze', 'view', 'swapaxes', 'T', 'tocsr', 'tocoo'}
MUTATING_METHODS = {'append', 'extend', 'insert', 'pop', 'remove', 'sort', 'reverse', 'clear', 'update', 'setdefault',
                    'add', 'discard', 'popitem', 'fill', 'resize', 'put', 'itemset', 'add_edge', 'add_edges_from',
                    'add_nodes_from', 'add_node', 'remove_node', 'remove_edge', 'shuffle',
                    'eliminate_zeros', 'sum_duplicates', 'sort_indices', 'setdiag', 'prune'}
CONTAINER_READERS = {'values', 'items', 'keys', 'get'}
INPLACE_KINDS = {'ndarray', 'list', 'set', 'dict'}


class Val:
    __slots__ = ('own', 'elem', 'kind', 'ekind')

    def __init__(self, own=FRESH, elem=FRESH, kind=None, ekind=None):
        self.own, self.elem, self.kind, self.ekind = frozenset(own), frozenset(elem), kind, ekind

    def __eq__(self, o):
        return isinstance(o, Val) and (self.own, self.elem, self.kind, self.ekind) == (o.own, o.elem, o.kind, o.ekind)

    def __repr__(self):
        return 'Val(own=%s, elem=%s, %s)' % (sorted(self.own), sorted(self.elem), self.kind)


def join_val(a, b):
    return Val(a.own | b.own, a.elem | b.elem, a.kind if a.kind == b.kind else None, a.ekind if a.ekind == b.ekind else None)


class Summary:
    def __init__(self):
        self.mut = {}          # token ('P:x' / 'Pe:x' / 'S:a' / 'G') -> example construct text
        self.ret = Val(frozenset(), frozenset())
        self.self_out = {}     # attr -> Val (self attributes definitely bound on every exit)
        self.sites = []

    def key(self):
        return (tuple(sorted(self.mut)), self.ret.own, self.ret.elem,
                tuple(sorted((k, v.own, v.elem) for k, v in self.self_out.items())))


class Site:
    def __init__(self, fi, node, what, origins, via=None):
        self.fi, self.node, self.what, self.origins, self.via = fi, node, what, frozenset(origins), via


class Scope:
    """functions under analysis + name-based call resolution"""

    def __init__(self, repo, units, param_kinds=None):
        self.repo = repo
        self.funcs = {}        # (rel, qualname) -> FuncInfo
        self.by_method = {}    # method name -> [FuncInfo]
        self.by_class = {}     # class name -> {method: FuncInfo}
        self.module_funcs = {}  # name -> FuncInfo
        self.param_kinds = param_kinds or {}
        for rel in units:
            m = repo.module(rel)
            for q, fi in m.funcs.items():
                if '<locals>' in q:
                    continue
                self.funcs[(rel, q)] = fi
                if fi.cls is not None:
                    self.by_method.setdefault(fi.name, []).append(fi)
                    self.by_class.setdefault(fi.cls.name, {})[fi.name] = fi
                else:
                    self.module_funcs[fi.name] = fi
        self.summaries = {}

    def summary(self, fi):
        return self.summaries.get((fi.rel, fi.qualname))

    def solve(self, max_rounds=8):
        for fi in self.funcs.values():
            self.summaries[(fi.rel, fi.qualname)] = Summary()
        for _ in range(max_rounds):
            changed = False
            for key, fi in self.funcs.items():
                an = FuncAlias(self, fi)
                s = an.analyse()
                if s.key() != self.summaries[key].key():
                    changed = True
                self.summaries[key] = s
            if not changed:
                return
        raise AnalysisError('mutation summaries did not reach a fixpoint')


KIND_OF_CLASS = {'Factor': 'factor', 'CliqueVector': 'cv', 'GraphicalModel': 'model', 'JunctionTree': 'jtree',
                 'Domain': 'domain', 'Dataset': 'dataset', 'FactoredInference': 'engine'}
CLASS_OF_KIND = {v: k for k, v in KIND_OF_CLASS.items()}


class FuncAlias(Structured):
    def __init__(self, scope, fi):
        super().__init__()
        self.scope, self.fi = scope, fi
        self.sites = []
        self.ret = Val(frozenset(), frozenset())
        self.exit_states = []
        self.is_method = fi.cls is not None and not fi.is_static() and fi.params[:1] == ['self']

    # ---- lattice ---------------------------------------------------------------------------
    def copy(self, st):
        return dict(st)

    def join(self, a, b):
        out = {}
        for k in set(a) | set(b):
            va, vb = a.get(k), b.get(k)
            if '[' in k and (va is None or vb is None):
                continue            # an element place (`X[k]`) is known only if it was stored on both paths
            if va is None or vb is None:
                d = self.default(k)
                if d is None:
                    out[k] = va or vb
                    continue
                va, vb = va or d, vb or d
            out[k] = join_val(va, vb)
        return out

    def default(self, place):
        if place.startswith('self.') and place.count('.') == 1:
            a = place.split('.', 1)[1]
            kind = self.scope.param_kinds.get(a) or {'potentials': 'cv', 'marginals': 'cv', 'domain': 'domain', 'cliques': 'list'}.get(a)
            if kind is None and self.fi.cls is not None:
                kind = self.attr_kind(a)
            return Val({'S:' + a}, {'S:' + a}, kind)
        return None

    def attr_kind(self, a):
        """'list' when every binding of self.<a> in the class is a list construction (list(..), sorted(..), a display, a comprehension)"""
        vals = []
        for q, f in self.fi.module.funcs.items():
            if f.cls is not None and f.cls.name == self.fi.cls.name:
                for n in ast.walk(f.node):
                    if isinstance(n, ast.Assign):
                        for t in n.targets:
                            if isinstance(t, ast.Attribute) and isinstance(t.value, ast.Name) and t.value.id == 'self' and t.attr == a:
                                vals.append(n.value)
        if vals and all(isinstance(v, (ast.List, ast.ListComp)) or (isinstance(v, ast.Call) and isinstance(v.func, ast.Name) and v.func.id in ('list', 'sorted'))
                        for v in vals):
            return 'list'
        return None

    def initial(self):
        st = {}
        defaults = self.fi.defaults()
        for p in self.fi.params:
            kind = self.scope.param_kinds.get((self.fi.qualname, p)) or self.scope.param_kinds.get(p)
            d = defaults.get(p)
            if kind is None and isinstance(d, ast.Constant) and isinstance(d.value, (int, float, str, bool)):
                kind = 'scalar'
            if p == 'self' and self.is_method:
                kind = KIND_OF_CLASS.get(self.fi.cls.name)
            st[p] = Val({'P:' + p}, {'Pe:' + p}, kind)
        if self.fi.node.args.vararg:
            st[self.fi.node.args.vararg.arg] = Val(FRESH, {'Pe:*'})
        if self.fi.node.args.kwarg:
            st[self.fi.node.args.kwarg.arg] = Val(FRESH, {'Pe:**'})
        return st

    # ---- places --------------------------------------------------------------------------------
    def place(self, e):
        ch = attr_chain(e)
        return '.'.join(ch) if ch else None

    def read_place(self, e, st):
        p = self.place(e)
        if p is None:
            return None
        if p in st:
            return st[p]
        d = self.default(p)
        if d is not None:
            return d
        return None

    # ---- expression values -------------------------------------------------------------------------
    def val(self, e, st):
        if e is None:
            return Val(FRESH, FRESH, 'scalar')
        if isinstance(e, ast.Constant):
            return Val(FRESH, FRESH, 'scalar')
        if isinstance(e, ast.Name):
            if e.id in st:
                return st[e.id]
            return Val({'G'}, {'G'})
        if isinstance(e, ast.Attribute):
            v = self.read_place(e, st)
            if v is not None:
                return v
            base = self.val(e.value, st)
            if e.attr in ('values', 'T', 'dictionary', 'df'):
                return Val(base.own, base.own, 'ndarray' if e.attr in ('values', 'T') else None)
            if e.attr in ('shape', 'size', 'ndim', 'attrs', 'total', 'dtype') :
                return Val(FRESH, FRESH, 'scalar' if e.attr in ('size', 'ndim', 'total') else 'tuple')
            # any other attribute: a part of the base object
            kind = {'potentials': 'cv', 'marginals': 'cv', 'domain': 'domain', 'cliques': 'list'}.get(e.attr)
            return Val(base.own, base.elem | base.own, kind)
        if isinstance(e, ast.Subscript):
            if isinstance(e.value, ast.Name) and isinstance(e.slice, ast.Name) and '%s[%s]' % (e.value.id, e.slice.id) in st:
                return st['%s[%s]' % (e.value.id, e.slice.id)]      # the element just stored under this very key
            base = self.val(e.value, st)
            self.val(e.slice, st)
            if base.kind == 'ndarray':
                return Val(base.own, base.own, 'ndarray')      # basic slicing is a view
            if isinstance(e.slice, ast.Slice) and base.kind in ('list', 'tuple'):
                return Val(FRESH, base.elem, base.kind, base.ekind)      # slicing a list / tuple builds a new one holding the same elements
            ek = 'factor' if base.kind == 'cv' else base.ekind
            return Val(base.elem, base.elem, ek)
        if isinstance(e, ast.Starred):
            return self.val(e.value, st)
        if isinstance(e, (ast.Tuple, ast.List, ast.Set)):
            el = frozenset().union(*[self.val(x, st).own for x in e.elts]) if e.elts else FRESH
            kinds = {self.val(x, st).kind for x in e.elts}
            return Val(FRESH, el or FRESH, 'tuple' if isinstance(e, ast.Tuple) else ('list' if isinstance(e, ast.List) else 'set'),
                       kinds.pop() if len(kinds) == 1 else None)
        if isinstance(e, ast.Dict):
            el = frozenset().union(*[self.val(x, st).own for x in e.values if x is not None]) if e.values else FRESH
            return Val(FRESH, el or FRESH, 'dict')
        if isinstance(e, (ast.ListComp, ast.SetComp, ast.GeneratorExp, ast.DictComp)):
            inner = dict(st)
            for g in e.generators:
                it = self.val(g.iter, inner)
                for n in target_names(g.target):
                    inner[n] = Val(it.elem, it.elem, 'factor' if it.kind == 'cv' and False else it.ekind)
                for c in g.ifs:
                    self.val(c, inner)
            elt = e.value if isinstance(e, ast.DictComp) else e.elt
            v = self.val(elt, inner)
            if isinstance(e, ast.DictComp):
                self.val(e.key, inner)
            kind = {ast.ListComp: 'list', ast.SetComp: 'set', ast.GeneratorExp: 'list', ast.DictComp: 'dict'}[type(e)]
            return Val(FRESH, v.own, kind, v.kind)
        if isinstance(e, ast.IfExp):
            self.val(e.test, st)
            return join_val(self.val(e.body, st), self.val(e.orelse, st))
        if isinstance(e, ast.BoolOp):
            out = None
            for x in e.values:
                v = self.val(x, st)
                out = v if out is None else join_val(out, v)
            return out
        if isinstance(e, (ast.BinOp,)):
            a, b = self.val(e.left, st), self.val(e.right, st)
            kinds = {a.kind, b.kind}
            kind = None
            for k in ('cv', 'factor', 'ndarray'):
                if k in kinds:
                    kind = k
                    break
            if kind is None and kinds <= {'scalar'}:
                kind = 'scalar'
            if kind is None and 'list' in kinds and isinstance(e.op, ast.Add):
                return Val(FRESH, a.elem | b.elem, 'list')
            return Val(FRESH, FRESH, kind)
        if isinstance(e, (ast.UnaryOp,)):
            v = self.val(e.operand, st)
            return Val(FRESH, FRESH, v.kind)
        if isinstance(e, ast.Compare):
            self.val(e.left, st)
            for c in e.comparators:
                self.val(c, st)
            return Val(FRESH, FRESH, 'scalar')
        if isinstance(e, ast.Lambda):
            return Val(FRESH, FRESH, 'callable')
        if isinstance(e, ast.JoinedStr):
            return Val(FRESH, FRESH, 'scalar')
        if isinstance(e, ast.Call):
            return self.call(e, st)
        if isinstance(e, ast.Slice):
            return Val(FRESH, FRESH, 'scalar')
        return Val({'U'}, {'U'})

    # ---- calls --------------------------------------------------------------------------------------------
    def resolve(self, call, st):
        """-> list of FuncInfo candidates (possibly empty), receiver expr or None, is_ctor"""
        f = call.func
        sc = self.scope
        if isinstance(f, ast.Name):
            if f.id in sc.by_class and '__init__' in sc.by_class[f.id]:
                return [sc.by_class[f.id]['__init__']], None, True
            if f.id in sc.module_funcs:
                return [sc.module_funcs[f.id]], None, False
            return [], None, False
        if isinstance(f, ast.Attribute):
            recv = f.value
            # Class.static(...)
            if isinstance(recv, ast.Name) and recv.id in sc.by_class and recv.id not in st:
                m = sc.by_class[recv.id].get(f.attr)
                return ([m] if m else []), None, False
            if isinstance(recv, ast.Attribute) and recv.attr == 'Factor' and 'Factor' in sc.by_class:
                m = sc.by_class['Factor'].get(f.attr)
                if m is not None and m.is_static():
                    return [m], None, False
                if f.attr == '__call__':
                    return [], None, False
            d = self.fi.module.dotted(f)
            if d in ('copy.copy', 'copy.deepcopy') and isinstance(recv, ast.Name) and recv.id not in st:
                return [], None, False          # the standard-library functions, not a `.copy()` method of some object called `copy`
            if d and d.split('.')[0] in ('numpy', 'scipy', 'np', 'pandas', 'networkx', 'nx', 'itertools', 'pickle',
                                        'math', 'functools', 'warnings', 'torch', 'sparse', 'optimize', 'callbacks',
                                        'pd', 'os', 'json'):
                return [], None, False
            rv = self.val(recv, st)
            if isinstance(recv, ast.Name) and recv.id == 'self' and self.is_method:
                m = sc.by_class.get(self.fi.cls.name, {}).get(f.attr)
                return ([m] if m else []), recv, False
            cls = CLASS_OF_KIND.get(rv.kind)
            if cls and cls in sc.by_class:
                m = sc.by_class[cls].get(f.attr)
                return ([m] if m else []), recv, False
            if rv.kind in ('ndarray', 'list', 'dict', 'set', 'tuple', 'scalar'):
                return [], recv, False
            if f.attr.startswith('__') or (isinstance(recv, ast.Name) and recv.id in ('dict', 'set', 'list', 'tuple', 'object', 'super')):
                return [], recv, False
            cands = [m for m in sc.by_method.get(f.attr, []) if not m.is_static()]
            return cands, recv, False
        return [], None, False

    def call(self, c, st):
        f = c.func
        args = [self.val(a, st) for a in c.args]
        kw = {k.arg: self.val(k.value, st) for k in c.keywords}
        # out= and copyto
        for k in c.keywords:
            if k.arg == 'out' and not (isinstance(k.value, ast.Constant) and k.value.value is None):
                v = self.val(k.value, st)
                self.site(c, 'out= argument `%s`' % U(k.value), v.own)
        name = U(f)
        if name.split('.')[-1] == 'copyto' and c.args:
            self.site(c, 'np.copyto into `%s`' % U(c.args[0]), args[0].own)
        # mutating library methods on a receiver
        if isinstance(f, ast.Attribute):
            recv_v = None
            if f.attr in MUTATING_METHODS:
                d = self.fi.module.dotted(f) or ''
                if not d.startswith(('numpy.', 'scipy.', 'networkx.')) or f.attr == 'shuffle':
                    recv_v = self.val(f.value, st) if f.attr != 'shuffle' else (args[0] if args else None)
                    if recv_v is not None and not (f.attr == 'union' and recv_v.kind in ('set', None) and False):
                        if f.attr not in ('union',) or recv_v.kind not in ('set',):
                            self.site(c, 'mutating call `%s`' % U(c)[:70], recv_v.own)
                            p = self.place(f.value)
                            if p and p in st and args:
                                st[p] = Val(st[p].own, st[p].elem | frozenset().union(*[a.own for a in args]), st[p].kind, None)
        cands, recv, is_ctor = self.resolve(c, st)
        if cands:
            ret = None
            for m in cands:
                r = self.apply_summary(c, m, recv, args, kw, st, is_ctor)
                ret = r if ret is None else join_val(ret, r)
            return ret
        return self.external(c, f, args, kw, st)

    def bind_args(self, m, recv, args, kw, st, is_ctor):
        """param name -> Val for a call of m"""
        params = list(m.params)
        out = {}
        if params and params[0] == 'self' and not m.is_static():
            if is_ctor:
                out['self'] = Val(FRESH, FRESH, KIND_OF_CLASS.get(m.cls.name))
            elif recv is not None:
                out['self'] = self.val(recv, st)
            params = params[1:]
        for p, a in zip(params, args):
            out[p] = a
        for k, v in kw.items():
            if k in params:
                out[k] = v
        return out

    def subst(self, tokens, binding, callee=None):
        defaults = callee.defaults() if callee is not None else {}

        def unbound(name):
            d = defaults.get(name)
            if d is None or isinstance(d, ast.Constant) or (isinstance(d, (ast.Attribute, ast.Name)) and U(d) in ('np.random',)):
                return {'F'}            # immutable (or absent) default
            return {'G'}                # shared mutable default object
        out = set()
        for t in tokens:
            if t.startswith('P:'):
                b = binding.get(t[2:])
                out |= (b.own if b is not None else unbound(t[2:]))
            elif t.startswith('Pe:'):
                b = binding.get(t[3:])
                out |= (b.elem if b is not None else unbound(t[3:]))
            else:
                out.add(t)
        return frozenset(out)

    def apply_summary(self, c, m, recv, args, kw, st, is_ctor):
        s = self.scope.summary(m)
        if s is None:
            return Val(FRESH, FRESH)
        binding = self.bind_args(m, recv, args, kw, st, is_ctor)
        for tok, example in s.mut.items():
            if tok.startswith('S:') and not (self.is_method and m.cls is self.fi.cls and recv is not None and U(recv) == 'self'):
                continue
            if tok.startswith('S:'):
                # the callee mutates what IT finds in self.attr on entry: here that is the current self.attr
                cur = st.get('self.' + tok[2:], self.default('self.' + tok[2:]))
                org = cur.own | cur.elem
            else:
                org = self.subst({tok}, binding, m)
            self.site(c, 'call of %s, which does `%s`' % (m.qualname, example), org, via=m)
        own_call = self.is_method and recv is not None and U(recv) == 'self' and m.cls is self.fi.cls

        def of_receiver(tokens):
            # state of the callee's receiver (`S:attr`) handed out by a method called on ANOTHER object: it is part of that object,
            # not of the caller's self
            rb = binding.get('self')
            if own_call or rb is None:
                return tokens
            out = set()
            for t in tokens:
                if t.startswith('S:'):
                    out |= set(rb.own | rb.elem)
                else:
                    out.add(t)
            return frozenset(out)
        ret = Val(self.subst(of_receiver(s.ret.own), binding, m) or FRESH, self.subst(of_receiver(s.ret.elem), binding, m) or FRESH, s.ret.kind, s.ret.ekind)
        if is_ctor:
            # the new object holds its arguments - and, for a container handed in (CliqueVector(dict)), what that container holds
            ret = Val(FRESH, ret.elem | frozenset().union(*[(b.own | b.elem) if b.kind in ('dict', 'list', 'cv', 'tuple', 'set') else b.own
                                                            for k, b in binding.items() if k != 'self'] or [frozenset()]),
                      KIND_OF_CLASS.get(m.cls.name))
        # self attributes the callee leaves bound
        if self.is_method and recv is not None and U(recv) == 'self' and m.cls is self.fi.cls:
            for a, v in s.self_out.items():
                own = self.subst(v.own, binding, m)
                el = self.subst(v.elem, binding, m)
                st['self.' + a] = Val(own, el, v.kind, v.ekind)
                for k in [k for k in st if k.startswith('self.' + a + '.')]:
                    del st[k]
        return ret

    def external(self, c, f, args, kw, st):
        name = U(f)
        last = name.split('.')[-1]
        if isinstance(f, ast.Attribute) and (self.fi.module.dotted(f) or '') in ('copy.copy', 'copy.deepcopy') and len(args) == 1:
            # copy.copy(x): a new object holding what x holds; copy.deepcopy(x): nothing shared
            a0 = args[0]
            return Val(FRESH, FRESH if last == 'deepcopy' else a0.elem, a0.kind, a0.ekind)
        if isinstance(f, ast.Attribute):
            recv = self.val(f.value, st)
            if last == 'copy' and not c.args:
                deep = recv.kind in ('factor', 'ndarray', None)
                return Val(FRESH, FRESH if deep else recv.elem, recv.kind, recv.ekind)
            if last in ('get', 'pop', 'setdefault') and recv.kind in ('dict', 'cv', None) and c.args:
                # ONE element of the container (or the default handed in)
                dflt = frozenset().union(*[a.own for a in args[1:]]) if len(args) > 1 else FRESH
                return Val(recv.elem | dflt, recv.elem | dflt, 'factor' if recv.kind == 'cv' else recv.ekind)
            if last in CONTAINER_READERS:
                return Val(FRESH, recv.elem, 'list', recv.ekind)
            if last in VIEW_METHODS:
                if any(k.arg == 'copy' and isinstance(k.value, ast.Constant) and k.value.value is True for k in c.keywords):
                    return Val(FRESH, FRESH, recv.kind)          # tocsr(copy=True) and the like: a converted COPY
                return Val(recv.own, recv.own, recv.kind)
            d = self.fi.module.dotted(f) or ''
            if (d.startswith('numpy.') or d.startswith('scipy.')) and last in VIEW_NP and args:
                return Val(args[0].own, args[0].own, 'ndarray' if last != 'aslinearoperator' else None)
            if d.startswith('numpy.') or d.startswith('scipy.'):
                return Val(FRESH, FRESH, 'ndarray' if last not in ('isscalar', 'sum', 'dot', 'max', 'log', 'sqrt') else None)
            if last in ('deepcopy',) and args:
                return Val(FRESH, FRESH, args[0].kind)
            # unknown method on a repo object (e.g. Factor-like): fresh result
            return Val(FRESH, FRESH)
        if isinstance(f, ast.Name):
            if f.id in ('deepcopy',) and args:
                return Val(FRESH, FRESH, args[0].kind)
            if f.id in ('list', 'tuple', 'set', 'sorted', 'dict', 'reversed', 'frozenset') and args:
                return Val(FRESH, args[0].elem, {'sorted': 'list', 'reversed': 'list'}.get(f.id, f.id), args[0].ekind)
            if f.id in ('list', 'tuple', 'set', 'dict'):
                return Val(FRESH, FRESH, f.id)
            if f.id in ('len', 'float', 'int', 'sum', 'max', 'min', 'abs', 'type', 'isinstance', 'hasattr', 'callable',
                        'all', 'any', 'str', 'range', 'print', 'round'):
                if f.id in ('max', 'min') and args:
                    return Val(frozenset().union(*[a.own | a.elem for a in args]), frozenset().union(*[a.elem for a in args]))
                return Val(FRESH, FRESH, 'scalar')
            if f.id == 'reduce' and len(args) >= 2:
                # without an initial value a one-element sequence is handed back as it is: the result may BE an element of the sequence
                seq = args[1]
                init = args[2] if len(args) > 2 else None
                own = (seq.elem | FRESH) if init is None else (init.own | FRESH)
                return Val(own, own, seq.ekind)
            if f.id in ('zip', 'enumerate', 'filter', 'map', 'reduce') and args:
                return Val(FRESH, frozenset().union(*[a.elem | a.own for a in args]), 'list')
            if f.id in ('defaultdict', 'OrderedDict'):
                return Val(FRESH, FRESH, 'dict')
            if f.id == 'getattr' and args:
                return Val(args[0].own, args[0].own | args[0].elem)
            if f.id in st:      # calling a local callable
                return Val(FRESH, FRESH)
        return Val(FRESH, FRESH)

    # ---- recording -------------------------------------------------------------------------------------------
    def site(self, node, what, origins, via=None):
        self.sites.append(Site(self.fi, node, what, origins, via))

    # ---- statements ---------------------------------------------------------------------------------------------
    def assign_to(self, t, v, st, stmt, value_expr=None):
        if isinstance(t, ast.Name):
            st[t.id] = v
            for k in [k for k in st if k.startswith(t.id + '.') or k.startswith(t.id + '[') or k.endswith('[%s]' % t.id)]:
                del st[k]
        elif isinstance(t, (ast.Tuple, ast.List)):
            if value_expr is not None and isinstance(value_expr, (ast.Tuple, ast.List)) and len(value_expr.elts) == len(t.elts):
                vals = [self.val(x, st) for x in value_expr.elts]
                for tt, vv in zip(t.elts, vals):
                    self.assign_to(tt, vv, st, stmt)
            else:
                for tt in t.elts:
                    self.assign_to(tt, Val(v.elem, v.elem, v.ekind), st, stmt)
        elif isinstance(t, ast.Starred):
            self.assign_to(t.value, Val(FRESH, v.elem, 'list'), st, stmt)
        elif isinstance(t, ast.Attribute):
            p = self.place(t)
            base = self.val(t.value, st)
            # `X.dtype = np.dtype(X.dtype)` re-binds the attribute to an equal value (np.dtype of a dtype is that dtype): nothing observable changes
            same_value = isinstance(stmt, ast.Assign) and isinstance(stmt.value, ast.Call) and U(stmt.value.func) in ('np.dtype', 'numpy.dtype') \
                and len(stmt.value.args) == 1 and U(stmt.value.args[0]) == U(t)
            if not (isinstance(t.value, ast.Name) and t.value.id == 'self' and self.is_method) and not same_value:
                self.site(stmt, 'attribute store `%s = ...`' % U(t), base.own)
            if p:
                st[p] = v
                for k in [k for k in st if k.startswith(p + '.')]:
                    del st[k]
        elif isinstance(t, ast.Subscript):
            base = self.val(t.value, st)
            self.val(t.slice, st)
            self.site(stmt, 'element store `%s = ...`' % U(t), base.own)
            p = self.place(t.value)
            if p and p in st:
                st[p] = Val(st[p].own, st[p].elem | v.own, st[p].kind, st[p].ekind if st[p].ekind == v.kind else None)
            if isinstance(t.value, ast.Name) and isinstance(t.slice, ast.Name):
                for k in [k for k in st if k.startswith(t.value.id + '[')]:
                    del st[k]                                   # another key may denote the same element
                st['%s[%s]' % (t.value.id, t.slice.id)] = v

    def on_assign(self, st, s):
        if s.value is None:
            return st
        v = self.val(s.value, st)
        for t in (s.targets if isinstance(s, ast.Assign) else [s.target]):
            self.assign_to(t, v, st, s, s.value)
        return st

    def on_augassign(self, st, s):
        v = self.val(s.value, st)
        t = s.target
        if isinstance(t, ast.Name):
            cur = st.get(t.id, Val({'G'}, {'G'}))
            inplace = cur.kind in INPLACE_KINDS or (cur.kind == 'factor' and isinstance(s.op, (ast.Add, ast.Mult)))
            if cur.kind is None and (cur.own - {'F'}):
                # kind unknown and the object is borrowed: an ndarray / list would be updated in place
                inplace = True
            if inplace:
                self.site(s, 'in-place `%s`' % U(s)[:60], cur.own)
                st[t.id] = Val(cur.own, cur.elem | v.own | v.elem, cur.kind, cur.ekind)
            else:
                st[t.id] = Val(FRESH, FRESH if cur.kind != 'list' else cur.elem | v.elem, cur.kind or v.kind, cur.ekind)
        elif isinstance(t, ast.Attribute):
            base = self.val(t.value, st)
            cur = self.val(t, st)
            if isinstance(t.value, ast.Name) and t.value.id == 'self' and self.is_method and cur.kind in ('scalar', None, 'cv') \
                    and t.attr not in ('values',):
                # rebinding a self attribute (checked by the configuration rule), not an in-place write
                st[self.place(t)] = Val(FRESH, FRESH, cur.kind)
            else:
                self.site(s, 'in-place `%s`' % U(s)[:60], cur.own if t.attr != 'values' else base.own)
        elif isinstance(t, ast.Subscript):
            base = self.val(t.value, st)
            self.val(t.slice, st)
            self.site(s, 'element store `%s`' % U(s)[:60], base.own)
            ek = 'factor' if base.kind == 'cv' else base.ekind
            if ek != 'scalar' and base.kind != 'ndarray':
                if not (ek == 'factor' and not isinstance(s.op, (ast.Add, ast.Mult))):
                    self.site(s, 'in-place update of the element `%s`' % U(t), base.elem)
        return st

    def on_expr(self, st, e, s):
        self.val(e, st)
        return st

    def on_bind(self, st, target, it, s):
        v = self.val(it, st)
        ek = 'factor' if v.kind == 'cv' and False else v.ekind
        self.assign_to(target, Val(v.elem, v.elem, ek), st, s) if isinstance(target, ast.Name) else \
            self.assign_to(target, Val(FRESH, v.elem, 'tuple', None), st, s)
        return st

    def on_return(self, st, s):
        if s.value is not None:
            v = self.val(s.value, st)
            self.ret = Val(self.ret.own | v.own, self.ret.elem | v.elem, v.kind if not self.ret.own else
                           (v.kind if v.kind == self.ret.kind else None), v.ekind)
        return st

    def on_assert(self, st, s):
        return st

    def on_funcdef(self, st, node):
        st[node.name] = Val(FRESH, FRESH, 'callable')
        return st

    def on_delete(self, st, s):
        return st

    def unsupported(self, st, stmt):
        raise AnalysisError('%s:%s: unsupported construct %s in origin analysis'
                            % (self.fi.rel, getattr(stmt, 'lineno', '?'), type(stmt).__name__))

    # ---- summary ---------------------------------------------------------------------------------------------------
    def analyse(self):
        exits = self.exits(self.fi.body, self.initial())
        s = Summary()
        s.sites = self.sites
        for site in self.sites:
            for tok in site.origins:
                if tok != 'F':
                    s.mut.setdefault(tok, '%s' % U(site.node)[:60] if isinstance(site.node, ast.AST) else site.what)
        s.ret = self.ret if self.ret.own else Val(FRESH, FRESH, 'scalar')
        if self.is_method:
            common = None
            for stmt, st in exits:
                attrs = {k.split('.', 1)[1]: v for k, v in st.items() if k.startswith('self.') and k.count('.') == 1}
                # only attributes whose current binding differs from the entry default count as (re)bound
                attrs = {a: v for a, v in attrs.items() if v != self.default('self.' + a)}
                if common is None:
                    common = attrs
                else:
                    common = {a: join_val(v, attrs[a]) for a, v in common.items() if a in attrs}
            s.self_out = common or {}
        self.exit_states = exits
        return s

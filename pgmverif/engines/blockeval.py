"""Expression-level symbolic walk of a straight-line / if-structured block (no solver, no path enumeration).

Every local is replaced by its defining expression (copy propagation through if/else joins: a local assigned differently
on the two arms becomes the conditional expression `a if test else b`), so what a rule sees is *what is computed* in terms
of the block's inputs - locals, hoisted temporaries, guard clauses, option-style helpers (`return v` / `return None`
followed by `if v is not None`) and default-then-override all denote the same term.

Facts recorded:
  events   container growth: `A = np.append(A, X)`, `A.append(X)`, `A += [X]`, `A[k] = X` (kind 'store')
           each with the expanded value and the path condition under which it executes
  env      final expression of every assigned name
"""
import ast
import copy

from ..srcmodel import AnalysisError, U, clone


def T(e):
    return U(e).replace(' ', '') if e is not None else ''


def is_none(e):
    return isinstance(e, ast.Constant) and e.value is None


def negate(e):
    if isinstance(e, ast.UnaryOp) and isinstance(e.op, ast.Not):
        return e.operand
    return ast.UnaryOp(op=ast.Not(), operand=e)


class Subst(ast.NodeTransformer):
    def __init__(self, env, pc):
        self.env, self.pc = env, pc
        self.bound = []

    def visit_Name(self, node):
        if isinstance(node.ctx, ast.Load) and node.id in self.env and not any(node.id in b for b in self.bound):
            return simplify(clone(self.env[node.id]), self.pc)
        return node

    def scoped(self, node):
        names = set()
        for g in node.generators:
            for n in ast.walk(g.target):
                if isinstance(n, ast.Name):
                    names.add(n.id)
        # the first iterable is evaluated outside the comprehension scope
        node.generators[0].iter = self.visit(node.generators[0].iter)
        self.bound.append(names)
        for i, g in enumerate(node.generators):
            if i:
                g.iter = self.visit(g.iter)
            g.ifs = [self.visit(x) for x in g.ifs]
        if isinstance(node, ast.DictComp):
            node.key, node.value = self.visit(node.key), self.visit(node.value)
        else:
            node.elt = self.visit(node.elt)
        self.bound.pop()
        return node
    visit_ListComp = visit_GeneratorExp = visit_SetComp = visit_DictComp = scoped

    def visit_Lambda(self, node):
        self.bound.append({a.arg for a in node.args.args})
        node.body = self.visit(node.body)
        self.bound.pop()
        return node


def simplify(e, pc):
    """path-sensitive simplification of conditional terms"""
    class S(ast.NodeTransformer):
        def visit_IfExp(self, node):
            node = self.generic_visit(node)
            t = T(node.test)
            for c, pol in pc:
                if T(c) == t:
                    return node.body if pol else node.orelse
                if T(negate(c)) == t or T(c) == T(negate(node.test)):
                    return node.orelse if pol else node.body
            if T(node.body) == T(node.orelse):
                return node.body
            return node

        def visit_Compare(self, node):
            node = self.generic_visit(node)
            # (a if C else None) is None  ->  not C ;   ... is not None -> C   (a syntactically not None)
            if len(node.ops) == 1 and isinstance(node.ops[0], (ast.Is, ast.IsNot, ast.Eq, ast.NotEq)) and is_none(node.comparators[0]) \
                    and isinstance(node.left, ast.IfExp):
                x = node.left
                positive = isinstance(node.ops[0], (ast.IsNot, ast.NotEq))
                if is_none(x.orelse) and definitely_not_none(x.body):
                    return x.test if positive else negate(x.test)
                if is_none(x.body) and definitely_not_none(x.orelse):
                    return negate(x.test) if positive else x.test
            return node

        def visit_Subscript(self, node):
            node = self.generic_visit(node)
            # {k: f(k) for k in S}[x]  ->  f(x)      (x is assumed to be a key: otherwise the original raises)
            d = node.value
            if isinstance(d, ast.DictComp) and len(d.generators) == 1 and not d.generators[0].ifs and \
                    isinstance(d.generators[0].target, ast.Name) and isinstance(d.key, ast.Name) and d.key.id == d.generators[0].target.id \
                    and not isinstance(node.slice, (ast.Slice, ast.Tuple)):
                k = d.key.id
                arg = node.slice

                class Sub(ast.NodeTransformer):
                    def visit_Name(self, n):
                        return clone(arg) if n.id == k else n
                return Sub().visit(clone(d.value))
            return node

        def visit_UnaryOp(self, node):
            node = self.generic_visit(node)
            if isinstance(node.op, ast.Not) and isinstance(node.operand, ast.UnaryOp) and isinstance(node.operand.op, ast.Not):
                return node.operand.operand
            return node
    return S().visit(e)


def definitely_not_none(e):
    return isinstance(e, (ast.Subscript, ast.BinOp, ast.Call, ast.List, ast.Tuple, ast.Dict, ast.ListComp)) or \
        (isinstance(e, ast.Constant) and e.value is not None)


class Event:
    def __init__(self, kind, name, value, pc, stmt, loops=()):
        self.kind, self.name, self.value, self.pc, self.stmt, self.loops = kind, name, value, list(pc), stmt, list(loops)

    def guard_text(self):
        return ' and '.join(('%s' if pol else 'not (%s)') % U(c) for c, pol in self.pc) or 'True'


class BlockEval:
    def __init__(self, where='block', loop_ok=None):
        self.where = where
        self.env = {}
        self.events = []
        self.loop_ok = loop_ok      # predicate: which For loops may be entered (body walked once, symbolically)
        self.loops = []             # (loop stmt, env at entry)
        self.loops_done = []        # (loop stmt, env at entry, env after one symbolic pass over the body, pc)
        self.calls = []             # expression statements that are calls (stmt, expanded call, pc, enclosing loops)
        self.loopstack = []         # (target, expanded iterable) of the loops being walked
        self._dead = False
        self._pc_out = []
        self.opaque = set()         # names computed by loops this walker does not summarise
        self.assign_log = []        # every (name, expanded value, stmt) assigned, in walk order
        self.substores = []         # subscript stores: (expanded container, expanded index, expanded value, pc, loops, stmt)
        self.stores = []            # attribute stores: (target text, expanded value, stmt)
        self.objects = set()        # names mutated through method calls
        self.inits = {}             # their initial values

    def sub(self, e, pc, env=None):
        return simplify(Subst(self.env if env is None else env, pc).visit(clone(e)), pc)

    def run(self, stmts, pc=()):
        # names that are mutated through method calls denote objects: they are never replaced by their initial value
        for st_ in stmts:
            for n in ast.walk(st_):
                if isinstance(n, ast.Expr) and isinstance(n.value, ast.Call) and isinstance(n.value.func, ast.Attribute) \
                        and isinstance(n.value.func.value, ast.Name):
                    self.objects.add(n.value.func.value.id)
                if isinstance(n, ast.AugAssign) and isinstance(n.target, ast.Name) and isinstance(n.op, (ast.BitOr, ast.BitAnd)):
                    self.objects.add(n.target.id)
                if isinstance(n, ast.Assign):
                    for t_ in n.targets:
                        for el in (t_.elts if isinstance(t_, (ast.Tuple, ast.List)) else [t_]):
                            if isinstance(el, ast.Subscript) and isinstance(el.value, ast.Name):
                                self.objects.add(el.value.id)      # a container filled by `X[k] = v`
                # containers of containers: `B[r].add(x)`, `B[r] = set()`
                if isinstance(n, ast.Expr) and isinstance(n.value, ast.Call) and isinstance(n.value.func, ast.Attribute) \
                        and isinstance(n.value.func.value, ast.Subscript) and isinstance(n.value.func.value.value, ast.Name):
                    self.objects.add(n.value.func.value.value.id)
        self.block(stmts, list(pc))
        return self.env

    def block(self, stmts, pc):
        """walks the statements; returns the path condition in force afterwards, or None when the path ended
        (return / break / continue)"""
        pc = list(pc)
        for s in stmts:
            self._pc_out = pc
            self._dead = False
            self.stmt(s, pc)
            if self._dead:
                self._dead = False
                return None
            pc = self._pc_out
        return pc

    def append_event(self, s, pc):
        """recognise container growth; returns True if the statement was one"""
        if isinstance(s, ast.Assign) and len(s.targets) == 1 and isinstance(s.targets[0], ast.Name) and isinstance(s.value, ast.Call):
            c = s.value
            if U(c.func).split('.')[-1] == 'append' and U(c.func).split('.')[0] in ('np', 'numpy') and len(c.args) == 2 \
                    and U(c.args[0]) == s.targets[0].id:
                self.events.append(Event('append', s.targets[0].id, self.sub(c.args[1], pc), pc, s, self.loopstack))
                return True
        if isinstance(s, ast.Assign) and len(s.targets) == 1 and isinstance(s.targets[0], ast.Name) and isinstance(s.value, ast.BinOp) \
                and isinstance(s.value.op, ast.Add) and U(s.value.left) == s.targets[0].id and isinstance(s.value.right, ast.List) \
                and len(s.value.right.elts) == 1:
            self.events.append(Event('append', s.targets[0].id, self.sub(s.value.right.elts[0], pc), pc, s, self.loopstack))
            return True
        if isinstance(s, ast.Expr) and isinstance(s.value, ast.Call) and isinstance(s.value.func, ast.Attribute) \
                and s.value.func.attr == 'append' and len(s.value.args) == 1 and isinstance(s.value.func.value, ast.Name):
            self.events.append(Event('append', s.value.func.value.id, self.sub(s.value.args[0], pc), pc, s, self.loopstack))
            return True
        if isinstance(s, ast.AugAssign) and isinstance(s.op, ast.Add) and isinstance(s.target, ast.Name) and isinstance(s.value, ast.List) \
                and len(s.value.elts) == 1:
            self.events.append(Event('append', s.target.id, self.sub(s.value.elts[0], pc), pc, s, self.loopstack))
            return True
        if isinstance(s, ast.Assign) and len(s.targets) == 1 and isinstance(s.targets[0], ast.Subscript) \
                and isinstance(s.targets[0].value, ast.Name):
            self.events.append(Event('store', s.targets[0].value.id, self.sub(s.value, pc), pc, s, self.loopstack))
            return True
        return False

    def stmt(self, s, pc):
        if isinstance(s, ast.Assign) and len(s.targets) == 1 and isinstance(s.targets[0], ast.Subscript):
            t = s.targets[0]
            self.substores.append((self.sub(t.value, pc), self.sub(t.slice, pc), self.sub(s.value, pc), list(pc), list(self.loopstack), s))
        if isinstance(s, ast.AugAssign) and isinstance(s.target, ast.Subscript) and not isinstance(s.target.value, ast.Name):
            t = s.target
            self.substores.append((self.sub(t.value, pc), self.sub(t.slice, pc), self.sub(s.value, pc), list(pc), list(self.loopstack), s))
            return
        if isinstance(s, ast.AugAssign) and isinstance(s.target, ast.Subscript) and isinstance(s.target.value, ast.Name):
            nm = s.target.value.id
            ev = Event('update', nm, (self.sub(s.target.slice, pc), s.op, self.sub(s.value, pc)), pc, s, self.loopstack)
            ev.base = self.sub(ast.Name(id=nm, ctx=ast.Load()), pc)
            self.events.append(ev)
            return
        if self.loops and self.append_event(s, pc):
            return
        if isinstance(s, ast.Assign):
            v = self.sub(s.value, pc)
            for t in s.targets:
                self.assign(t, v, s)
            return
        if isinstance(s, ast.AnnAssign):
            if s.value is not None:
                self.assign(s.target, self.sub(s.value, pc), s)
            return
        if isinstance(s, ast.AugAssign):
            if isinstance(s.target, ast.Name):
                v = self.sub(ast.BinOp(left=ast.Name(id=s.target.id, ctx=ast.Load()), op=s.op, right=s.value), pc)
                self.env[s.target.id] = v
            return
        if isinstance(s, ast.Expr):
            if isinstance(s.value, ast.Call):
                self.calls.append((s, self.sub(s.value, pc), list(pc), list(self.loopstack)))
            return
        if isinstance(s, (ast.Pass, ast.Assert, ast.Import, ast.ImportFrom, ast.Global, ast.Nonlocal)):
            return
        if isinstance(s, (ast.FunctionDef, ast.ClassDef)):
            self.env.pop(s.name, None)      # a local function that the normaliser could not inline: calls to it stay opaque
            return
        if isinstance(s, (ast.Break, ast.Continue)):
            self._dead = True
            return
        if isinstance(s, ast.Return):
            self.env['__ret__'] = self.sub(s.value, pc) if s.value is not None else ast.Constant(value=None)
            self._dead = True
            return
        if isinstance(s, ast.Try):
            # value view of try/except: the handlers' result when something raises, else the body's
            t = ast.Name(id='__raises__', ctx=ast.Load())
            as_if = ast.If(test=t, body=[x for h in s.handlers for x in h.body] or [ast.Pass()], orelse=list(s.body) + list(s.orelse))
            ast.copy_location(as_if, s)
            self.stmt(as_if, pc)
            dead = self._dead
            pc_out = self._pc_out
            if s.finalbody and not dead:
                r = self.block(s.finalbody, pc_out)
                dead = r is None
                pc_out = r if r is not None else pc_out
            self._dead, self._pc_out = dead, pc_out
            return
        if isinstance(s, ast.If):
            t = self.sub(s.test, pc)
            before = dict(self.env)
            pa = self.block(s.body, pc + [(t, True)])
            a = self.env
            self.env = dict(before)
            pb = self.block(s.orelse, pc + [(t, False)])
            b = self.env

            def joined(keys):
                out = {}
                for k in keys:
                    va = a.get(k, ast.Name(id=k, ctx=ast.Load()))
                    vb = b.get(k, ast.Name(id=k, ctx=ast.Load()))
                    out[k] = va if T(va) == T(vb) else ast.IfExp(test=clone(t), body=va, orelse=vb)
                return out
            if pa is None and pb is None:
                self.env = joined(set(a) | set(b))
                self._dead = True
                return
            if pa is None:
                # the true branch left (return / break / continue): what follows runs only when the test failed
                self.env = dict(b)
                if '__ret__' in a:
                    self.env.update(joined({'__ret__'}))
                self._dead, self._pc_out = False, pc + [(t, False)]
                return
            if pb is None:
                self.env = dict(a)
                if '__ret__' in b:
                    self.env.update(joined({'__ret__'}))
                self._dead, self._pc_out = False, pc + [(t, True)]
                return
            self.env = joined(set(a) | set(b))
            self._dead, self._pc_out = False, pc
            return
        if isinstance(s, ast.While) and self.loop_ok is not None and not s.orelse:
            # walked once with every name it assigns opaque (denoting itself) inside and after
            assigned = {n.id for n in ast.walk(s) if isinstance(n, ast.Name) and isinstance(n.ctx, ast.Store)}
            for k in assigned:
                self.env[k] = ast.Name(id=k, ctx=ast.Load())
            self.opaque |= assigned
            self.block(s.body, pc)
            for k in assigned:
                self.env[k] = ast.Name(id=k, ctx=ast.Load())
            self._dead, self._pc_out = False, pc
            return
        if isinstance(s, ast.For) and self.loop_ok is not None and self.loop_ok(s) and not s.orelse:
            entry = dict(self.inits)
            entry.update(self.env)
            self.loops.append((s, entry))
            assigned = set()
            for n in ast.walk(s):
                if isinstance(n, ast.Name) and isinstance(n.ctx, ast.Store):
                    assigned.add(n.id)
            # names assigned in the loop denote themselves inside it (their pre-loop value is the entry value)
            for k in assigned:
                self.env[k] = ast.Name(id=k, ctx=ast.Load())
            n_ev = len(self.events)
            self.loopstack.append((s.target, self.sub(s.iter, pc, env=entry)))
            self.block(s.body, pc)
            self._dead, self._pc_out = False, pc
            self.loopstack.pop()
            self.loops.pop()
            body_env = dict(self.env)
            assigned |= {e.name for e in self.events[n_ev:]}
            for k in assigned:
                self.env[k] = ast.Name(id=k, ctx=ast.Load())
            self.loops_done.append((s, entry, body_env, list(pc)))
            return
        raise AnalysisError('%s: statement outside the recognised estimator shape at line %s: `%s`'
                            % (self.where, getattr(s, 'lineno', '?'), U(s)[:80]))

    def assign(self, t, v, s):
        if isinstance(t, ast.Name):
            self.assign_log.append((t.id, v, s))
        if isinstance(t, ast.Name) and t.id in self.objects:
            self.inits[t.id] = v
            self.env.pop(t.id, None)
        elif isinstance(t, ast.Name):
            self.env[t.id] = v
        elif isinstance(t, (ast.Tuple, ast.List)) and isinstance(v, (ast.Tuple, ast.List)) and len(v.elts) == len(t.elts):
            for a, b in zip(t.elts, v.elts):
                self.assign(a, b, s)
        elif isinstance(t, (ast.Tuple, ast.List)):
            for i, a in enumerate(t.elts):
                self.assign(a, ast.Subscript(value=v, slice=ast.Constant(value=i), ctx=ast.Load()), s)
        elif isinstance(t, ast.Attribute):
            self.stores.append((U(t), v, s))
            self.env[U(t)] = v          # keyed by its text: joined over branches like a name (never substituted into expressions)
        # subscript stores outside loops do not bind names

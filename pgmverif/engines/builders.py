"""Set-builder view of collections: { elt | t1 in it1, t2 in it2, ..., conds }.

Two spellings of one collection are read into the same `Builder`:
  * a comprehension / generator expression (optionally wrapped in list/set/tuple/frozenset),
  * an accumulator grown inside a loop nest (`acc.add(x)`, `acc.append(x)`, `G.add_edge(a, b, weight=w)`), taken from the
    events / call records of engines/blockeval.py (every local already replaced by its definition).
`canon()` alpha-renames the generator targets so that builders can be compared as text.
"""
import ast

from ..srcmodel import U, clone
from .blockeval import T


def strip_wrappers(e):
    while isinstance(e, ast.Call) and isinstance(e.func, ast.Name) and e.func.id in ('list', 'set', 'tuple', 'frozenset') and len(e.args) == 1 \
            and not e.keywords:
        e = e.args[0]
    return e


def split_and(c):
    if isinstance(c, ast.BoolOp) and isinstance(c.op, ast.And):
        out = []
        for v in c.values:
            out.extend(split_and(v))
        return out
    return [c]


class Builder:
    def __init__(self, elt, gens, conds, where=None):
        self.elt, self.gens, self.conds, self.where = elt, list(gens), [x for c in conds for x in split_and(c)], where

    @classmethod
    def of_comprehension(cls, e):
        e = strip_wrappers(e)
        if isinstance(e, (ast.ListComp, ast.SetComp, ast.GeneratorExp)):
            gens, conds = [], []
            for g in e.generators:
                gens.append((g.target, g.iter))
                conds.extend(g.ifs)
            return cls(e.elt, gens, conds, e)
        return None

    def composed(self, lookup=None):
        """a generator that ranges over a materialised comprehension of tuples is the same collection as the fused one:
             {E(a, b) | (a, b) in [(F(x), G(x)) for x in IT if D(x)]; C(a, b)}  ==  {E(F(x), G(x)) | x in IT; D(x) and C(F(x), G(x))}
        `lookup(name)` may supply the defining expression of a name used as an iterable."""
        cur = self
        for _ in range(4):
            changed = False
            for i, (t, it) in enumerate(cur.gens):
                src = strip_wrappers(it)
                if isinstance(src, ast.Name) and lookup is not None:
                    d = lookup(src.id)
                    if d is not None:
                        src = strip_wrappers(d)
                if isinstance(src, ast.Name) and lookup is not None:
                    d = lookup(src.id)
                    if d is not None:
                        src = strip_wrappers(d)
                inner = Builder.of_comprehension(src) if isinstance(src, (ast.ListComp, ast.GeneratorExp, ast.SetComp)) else None
                if inner is None:
                    continue
                inner = inner.composed(lookup)
                if isinstance(t, (ast.Tuple, ast.List)) and isinstance(inner.elt, ast.Tuple) and len(t.elts) == len(inner.elt.elts) \
                        and all(isinstance(x, ast.Name) for x in t.elts):
                    mapping = {x.id: v for x, v in zip(t.elts, inner.elt.elts)}
                elif isinstance(t, ast.Name):
                    mapping = {t.id: inner.elt}
                else:
                    continue
                inner_names = {n.id for tt, _ in inner.gens for n in ast.walk(tt) if isinstance(n, ast.Name)}
                outer_names = {n.id for j, (tt, _) in enumerate(cur.gens) if j != i for n in ast.walk(tt) if isinstance(n, ast.Name)}
                if inner_names & outer_names:
                    continue          # would capture

                class S(ast.NodeTransformer):
                    def visit_Name(self, n):
                        return clone(mapping[n.id]) if n.id in mapping and isinstance(n.ctx, ast.Load) else n
                sub = lambda e_: S().visit(clone(e_))
                gens = cur.gens[:i] + inner.gens + [(tt, sub(ii)) for tt, ii in cur.gens[i + 1:]]
                conds = list(inner.conds) + [sub(c) for c in cur.conds]
                cur = Builder(sub(cur.elt), gens, conds, cur.where)
                changed = True
                break
            if not changed:
                break
        return cur

    def rename_map(self, upto=None):
        m = {}
        for i, (t, _) in enumerate(self.gens):
            if upto is not None and i >= upto:
                break
            if isinstance(t, ast.Name):
                m[t.id] = '_g%d' % i
            elif isinstance(t, (ast.Tuple, ast.List)):
                for j, el in enumerate(t.elts):
                    if isinstance(el, ast.Name):
                        m[el.id] = '_g%d_%d' % (i, j)
        return m

    def renamed(self, e, upto=None):
        m = self.rename_map(upto)

        class R(ast.NodeTransformer):
            def visit_Name(self, n):
                return ast.Name(id=m[n.id], ctx=n.ctx) if n.id in m else n
        return R().visit(clone(e))

    def canon(self):
        """(element text, [(target shape, iterable text)], sorted condition texts) with canonical generator variables"""
        gens = []
        for i, (t, it) in enumerate(self.gens):
            shape = len(t.elts) if isinstance(t, (ast.Tuple, ast.List)) else 0
            # an iterable may mention earlier generator variables
            gens.append((shape, T(self.renamed(strip_wrappers(it), upto=i))))
        return T(self.renamed(self.elt)), gens, sorted(T(self.renamed(c)) for c in self.conds)

    def show(self):
        return '{%s | %s%s}' % (U(self.elt), ', '.join('%s in %s' % (U(t), U(i)) for t, i in self.gens),
                               ('; ' + ' and '.join(U(c) for c in self.conds)) if self.conds else '')


def grown(be, name, methods=('add', 'append')):
    """builders of every growth site of the accumulator `name` recorded by the BlockEval `be`
    (polarity-false path conditions are kept as `not c`)"""
    out = []
    for ev in be.events:
        if ev.name == name and ev.kind == 'append':
            out.append(Builder(ev.value, ev.loops, [c if pol else ast.UnaryOp(op=ast.Not(), operand=c) for c, pol in ev.pc], ev.stmt))
    for stmt, call, pc, loops in be.calls:
        f = call.func
        if isinstance(f, ast.Attribute) and f.attr in methods and isinstance(f.value, ast.Name) and f.value.id == name and len(call.args) == 1 \
                and loops:
            out.append(Builder(call.args[0], loops, [c if pol else ast.UnaryOp(op=ast.Not(), operand=c) for c, pol in pc], stmt))
    return out


def method_calls(be, recv, attr):
    """(stmt, expanded call, pc, loops) of every `recv.attr(...)` expression statement"""
    return [(s, c, pc, loops) for s, c, pc, loops in be.calls
            if isinstance(c.func, ast.Attribute) and c.func.attr == attr and U(c.func.value) == recv]

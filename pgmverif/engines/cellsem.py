"""Cell-level semantics of Factor arithmetic on extended reals.

A tiny abstract interpreter over the methods of `Factor` that follows ONE cell of the tables through an operation, ignoring layout
(expansion, merging and transposition are C14's business).  A cell is
    ('fin', {symbol: coefficient, 1: constant})   a finite value, affine in the symbols
    'ninf' | 'pinf' | 'nan' | 'big' | 'nbig'       -inf, +inf, NaN, the largest / smallest finite double (nan_to_num)
Used to decide what `f - g` does at a structural zero (a -inf cell) without running anything.
"""
import ast
from fractions import Fraction

from ..srcmodel import AnalysisError, U

NINF, PINF, NAN, BIG, NBIG = 'ninf', 'pinf', 'nan', 'big', 'nbig'


def fin(sym=None, const=0):
    d = {}
    if sym is not None:
        d[sym] = Fraction(1)
    if const:
        d[1] = Fraction(const)
    return ('fin', d)


def is_fin(c):
    return isinstance(c, tuple) and c[0] == 'fin'


def neg(c):
    if is_fin(c):
        return ('fin', {k: -v for k, v in c[1].items()})
    return {NINF: PINF, PINF: NINF, NAN: NAN, BIG: NBIG, NBIG: BIG}[c]


def add(a, b):
    if NAN in (a, b):
        return NAN
    if is_fin(a) and is_fin(b):
        d = dict(a[1])
        for k, v in b[1].items():
            d[k] = d.get(k, 0) + v
        return ('fin', {k: v for k, v in d.items() if v != 0})
    inf = {x for x in (a, b) if x in (NINF, PINF)}
    if len(inf) == 2:
        return NAN
    if inf:
        return inf.pop()
    # finite + huge finite: the huge one wins (symbolic finite values are of ordinary size); huge + opposite huge = 0
    huge = [x for x in (a, b) if x in (BIG, NBIG)]
    if len(huge) == 2:
        return PINF if huge == [BIG, BIG] else NINF if huge == [NBIG, NBIG] else fin()
    return huge[0]


def scale(c, k):
    """c times the python number k"""
    if k == 0:
        return NAN if c in (NINF, PINF, NAN) else fin()
    if is_fin(c):
        return ('fin', {s: v * Fraction(k) for s, v in c[1].items()})
    if c == NAN:
        return NAN
    return c if k > 0 else neg(c)


def nan_to_num(c):
    return {NAN: fin(), PINF: BIG, NINF: NBIG}.get(c, c) if not is_fin(c) else c


def same(a, b):
    if is_fin(a) and is_fin(b):
        return {k: v for k, v in a[1].items() if v != 0} == {k: v for k, v in b[1].items() if v != 0}
    return a == b


def show(c):
    if is_fin(c):
        parts = []
        for k, v in sorted(c[1].items(), key=lambda kv: str(kv[0])):
            parts.append(('%s' % v if k == 1 else ('%s' % k if v == 1 else '-%s' % k if v == -1 else '%s*%s' % (v, k))))
        return ' + '.join(parts) if parts else '0'
    return {NINF: '-inf', PINF: '+inf', NAN: 'NaN', BIG: '1.8e308', NBIG: '-1.8e308'}[c]


class Fac:
    def __init__(self, cell):
        self.cell = cell


class Arr:
    def __init__(self, cell):
        self.cell = cell


class Mask:
    def __init__(self, truth):
        self.truth = truth


class Num:
    def __init__(self, cell):
        self.cell = cell          # a python / numpy scalar, as a cell


class Other:
    def __init__(self, what):
        self.what = what


class LayoutTest:
    """a test on domains / shapes only (`self.domain.attrs == other.domain.attrs`): it does not depend on any cell value; both outcomes
    are followed and must give the same cell"""


class TableTest(LayoutTest):
    """a test on the WHOLE table (`np.isfinite(values).all()`) seen from one cell: when this cell does not decide it, it depends on the other cells;
    both outcomes are followed and must give the same value in this cell"""


class Interp:
    def __init__(self, methods, depth=0):
        self.methods = methods          # name -> FuncInfo of Factor
        self.depth = depth

    def call_method(self, name, recv, args):
        if name not in self.methods or self.depth > 6:
            raise AnalysisError('cell semantics: Factor.%s not available' % name)
        fi = self.methods[name]
        env = {'self': recv}
        params = fi.params[1:]
        for p, a in zip(params, args):
            env[p] = a
        for p, d in fi.defaults().items():
            if p not in env:
                env[p] = self.expr(d, env)
        sub = Interp(self.methods, self.depth + 1)
        r = sub.block(fi.body, env)
        if r is None:
            raise AnalysisError('cell semantics: Factor.%s returns nothing on this path' % name)
        return r

    # ---- statements -----------------------------------------------------------------------------------------------------------
    def block(self, stmts, env):
        for i_, st in enumerate(stmts):
            if isinstance(st, ast.If):
                t_ = self.expr(st.test, env)
                if isinstance(t_, Other) and isinstance(t_.what, str) and t_.what.startswith('domain'):
                    t_ = LayoutTest()
                if isinstance(t_, LayoutTest):
                    rest = list(stmts[i_ + 1:])
                    outs = []
                    for arm in (st.body, st.orelse):
                        e2 = dict(env)
                        outs.append((self.block(list(arm) + rest, e2), e2))
                    (r1, e1), (r2, e2) = outs
                    if (r1 is None) != (r2 is None):
                        raise AnalysisError('cell semantics: only one outcome of the layout test `%s` returns' % U(st.test)[:60])
                    if r1 is None:
                        raise AnalysisError('cell semantics: layout test `%s` without a result on either side' % U(st.test)[:60])
                    if type(r1) is not type(r2) or not hasattr(r1, 'cell') or not same(r1.cell, r2.cell):
                        raise AnalysisError('cell semantics: the two outcomes of the layout test `%s` give different cells (%s / %s)'
                                            % (U(st.test)[:60], show(getattr(r1, 'cell', None)), show(getattr(r2, 'cell', None))))
                    return r1
            if isinstance(st, ast.Return):
                return self.expr(st.value, env)
            if isinstance(st, ast.Assign) and len(st.targets) == 1 and isinstance(st.targets[0], ast.Name):
                env[st.targets[0].id] = self.expr(st.value, env)
            elif isinstance(st, ast.Assign) and len(st.targets) == 1 and isinstance(st.targets[0], ast.Subscript) \
                    and isinstance(st.targets[0].value, ast.Name) and isinstance(env.get(st.targets[0].value.id), Arr):
                # vals[mask] = v : masked store
                m = self.expr(st.targets[0].slice, env)
                v = self.expr(st.value, env)
                if not isinstance(m, Mask):
                    raise AnalysisError('cell semantics: store under a non-mask index `%s`' % U(st)[:60])
                if m.truth:
                    env[st.targets[0].value.id] = Arr(self.cell_of(v))
            elif isinstance(st, ast.AugAssign) and isinstance(st.target, ast.Name):
                cur = env.get(st.target.id)
                val = self.binop(st.op, cur, self.expr(st.value, env), st)
                env[st.target.id] = val
            elif isinstance(st, ast.If):
                t = self.expr(st.test, env)
                if not isinstance(t, Mask):
                    raise AnalysisError('cell semantics: undecided test `%s`' % U(st.test)[:60])
                r = self.block(st.body if t.truth else st.orelse, env)
                if r is not None:
                    return r
            elif isinstance(st, (ast.Assert, ast.Pass)):
                continue
            elif isinstance(st, ast.Expr) and isinstance(st.value, ast.Constant):
                continue
            else:
                raise AnalysisError('cell semantics: unsupported statement `%s`' % U(st)[:60])
        return None

    def cell_of(self, v):
        if isinstance(v, (Fac, Arr, Num)):
            return v.cell
        raise AnalysisError('cell semantics: not a numeric value')

    # ---- expressions ----------------------------------------------------------------------------------------------------------
    def expr(self, e, env):
        if isinstance(e, ast.Constant):
            if isinstance(e.value, bool):
                return Mask(e.value)
            if isinstance(e.value, (int, float)):
                return Num(fin(const=Fraction(e.value)) if e.value == e.value and abs(e.value) != float('inf') else (PINF if e.value > 0 else NINF))
            return Other(e.value)
        if isinstance(e, ast.Name):
            if e.id in env:
                return env[e.id]
            raise AnalysisError('cell semantics: unbound name `%s`' % e.id)
        if isinstance(e, ast.Attribute):
            t = U(e)
            if t in ('np.inf', 'numpy.inf', 'math.inf', 'np.Inf', 'np.infty'):
                return Num(PINF)
            if t in ('np.NINF',):
                return Num(NINF)
            if t in ('np.nan', 'numpy.nan', 'math.nan'):
                return Num(NAN)
            b = self.expr(e.value, env)
            if isinstance(b, Fac) and e.attr == 'values':
                return Arr(b.cell)
            if isinstance(b, Fac) and e.attr == 'domain':
                return Other('domain')
            if isinstance(b, Other):
                return Other('%s.%s' % (b.what, e.attr))
            raise AnalysisError('cell semantics: attribute `%s`' % t[:60])
        if isinstance(e, ast.UnaryOp):
            v = self.expr(e.operand, env)
            if isinstance(e.op, ast.USub):
                if isinstance(v, Fac):
                    return self.call_method('__neg__', v, [])
                if isinstance(v, (Arr, Num)):
                    return type(v)(neg(v.cell))
            if isinstance(e.op, (ast.Not, ast.Invert)) and isinstance(v, Mask):
                return Mask(not v.truth)
            if isinstance(e.op, (ast.Not, ast.Invert)) and isinstance(v, LayoutTest):
                return v
            raise AnalysisError('cell semantics: unary `%s`' % U(e)[:60])
        if isinstance(e, ast.BinOp):
            return self.binop(e.op, self.expr(e.left, env), self.expr(e.right, env), e)
        if isinstance(e, ast.BoolOp):
            vs = [self.expr(v, env) for v in e.values]
            vs = [LayoutTest() if isinstance(v, Other) and isinstance(v.what, str) and v.what.startswith('domain') else v for v in vs]
            if any(isinstance(v, LayoutTest) for v in vs) and all(isinstance(v, (LayoutTest, Mask)) for v in vs):
                # a decided operand can settle the whole test
                ms = [v.truth for v in vs if isinstance(v, Mask)]
                if isinstance(e.op, ast.And) and any(m is False for m in ms):
                    return Mask(False)
                if isinstance(e.op, ast.Or) and any(m is True for m in ms):
                    return Mask(True)
                return next(v for v in vs if isinstance(v, LayoutTest))
            if all(isinstance(v, Mask) for v in vs):
                return Mask(all(v.truth for v in vs) if isinstance(e.op, ast.And) else any(v.truth for v in vs))
            raise AnalysisError('cell semantics: boolean `%s`' % U(e)[:60])
        if isinstance(e, ast.Compare) and len(e.ops) == 1:
            a, b = self.expr(e.left, env), self.expr(e.comparators[0], env)
            return self.compare(e.ops[0], a, b, e)
        if isinstance(e, ast.IfExp):
            t = self.expr(e.test, env)
            if isinstance(t, Mask):
                return self.expr(e.body if t.truth else e.orelse, env)
            raise AnalysisError('cell semantics: undecided conditional `%s`' % U(e)[:60])
        if isinstance(e, ast.Call):
            return self.call(e, env)
        if isinstance(e, (ast.Tuple, ast.List)):
            return Other('seq')
        raise AnalysisError('cell semantics: expression `%s`' % U(e)[:60])

    def compare(self, op, a, b, e):
        if isinstance(a, (Arr, Num)) and isinstance(b, (Arr, Num)):
            x, y = a.cell, b.cell
            order = {NINF: 0, NBIG: 1, 'fin': 2, BIG: 3, PINF: 4}

            def rank(c):
                return order['fin'] if is_fin(c) else order.get(c)
            if NAN in (x, y):
                return Mask(isinstance(op, ast.NotEq))
            rx, ry = rank(x), rank(y)
            if isinstance(op, (ast.Eq, ast.NotEq)):
                if is_fin(x) and is_fin(y):
                    if same(x, y):
                        return Mask(isinstance(op, ast.Eq))
                    if set(x[1]) <= {1} and set(y[1]) <= {1}:
                        return Mask(isinstance(op, ast.NotEq))          # two different python numbers
                    raise AnalysisError('cell semantics: comparison of two finite values `%s`' % U(e)[:60])
                return Mask((rx == ry) == isinstance(op, ast.Eq))
            if rx != ry:
                lt = rx < ry
                return Mask({ast.Lt: lt, ast.LtE: lt, ast.Gt: not lt, ast.GtE: not lt}[type(op)])
            if not is_fin(x):
                return Mask(isinstance(op, (ast.LtE, ast.GtE)))
            raise AnalysisError('cell semantics: order of two finite values `%s`' % U(e)[:60])
        if isinstance(op, (ast.Is, ast.IsNot)) and isinstance(b, Other) and b.what is None:
            return Mask(isinstance(op, ast.IsNot))
        if isinstance(a, Other) and isinstance(b, Other) and isinstance(a.what, str) and isinstance(b.what, str) \
                and a.what.startswith('domain') and b.what.startswith('domain'):
            return LayoutTest()
        raise AnalysisError('cell semantics: comparison `%s`' % U(e)[:60])

    def binop(self, op, a, b, e):
        name = {ast.Add: '__add__', ast.Sub: '__sub__', ast.Mult: '__mul__', ast.Div: '__truediv__'}.get(type(op))
        if name is None:
            raise AnalysisError('cell semantics: operator in `%s`' % U(e)[:60])
        if isinstance(a, Fac):
            return self.call_method(name, a, [b])
        if isinstance(b, Fac):
            r = {'__add__': '__radd__', '__mul__': '__rmul__', '__sub__': '__rsub__'}.get(name)
            if r is None or r not in self.methods:
                raise AnalysisError('cell semantics: `%s` with a factor on the right and no reflected method' % U(e)[:60])
            return self.call_method(r, b, [a])
        if isinstance(a, (Arr, Num)) and isinstance(b, (Arr, Num)):
            kind = Arr if isinstance(a, Arr) or isinstance(b, Arr) else Num
            if name == '__add__':
                return kind(add(a.cell, b.cell))
            if name == '__sub__':
                return kind(add(a.cell, neg(b.cell)))
            if name == '__mul__':
                for x, y in ((a, b), (b, a)):
                    if is_fin(x.cell) and set(x.cell[1]) <= {1}:
                        return kind(scale(y.cell, x.cell[1].get(1, 0)))
                raise AnalysisError('cell semantics: product of two symbolic values `%s`' % U(e)[:60])
        raise AnalysisError('cell semantics: operands of `%s`' % U(e)[:60])

    def call(self, e, env):
        f = e.func
        name = U(f)
        last = name.split('.')[-1]
        args = [self.expr(a, env) for a in e.args]
        if last == 'Factor' and len(args) == 2:
            return Fac(self.cell_of(args[1]))
        if last == 'isscalar' and len(args) == 1:
            return Mask(isinstance(args[0], Num))
        if last in ('all', 'any') and isinstance(f, ast.Attribute) and not e.args:
            m_ = self.expr(f.value, env)
            if isinstance(m_, Mask):
                if last == 'all':
                    return Mask(False) if not m_.truth else TableTest()
                return Mask(True) if m_.truth else TableTest()
        if last in ('all', 'any') and len(args) == 1 and isinstance(args[0], Mask) and U(f) in ('np.all', 'np.any', 'numpy.all', 'numpy.any'):
            if last == 'all':
                return Mask(False) if not args[0].truth else TableTest()
            return Mask(True) if args[0].truth else TableTest()
        if last == 'where' and len(args) == 3 and isinstance(args[0], Mask):
            v = args[1] if args[0].truth else args[2]
            return Arr(self.cell_of(v))
        if last == 'nan_to_num' and len(args) >= 1:
            c = self.cell_of(args[0])
            repl = {}
            for k in e.keywords:
                if k.arg in ('nan', 'posinf', 'neginf'):
                    repl[k.arg] = self.cell_of(self.expr(k.value, env))
                elif k.arg != 'copy':
                    raise AnalysisError('cell semantics: nan_to_num(%s=..)' % k.arg)
            if c == NAN:
                return Arr(repl.get('nan', fin()))
            if c == PINF:
                return Arr(repl.get('posinf', BIG))
            if c == NINF:
                return Arr(repl.get('neginf', NBIG))
            return Arr(c)
        if last in ('isneginf', 'isposinf', 'isinf', 'isfinite', 'isnan') and len(args) == 1:
            c = self.cell_of(args[0])
            return Mask({'isneginf': c == NINF, 'isposinf': c == PINF, 'isinf': c in (NINF, PINF), 'isfinite': c not in (NINF, PINF, NAN),
                         'isnan': c == NAN}[last])
        if last in ('float', 'array', 'asarray', 'copy') and len(args) == 1 and isinstance(args[0], (Arr, Num)):
            return args[0]
        if last in ('negative',) and len(args) == 1:
            return Arr(neg(self.cell_of(args[0])))
        if last in ('subtract', 'add') and len(args) == 2 and not e.keywords:
            return self.binop(ast.Sub() if last == 'subtract' else ast.Add(), args[0], args[1], e)
        if isinstance(f, ast.Attribute):
            recv = self.expr(f.value, env)
            if isinstance(recv, Fac):
                if f.attr in ('expand', 'transpose', 'copy'):
                    return Fac(recv.cell)          # layout only
                if f.attr in self.methods:
                    return self.call_method(f.attr, recv, args)
            if isinstance(recv, Arr) and f.attr in ('copy', 'astype', 'reshape'):
                return recv
            if isinstance(recv, Other):
                return Other('%s.%s()' % (recv.what, f.attr))
        raise AnalysisError('cell semantics: call `%s`' % U(e)[:60])

"""E7 - interface conformance: what a client reads on an object versus what each class that can be
constructed at the dispatch site definitely provides."""
import ast

from ..absint import Structured
from ..srcmodel import AnalysisError, U, attr_chain, calls_in


class DefAssign(Structured):
    """Attributes of `self` definitely assigned on every path of a method (descending into unconditional
    self.m() calls)."""

    def __init__(self, repo, rel, clsname, stack=()):
        super().__init__()
        self.repo, self.rel, self.clsname, self.stack = repo, rel, clsname, stack
        self.methods = repo.methods(rel, clsname)

    def copy(self, st):
        return set(st)

    def join(self, a, b):
        return a & b

    def on_assign(self, st, s):
        if s.value is not None:
            self.scan(st, s.value)
        for t in (s.targets if isinstance(s, ast.Assign) else [s.target]):
            for el in (t.elts if isinstance(t, (ast.Tuple, ast.List)) else [t]):
                if isinstance(el, ast.Attribute) and U(el.value) == 'self':
                    st.add(el.attr)
        return st

    def on_augassign(self, st, s):
        return st

    def scan(self, st, e):
        for c in calls_in(e):
            f = c.func
            if isinstance(f, ast.Attribute) and U(f.value) == 'self' and f.attr in self.methods \
                    and f.attr not in self.stack:
                st |= definitely_assigned(self.repo, self.rel, self.clsname, f.attr, self.stack + (f.attr,))

    def on_expr(self, st, e, s):
        self.scan(st, e)
        return st

    def on_return(self, st, s):
        return st

    def on_funcdef(self, st, node):
        return st

    def unsupported(self, st, stmt):
        return st


def definitely_assigned(repo, rel, clsname, method='__init__', stack=()):
    methods = repo.methods(rel, clsname)
    if method not in methods:
        return set()
    fi = methods[method]
    an = DefAssign(repo, rel, clsname, stack or (method,))
    exits = an.exits(fi.body, set())
    out = None
    for stmt, st in exits:
        out = set(st) if out is None else (out & st)
    return out or set()


def bound_method(repo, rel, clsname, attr):
    """If __init__ binds self.<attr> = self.<m> (on every path possibly different m), return the list of m."""
    fi = repo.methods(rel, clsname).get('__init__')
    out = []
    if fi is None:
        return out
    for s in ast.walk(fi.node):
        if isinstance(s, ast.Assign) and len(s.targets) == 1 and U(s.targets[0]) == 'self.' + attr \
                and isinstance(s.value, ast.Attribute) and U(s.value.value) == 'self':
            out.append(s.value.attr)
    return out


def oracle_accesses(fi, oracle_places=('self.model',)):
    """(attr, 'load'|'store'|'call', node, nargs) for every access to an oracle-valued place in a method."""
    alias = set()
    for s in ast.walk(fi.node):
        if isinstance(s, ast.Assign) and len(s.targets) == 1 and isinstance(s.targets[0], ast.Name) \
                and U(s.value) in oracle_places:
            alias.add(s.targets[0].id)
    places = set(oracle_places) | alias
    out = []
    called = {}
    for c in calls_in(fi.node):
        if isinstance(c.func, ast.Attribute) and U(c.func.value) in places:
            called[id(c.func)] = c
    for n in ast.walk(fi.node):
        if isinstance(n, ast.Attribute) and U(n.value) in places:
            if id(n) in called:
                c = called[id(n)]
                out.append((n.attr, 'call', n, len(c.args)))
            elif isinstance(n.ctx, ast.Store):
                out.append((n.attr, 'store', n, None))
            else:
                out.append((n.attr, 'load', n, None))
    return out

"""Decorators on analysed functions.

Every rule reads the *body* of a function; a decorator replaces the function by something else, so a rule's verdict on the body
only carries over to callers when the decorator is behaviour-neutral.  Accepted as neutral: staticmethod / classmethod / property /
functools.wraps / functools.lru_cache / functools.cache (exact-key memoisation of the very function), and memoising decorators
defined in the repository that are shown to be exact:
    def D(f):
        [table = {}]                                   # one table per decorated function, or a shared one keyed by f as well
        def wrapper(*args, **kwargs):
            key = <injective in args and kwargs>
            if key not in table: table[key] = f(*args, **kwargs)
            return table[key]
        return wrapper
`judge(repo, fi)` -> list of (ok, node, message); raises AnalysisError for a decorator it cannot classify.
"""
import ast

from ..srcmodel import AnalysisError, U

NEUTRAL = {'staticmethod', 'classmethod', 'property', 'functools.wraps', 'wraps', 'functools.lru_cache', 'lru_cache', 'functools.cache', 'cache',
           'abstractmethod', 'abc.abstractmethod'}


def names(e):
    return {x.id for x in ast.walk(e) if isinstance(x, ast.Name)}


def decorated_with(module, dname):
    out = []
    for q, fi in module.funcs.items():
        for d in fi.node.decorator_list:
            if U(d.func if isinstance(d, ast.Call) else d) == dname:
                out.append(q)
    return out


def key_covers(key, args, kwargs):
    """is `key` an injective function of the positional tuple `args` (and the keyword dict `kwargs`)?"""
    t = U(key).replace(' ', '')
    a_ok = {args, 'tuple(%s)' % args}
    k_forms = set()
    if kwargs:
        for inner in ('sorted(%s.items())' % kwargs, '%s.items()' % kwargs):
            k_forms |= {'tuple(%s)' % inner, 'frozenset(%s)' % inner}
        # (the order of keyword arguments in tuple(kw.items()) is not canonical, but the key is still injective)
    if not kwargs:
        return t in a_ok
    for a in a_ok:
        for k in k_forms:
            if t in ('%s+%s' % (a, k), '(%s,%s)' % (a, k)):
                return True
    return False


def judge_memo_decorator(module, dfi, fi, dnode):
    """-> list of (ok, node, message) for the decorator function `dfi` applied to `fi`"""
    body = [s for s in dfi.node.body if not (isinstance(s, ast.Expr) and isinstance(s.value, ast.Constant))]
    params = [a.arg for a in dfi.node.args.args]
    if len(params) != 1:
        raise AnalysisError('decorator %s of %s: not a one-argument decorator' % (dfi.qualname, fi.qualname))
    f = params[0]
    inner = [s for s in body if isinstance(s, ast.FunctionDef)]
    rets = [s for s in body if isinstance(s, ast.Return)]
    tables_local = [s for s in body if isinstance(s, ast.Assign) and len(s.targets) == 1 and isinstance(s.targets[0], ast.Name)
                    and U(s.value).replace(' ', '') in ('{}', 'dict()')]
    if len(inner) != 1 or len(rets) != 1 or U(rets[0].value) != inner[0].name or len(body) != len(inner) + len(rets) + len(tables_local):
        raise AnalysisError('decorator %s of %s: not a recognised wrapper-returning decorator' % (dfi.qualname, fi.qualname))
    w = inner[0]
    for d in w.decorator_list:
        if U(d.func if isinstance(d, ast.Call) else d) not in NEUTRAL:
            raise AnalysisError('decorator %s: decorated wrapper' % dfi.qualname)
    wa = w.args
    if wa.args or wa.kwonlyargs or wa.posonlyargs or wa.vararg is None:
        raise AnalysisError('decorator %s of %s: wrapper signature is not (*args[, **kwargs])' % (dfi.qualname, fi.qualname))
    args, kwargs = wa.vararg.arg, (wa.kwarg.arg if wa.kwarg else None)
    wb = [s for s in w.body if not (isinstance(s, ast.Expr) and isinstance(s.value, ast.Constant))]
    keydef = None
    if wb and isinstance(wb[0], ast.Assign) and len(wb[0].targets) == 1 and isinstance(wb[0].targets[0], ast.Name):
        keydef = wb[0]
        wb = wb[1:]
    if len(wb) != 2 or not isinstance(wb[0], ast.If) or not isinstance(wb[1], ast.Return) or wb[0].orelse or len(wb[0].body) != 1:
        raise AnalysisError('decorator %s of %s: wrapper body is not `if key not in table: table[key] = f(..)` / `return table[key]`'
                            % (dfi.qualname, fi.qualname))
    test, store, ret = wb[0].test, wb[0].body[0], wb[1]
    if not (isinstance(test, ast.Compare) and len(test.ops) == 1 and isinstance(test.ops[0], ast.NotIn)
            and isinstance(store, ast.Assign) and len(store.targets) == 1 and isinstance(store.targets[0], ast.Subscript)
            and isinstance(ret.value, ast.Subscript)):
        raise AnalysisError('decorator %s of %s: wrapper body is not a guarded table store' % (dfi.qualname, fi.qualname))
    table = U(test.comparators[0])
    ktext = U(test.left)
    if U(store.targets[0].value) != table or U(ret.value.value) != table or U(store.targets[0].slice) != ktext or U(ret.value.slice) != ktext:
        raise AnalysisError('decorator %s of %s: the table test, store and read do not use one table and one key' % (dfi.qualname, fi.qualname))
    key = keydef.value if keydef is not None and keydef.targets[0].id == ktext else test.left
    out = []
    # the call that fills the table is the decorated function on the very arguments
    call = store.value
    passed = isinstance(call, ast.Call) and U(call.func) == f and [U(a) for a in call.args] == ['*' + args] and \
        [(k.arg, U(k.value)) for k in call.keywords] == ([(None, kwargs)] if kwargs else [])
    out.append((passed, store, 'the memoised value must be %s(*%s%s), the decorated function on the arguments of the call; is `%s`'
                % (f, args, ', **' + kwargs if kwargs else '', U(call))))
    # key: the whole argument list, and - for a table shared by several functions - the function
    key_parts = key
    mentions_f = f in names(key)
    if mentions_f and isinstance(key, ast.Tuple) and key.elts and U(key.elts[0]) in (f, f + '.__name__', f + '.__qualname__', 'id(%s)' % f):
        rest = key.elts[1:]
        key_parts = rest[0] if len(rest) == 1 else ast.Tuple(elts=rest, ctx=ast.Load())
    elif mentions_f and isinstance(key, ast.BinOp) and isinstance(key.op, ast.Add) and isinstance(key.left, ast.Tuple) and len(key.left.elts) == 1 \
            and U(key.left.elts[0]) in (f, f + '.__name__', f + '.__qualname__', 'id(%s)' % f):
        key_parts = key.right
    elif mentions_f:
        raise AnalysisError('decorator %s of %s: key `%s` mentions the function in an unrecognised way' % (dfi.qualname, fi.qualname, U(key)))
    covers = key_covers(key_parts, args, kwargs)
    if not covers:
        missing = sorted(({args} | ({kwargs} if kwargs else set())) - names(key_parts))
        if missing:
            out.append((False, keydef or wb[0], 'the memo key `%s` leaves out %s: calls that differ there share a slot' % (U(key), missing)))
        else:
            raise AnalysisError('decorator %s of %s: cannot tell whether the key `%s` is injective in the arguments' % (dfi.qualname, fi.qualname, U(key)))
    else:
        out.append((True, keydef or wb[0], 'the memo key `%s` is injective in the arguments' % U(key)))
    shared = not any(s.targets[0].id == table for s in tables_local)
    if shared:
        users = decorated_with(module, dfi.node.name)
        ok = mentions_f or len(users) <= 1
        out.append((ok, dnode, 'the memo table `%s` lives outside the decorator, so it is shared by every decorated function (%s); its key `%s` %s'
                    % (table, ', '.join(users), U(key), 'names the function' if mentions_f else
                       ('does not name the function: equal argument tuples of different functions share a slot, and the answer of one is returned '
                        'for the other' if len(users) > 1 else 'does not need to (one user)'))))
    else:
        out.append((True, dnode, 'one memo table per decorated function (`%s` is local to %s)' % (table, dfi.qualname)))
    return out


def judge(repo, fi):
    out = []
    node = fi.node
    for d in getattr(node, 'decorator_list', []):
        name = U(d.func if isinstance(d, ast.Call) else d)
        if name in NEUTRAL:
            continue
        module = fi.module
        if name in module.funcs:
            out.extend(judge_memo_decorator(module, module.funcs[name], fi, d))
            continue
        raise AnalysisError('%s is decorated with `%s`, which this analysis cannot classify: the verdicts on the body do not carry over to '
                            'callers' % (fi.qualname, name))
    return out

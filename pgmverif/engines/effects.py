"""E5 - sensitivity typing and privacy-cost algebra.

A symbolic constant-propagation interpreter (engines.symexec) extended with
  * inlining of repository callees with their parameters bound to the caller's symbolic values,
  * sensitivity *tags* on non-scalar values (a miniature Fuzz-style typing, adjacency-parametric):
        data                          the private dataset (and its projections)
        vec(d1, d2sq)                 a marginal vector: L1 sensitivity d1, squared L2 sensitivity d2sq
        sens(D)                       a scalar statistic with sensitivity D (rational form)
        qvec(D) / dictof(tag)         a vector / dict of such scalars
        unit(v)                       a vector normalised to unit L2 norm (sum of squares of its elements = 1)
        maxof(D)                      max over the elements' sensitivities (dominates each)
  * release records for every additive-noise release and every private selection, with their symbolic scale / logits
    coefficient, the sensitivity of the released statistic, and the loop nest they sit in (trip counts as rational forms).
Costs: Gaussian d2sq/(2 scale^2) (zCDP); Laplace d1/scale (pure eps); selection with logits coefficient c over a
quality of sensitivity D: eps_eff = 2*c*D (c*D under `monotonic`), charged eps_eff^2/8 (zCDP) or eps_eff (pure).
"""
import ast

from .symexec import SymExec, Opaque
from ..srcmodel import clone, AnalysisError, U, kwarg, target_names
from ..symexpr import Alg, Rat, Atoms, sym, const

MAX_DEPTH = 10


class Tag:
    def __init__(self, kind, **kw):
        self.kind = kind
        self.__dict__.update(kw)

    def __repr__(self):
        return 'Tag(%s %s)' % (self.kind, {k: v for k, v in self.__dict__.items() if k != 'kind'})


def tagged(kind, expr=None, **kw):
    return Opaque(expr, Tag(kind, **kw))


def tag_of(v, kind=None):
    if isinstance(v, Opaque) and isinstance(v.tag, Tag) and (kind is None or v.tag.kind == kind):
        return v.tag
    return None


class Release:
    def __init__(self, kind, rel, func, node, **kw):
        self.kind, self.rel, self.func, self.node = kind, rel, func, node
        self.loops = []        # [(loop stmt, trip Alg|None, unit var|None, partition-of text|None)]
        self.stack = ()
        self.__dict__.update(kw)

    def key(self):
        return (self.rel, self.node.lineno, self.node.col_offset)


class World:
    """state shared by all activations of one mechanism run"""

    def __init__(self, repo, files, adjacency_bounded=False, pure=False, assumptions=None):
        self.repo = repo
        self.mods = {rel: repo.module(rel) for rel in files}
        self.atoms = Atoms()
        self.releases = []
        self.problems = []       # (rel, func, node, text)
        self.bounded = adjacency_bounded
        self.pure = pure
        self.assumptions = assumptions if assumptions is not None else []
        self.depth = 0
        self.events = []         # ordered trace of ('assign', name, value, node) / ('release', Release) for ledger analyses

    def d1(self):
        return const(2 if self.bounded else 1)

    def d2sq(self):
        return const(2 if self.bounded else 1)


def abs_of(v, expr):
    """|v| as a symbol: named after the value when it is a plain symbol (so that renamed copies agree), else after the text"""
    if isinstance(v, Alg) and v.is_rat() and len(v.rat().symbols()) == 1 and v.eq(sym(list(v.rat().symbols())[0])):
        return Alg(Rat.sym('abs(%s)' % list(v.rat().symbols())[0]))
    return Alg(Rat.sym('abs(%s)' % U(expr)))


class CostExec(SymExec):
    ssa = True

    def __init__(self, world, fi, flags=None, env=None, stack=(), loops=(), self_env=None, cls=None):
        from ..normalise import normalised
        fi = normalised(world.repo, fi)      # new helpers, nested defs, comprehension-with-helper, conditional expressions: one spelling
        super().__init__(fi, flags=flags, env=env, atoms=world.atoms, vectors=True)
        self.world = world
        self.stack = tuple(stack) + (fi.qualname,)
        self.outer_loops = list(loops)
        self.loop_info = []      # parallel to self.loops
        self.call_hook = self.hook
        self.self_env = self_env if self_env is not None else {}
        self.cls = cls
        self.mod = fi.module
        self.sel_done = set()
        self.keyvars = {}        # loop variable -> the mapping whose keys it ranges over
        for k, v in self.self_env.items():
            self.env.setdefault('self.' + k, v)

    # ------------------------------------------------------------------ helpers
    def max_over_table(self, call):
        """max(self.T[k] for k in C)  with  self.T = {k: abs(w) for k, w in FULL.items()}  bound once (in the method that drives the rounds) and C a
        sub-dictionary of FULL that keeps FULL's values (`filter(FULL, ..)` building `ans[k] = FULL[k]`): the largest |weight| among the keys of C -
        the same number `max(abs(C[k]) for k in C)` is.  -> a 'maxof' value over |elemof:C|, or None"""
        g = call.args[0]
        if len(g.generators) != 1 or g.generators[0].ifs or not isinstance(g.generators[0].target, ast.Name) or not isinstance(g.generators[0].iter, ast.Name):
            return None
        k, C = g.generators[0].target.id, g.generators[0].iter.id
        e = g.elt
        if not (isinstance(e, ast.Subscript) and isinstance(e.value, ast.Attribute) and U(e.value.value) == 'self' and U(e.slice) == k and C in self.fi.params):
            return None
        attr = e.value.attr
        if self.cls is None:
            return None
        rel, cname = self.cls
        mod = self.world.mods[rel]
        binds = [(q, a) for q, f in mod.funcs.items() if q.startswith(cname + '.') for a in ast.walk(f.node)
                 if isinstance(a, ast.Assign) and any(U(t) == 'self.' + attr for t in a.targets)]
        if len(binds) != 1:
            return None
        q, a = binds[0]
        v = a.value
        if not (isinstance(v, ast.DictComp) and len(v.generators) == 1 and not v.generators[0].ifs and isinstance(v.generators[0].target, ast.Tuple)
                and len(v.generators[0].target.elts) == 2 and isinstance(v.generators[0].iter, ast.Call) and U(v.generators[0].iter.func).endswith('.items')):
            return None
        kk, ww = [U(x) for x in v.generators[0].target.elts]
        FULL = U(v.generators[0].iter.func.value)
        if U(v.key) != kk or U(v.value).replace(' ', '') not in ('abs(%s)' % ww, 'np.abs(%s)' % ww):
            return None
        # the caller hands over FULL itself or a value-preserving filter of it
        driver = mod.funcs[q]
        ok = False
        for c in ast.walk(driver.node):
            if isinstance(c, ast.Call) and U(c.func) == 'self.' + self.fi.name and c.args:
                a0 = c.args[0]
                src = a0
                if isinstance(a0, ast.Name):
                    ds = [x.value for x in ast.walk(driver.node) if isinstance(x, ast.Assign) and len(x.targets) == 1 and U(x.targets[0]) == a0.id]
                    src = ds[-1] if ds else a0
                if U(src) == FULL:
                    ok = True
                elif isinstance(src, ast.Call) and src.args and U(src.args[0]) == FULL:
                    h = mod.funcs.get(U(src.func).split('.')[-1])
                    if h is not None and h.params:
                        p0 = h.params[0]
                        keeps = [x for x in ast.walk(h.node) if isinstance(x, ast.Assign) and isinstance(x.targets[0], ast.Subscript)
                                 and U(x.value).replace(' ', '') == '%s[%s]' % (p0, U(x.targets[0].slice))]
                        others = [x for x in ast.walk(h.node) if isinstance(x, ast.Assign) and isinstance(x.targets[0], ast.Subscript) and x not in keeps]
                        ok = bool(keeps) and not others
        if not ok:
            return None
        note = 'A-T: `self.%s` holds |weight| of every candidate of the run (%s); the candidates of a round are a value-preserving selection of them' % (attr, q)
        if note not in self.world.assumptions:
            self.world.assumptions.append(note)
        return tagged('maxof', call, D=abs_of(Alg(Rat.sym('elemof:' + C)), e))

    def check_noise_slices(self, e, tn, dexpr):
        """noise drawn ONCE into a buffer and added to the releases of a loop: every release must take its own, disjoint part of the buffer.
        Recognised: `N[end - x.size:end]` with `end` running over np.cumsum(sizes) alongside the loop's items, sizes = [D.size(p) for p in items]
        and x the data vector of the item (its length is that size).  The whole buffer, or a slice starting at a fixed position, is the SAME
        noise in every release: their differences are noise-free."""
        cut = getattr(tn, 'cut', None)
        lp = self.loops[-1] if self.loops else None
        if cut is None or not isinstance(cut, ast.Slice) or (cut.lower is None) or (isinstance(cut.lower, ast.Constant)):
            self.problem(e, 'the noise added here was drawn once, outside the loop (`%s`), and every release of the loop takes %s: the same draws are added to '
                         'every released vector, so differences between releases carry no noise at all' % (
                             U(tn.origin)[:60], 'the whole buffer' if cut is None else 'the slice `%s` that starts at a fixed position' % U(cut)))
            return
        ok = False
        if isinstance(lp, ast.For) and isinstance(lp.iter, ast.Call) and U(lp.iter.func) == 'zip' and isinstance(lp.target, ast.Tuple) and cut.upper is not None:
            E = U(cut.upper)
            names = [U(t_) for t_ in lp.target.elts]
            if E in names and isinstance(dexpr, ast.Name) and U(cut.lower).replace(' ', '') == '%s-%s.size' % (E, dexpr.id):
                src = lp.iter.args[names.index(E)]
                src = self.defs.get(src.id, src) if isinstance(src, ast.Name) else src
                if isinstance(src, ast.Call) and U(src.func) in ('np.cumsum', 'numpy.cumsum') and len(src.args) == 1:
                    S = src.args[0]
                    S = self.defs.get(S.id, S) if isinstance(S, ast.Name) else S
                    items = U(lp.iter.args[0])
                    if isinstance(S, ast.ListComp) and len(S.generators) == 1 and not S.generators[0].ifs and U(S.generators[0].iter) == items and \
                            isinstance(S.elt, ast.Call) and U(S.elt.func).endswith('domain.size') and len(S.elt.args) == 1 and U(S.elt.args[0]) == U(S.generators[0].target):
                        xdef = self.defs.get(dexpr.id)
                        if xdef is not None and U(xdef).replace(' ', '') == 'data.project(%s).datavector()' % names[0]:
                            ok = True
        if not ok:
            raise AnalysisError('%s: noise drawn once (`%s`) is handed out in slices `%s`; whether the slices of different releases are disjoint is not decided'
                                % (self.fi.qualname, U(tn.origin)[:50], U(cut)))

    def problem(self, node, text):
        self.world.problems.append((self.fi.rel, self.fi.qualname, node, text))

    def loops_now(self):
        return self.outer_loops + list(self.loop_info)

    def record(self, rel):
        rel.loops = self.loops_now()
        rel.stack = self.stack
        self.world.releases.append(rel)
        self.world.events.append(('release', rel))

    # ------------------------------------------------------------------ value with tags
    def value(self, e):
        w = self.world
        if isinstance(e, ast.Name):
            v = self.env.get(e.id)
            if isinstance(v, Opaque) and isinstance(v.tag, Tag):
                return v
        if isinstance(e, ast.Attribute):
            t = U(e)
            if t in self.env:
                v = self.env[t]
                if isinstance(v, (Alg, Opaque)):
                    return v
            base = self.value(e.value) if isinstance(e.value, (ast.Name, ast.Attribute, ast.Call, ast.Subscript)) else None
            if tag_of(base, 'data'):
                if e.attr == 'domain':
                    return Opaque(e, Tag('public'))
                if e.attr == 'records':
                    return tagged('sens', e, D=w.d1() if not w.bounded else const(0), count=True)
                return tagged('data', e)
            if isinstance(e.value, ast.Name) and e.value.id == 'self' and e.attr in self.self_env:
                return self.self_env[e.attr]
        if isinstance(e, ast.Subscript):
            base = self.value(e.value)
            t = tag_of(base)
            if isinstance(e.value, ast.Name) and isinstance(e.slice, ast.Name) and self.keyvars.get(e.slice.id) == e.value.id \
                    and (t is None or t.kind == 'public'):
                return Alg(Rat.sym('elemof:' + e.value.id))
            if t is not None and t.kind == 'dictof':
                return Opaque(e, t.elem) if t.elem is not None else Opaque(e, Tag('public'))
            if t is not None and t.kind == 'unit':
                return Alg(Rat.sym('elem(%s)' % t.var))
            if t is not None and t.kind == 'noise' and getattr(t, 'origin', None) is not None:
                # a slice of a buffer of i.i.d. draws: still i.i.d. draws of the same scale (which ones is checked at the release)
                return tagged('noise', e, dist=t.dist, scale=t.scale, drawn_in=getattr(t, 'drawn_in', None), origin=t.origin, cut=e.slice)
            if t is not None and t.kind in ('vec', 'noisy'):
                return base
            if t is not None and t.kind == 'data':
                return tagged('data', e)        # a column / row selection of the private records
        if isinstance(e, ast.BinOp):
            r = self.binop(e)
            if r is not None:
                return r
        if isinstance(e, (ast.ListComp, ast.GeneratorExp)) and len(e.generators) == 1:
            r = self.comprehension(e)
            if r is not None:
                return r
        if isinstance(e, ast.DictComp) and len(e.generators) == 1:
            g = e.generators[0]
            saved = dict(self.env)
            it = self.value(g.iter)
            for n in target_names(g.target):
                self.env[n] = Opaque(g.iter, Tag('public'))
            v = self.value(e.value)
            self.env = saved
            return tagged('dictof', e, elem=v.tag if isinstance(v, Opaque) and isinstance(v.tag, Tag) else None,
                          elem_alg=v if isinstance(v, Alg) else None)
        if isinstance(e, ast.Tuple):
            vals = [self.value(x) for x in e.elts]
            return tagged('tuple', e, elems=vals)
        v = super().value(e)
        if isinstance(e, (ast.Call, ast.BinOp, ast.Subscript, ast.Attribute)) and not isinstance(v, Alg) and tag_of(v) is None and self.touches_private(e):
            # computed from private quantities in a way no sensitivity rule covers: NOT public (an untyped value must not pass for one)
            return Opaque(e, Tag('derived'))
        return v

    PRIVATE_KINDS = ('data', 'vec', 'sens', 'qvec', 'derived')

    def join_opaque(self, k, a, b):
        for v in (a, b):
            t = tag_of(v)
            if t is not None and (t.kind in self.PRIVATE_KINDS or (t.kind in ('dictof', 'valuesof') and getattr(t, 'elem', None) is not None
                                                                   and t.elem.kind in self.PRIVATE_KINDS)):
                return Opaque(k, Tag('derived'))       # private on one side: not public after the branch
        return Opaque(k, 'join')

    def touches_private(self, e):
        for n in ast.walk(e):
            if isinstance(n, ast.Name):
                t = tag_of(self.env.get(n.id))
                if t is None:
                    continue
                if t.kind in self.PRIVATE_KINDS:
                    return True
                if t.kind in ('dictof', 'valuesof') and getattr(t, 'elem', None) is not None and t.elem.kind in self.PRIVATE_KINDS:
                    return True
        return False

    def bind_elements(self, target, it):
        """loop / comprehension variables: keys are public; the value element of a public mapping X is the symbol elemof:X
        (whatever the variable is called, and whether it is reached as X[k], via .items() or via .values())"""
        for n in target_names(target):
            self.env[n] = Opaque(it, Tag('public'))
        if isinstance(it, ast.Call) and isinstance(it.func, ast.Attribute) and not it.args and isinstance(it.func.value, ast.Name):
            X = it.func.value.id
            xv = self.env.get(X)
            if tag_of(xv) is not None and tag_of(xv).kind not in ('public',):
                return
            if it.func.attr == 'items' and isinstance(target, ast.Tuple) and len(target.elts) == 2 and \
                    all(isinstance(t, ast.Name) for t in target.elts):
                self.env[target.elts[1].id] = Alg(Rat.sym('elemof:' + X))
                self.keyvars[target.elts[0].id] = X
            elif it.func.attr == 'values' and isinstance(target, ast.Name):
                self.env[target.id] = Alg(Rat.sym('elemof:' + X))
            elif it.func.attr == 'keys' and isinstance(target, ast.Name):
                self.keyvars[target.id] = X
        elif isinstance(it, ast.Name) and isinstance(target, ast.Name):
            self.keyvars[target.id] = it.id

    def comprehension(self, e):
        g = e.generators[0]
        saved = dict(self.env)
        it = self.value(g.iter)
        self.bind_elements(g.target, g.iter)
        v = self.value(e.elt)
        self.env = saved
        t = tag_of(v)
        if t is not None and t.kind == 'sens':
            return tagged('qvec', e, D=t.D)
        if isinstance(v, Alg):
            return tagged('dictof', e, elem=None, elem_alg=v)
        return None

    def binop(self, e):
        w = self.world
        l, r = self.value(e.left), self.value(e.right)
        tl, tr = tag_of(l), tag_of(r)
        # ---- noise scaled by a public number: c * N(0, s) is N(0, |c| s) -----------------------------------------------
        if isinstance(e.op, ast.Mult):
            for a_, b_ in ((l, r), (r, l)):
                tn = tag_of(b_, 'noise')
                if tn is not None and isinstance(a_, Alg) and isinstance(tn.scale, Alg) and getattr(tn, 'origin', None) is not None:
                    return tagged('noise', e, dist=tn.dist, scale=a_ * tn.scale, drawn_in=getattr(tn, 'drawn_in', None), origin=tn.origin, cut=getattr(tn, 'cut', None))
        # ---- additive noise: the release ---------------------------------------------------------------
        if isinstance(e.op, ast.Add):
            for data, noise, dexpr in ((l, r, e.left), (r, l, e.right)):
                tn = tag_of(noise, 'noise')
                if tn is not None and getattr(tn, 'drawn_in', None) is not None and len(self.loops_now()) > tn.drawn_in:
                    self.check_noise_slices(e, tn, dexpr)
                if tn is not None:
                    td = tag_of(data)
                    rel = Release('noise', self.fi.rel, self.fi.qualname, e, dist=tn.dist, scale=tn.scale, stat=dexpr)
                    if td is not None and td.kind == 'vec':
                        rel.d1, rel.d2sq = td.d1, td.d2sq
                    elif td is not None and td.kind in ('noisy', 'public'):
                        rel.d1, rel.d2sq = const(0), const(0)
                    else:
                        rel.d1 = rel.d2sq = None
                        from .taint import inplace_noise_passes
                        passes = inplace_noise_passes(self.fi.node)
                        if isinstance(dexpr, ast.Name) and passes and any(
                                isinstance(lp_, ast.For) and dexpr.id in {n_.id for n_ in ast.walk(lp_.target) if isinstance(n_, ast.Name)}
                                and U(lp_.iter.value if isinstance(lp_.iter, ast.Subscript) else lp_.iter) in passes for lp_ in ast.walk(self.fi.node)):
                            raise AnalysisError('%s: noise is added IN PLACE to the elements of a container filled earlier (`%s` at line %d): what those '
                                                'elements are, and how many, is not decided' % (self.fi.qualname, dexpr.id, getattr(e, 'lineno', 0)))
                        self.problem(e, 'release of a statistic with unknown sensitivity: `%s`' % U(dexpr)[:60])
                    self.record(rel)
                    return tagged('noisy', e)
        # ---- unit-norm vector: U / ||U|| -----------------------------------------------------------------
        if isinstance(e.op, ast.Div) and isinstance(e.right, ast.Call) and U(e.right.func) in ('np.linalg.norm', 'numpy.linalg.norm') \
                and len(e.right.args) == 1:
            num = e.left
            if isinstance(num, ast.Call) and U(num.func) in ('np.array', 'np.asarray') and num.args:
                num = num.args[0]
            if U(num) == U(e.right.args[0]):
                return tagged('unit', e, var=U(num))
        # ---- weights that are 1 in the root-mean-square: U / sqrt(mean(square(U))) - their squares sum to len(U) ------------------------------
        if isinstance(e.op, ast.Div) and isinstance(e.right, ast.Call) and U(e.right.func) in ('np.sqrt', 'numpy.sqrt', 'math.sqrt') and len(e.right.args) == 1:
            num = e.left
            if isinstance(num, ast.Call) and U(num.func) in ('np.array', 'np.asarray') and num.args:
                num = num.args[0]
            inner = U(e.right.args[0]).replace(' ', '')
            nm = U(num)
            if inner in ('np.mean(np.square(%s))' % nm, 'np.mean(%s**2)' % nm, 'np.mean(np.array(%s)**2)' % nm, 'np.square(%s).mean()' % nm,
                         '(%s**2).mean()' % nm):
                t_ = tagged('unit', e, var=nm)
                tag_of(t_, 'unit').sumsq = sym('len(%s)' % nm)
                return t_
        # ---- fractions of a split, second spelling: X / np.linalg.norm(X, 1)  (non-negative weights: the L1 norm is the sum) ---------
        if isinstance(e.op, ast.Div) and isinstance(e.right, ast.Call) and U(e.right.func) in ('np.linalg.norm', 'numpy.linalg.norm') \
                and len(e.right.args) == 2 and U(e.right.args[1]) == '1' and U(e.right.args[0]) == U(e.left):
            note = 'A-S: the weights of an explicit budget split are non-negative (their L1 norm is their sum)'
            if note not in w.assumptions:
                w.assumptions.append(note)
            return tagged('simplex', e, var=U(e.left))
        # a simplex scaled by a scalar: unpacking gives scalar * fraction
        if isinstance(e.op, ast.Mult):
            for a, av, b_ in ((tl, l, r), (tr, r, l)):
                if a is not None and a.kind == 'simplex' and isinstance(b_, Alg):
                    return tagged('simplex', e, var=a.var, scale=(getattr(a, 'scale', None) * b_ if getattr(a, 'scale', None) is not None else b_))
        # ---- fractions of a split: np.array(S) / sum(S) ----------------------------------------------------
        if isinstance(e.op, ast.Div) and isinstance(e.right, ast.Call) and U(e.right.func) in ('sum', 'np.sum') and len(e.right.args) == 1:
            num = e.left
            if isinstance(num, ast.Call) and U(num.func) in ('np.array', 'np.asarray') and num.args:
                num = num.args[0]
            if U(num) == U(e.right.args[0]):
                return tagged('simplex', e, var=U(num))
        # ---- sensitivity typing -------------------------------------------------------------------------------
        if isinstance(e.op, (ast.Sub, ast.Add)):
            for a, b in ((tl, tr), (tr, tl)):
                if a is not None and a.kind == 'vec' and (b is None or b.kind in ('public', 'noisy', 'model')):
                    return tagged('vec', e, d1=a.d1, d2sq=a.d2sq)
                if a is not None and a.kind == 'sens' and (b is None or b.kind in ('public', 'noisy', 'model')):
                    return tagged('sens', e, D=a.D)
                if a is not None and a.kind == 'qvec' and (b is None or b.kind in ('public', 'noisy', 'model')):
                    return tagged('qvec', e, D=a.D)
            if tl is not None and tr is not None and tl.kind == tr.kind == 'vec':
                return tagged('vec', e, d1=tl.d1 + tr.d1, d2sq=None)
        if isinstance(e.op, ast.Mult):
            for a, av, bv, bexpr in ((tl, l, r, e.right), (tr, r, l, e.left)):
                if a is not None and a.kind == 'sens' and isinstance(bv, Alg):
                    # |public| * Delta
                    return tagged('sens', e, D=abs_of(bv, bexpr) * a.D)
        if isinstance(e.op, ast.MatMult):
            if tr is not None and tr.kind == 'vec':
                note = 'A-Q: query matrices applied to private marginals have unit L2 column norm (asserted by a source comment, ' \
                       'printed at run time); the squared L2 sensitivity of `%s` is that of the marginal' % U(e)[:40]
                if note not in w.assumptions:
                    w.assumptions.append(note)
                return tagged('vec', e, d1=None, d2sq=tr.d2sq)
        return None

    # ------------------------------------------------------------------ calls
    def hook(self, call, ex):
        w = self.world
        f = call.func
        name = U(f)
        last = name.split('.')[-1]
        if isinstance(f, ast.Name):
            # a local bound to a function reference (`sample = np.random.laplace if ... else np.random.normal`)
            v = self.env.get(f.id)
            ref = None
            if isinstance(v, Opaque) and isinstance(v.expr, (ast.Attribute, ast.Name)) and not isinstance(v.tag, Tag):
                ref = v.expr
            elif isinstance(v, Alg) and v.is_rat() and len(v.rat().symbols()) == 1:
                nm = list(v.rat().symbols())[0]
                if '.' in nm and all(p.isidentifier() for p in nm.split('.')) and v.eq(sym(nm)):
                    ref = ast.parse(nm, mode='eval').body
            if ref is not None and U(ref) != f.id:
                call2 = ast.copy_location(ast.Call(func=ref, args=call.args, keywords=call.keywords), call)
                ast.fix_missing_locations(call2)
                return self.hook(call2, ex)
        dotted = self.mod.dotted(f) if isinstance(f, (ast.Attribute, ast.Name)) else None
        # ---- noise primitives ----------------------------------------------------------------------------------
        if last in ('normal', 'laplace') and isinstance(f, ast.Attribute) and \
                ((dotted or '').startswith('numpy.random') or U(f.value) in ('prng', 'self.prng', 'np.random')):
            scale = kwarg(call, 'scale', 1)
            return tagged('noise', call, dist='laplace' if last == 'laplace' else 'gaussian',
                          scale=self.value(scale) if scale is not None else None, drawn_in=len(self.loops_now()), origin=call, cut=None)
        if last in ('gaussian_noise', 'laplace_noise') and isinstance(f, ast.Attribute) and U(f.value) == 'self':
            scale = call.args[0] if call.args else None
            return tagged('noise', call, dist='laplace' if 'laplace' in last else 'gaussian',
                          scale=self.value(scale) if scale is not None else None)
        # ---- selection primitive: choice(n, p=P) -------------------------------------------------------------------
        if last == 'choice' and any(k.arg == 'p' for k in call.keywords):
            self.selection(call)
            return Opaque(call, Tag('public'))
        # ---- budget conversion -------------------------------------------------------------------------------------------
        if last == 'cdp_rho':
            return sym('rho')
        # ---- data accessors ----------------------------------------------------------------------------------------------
        if isinstance(f, ast.Attribute):
            recv = self.value(f.value)
            tr = tag_of(recv)
            if tr is not None and tr.kind == 'data':
                if last == 'datavector':
                    return tagged('vec', call, d1=w.d1(), d2sq=w.d2sq())
                return tagged('data', call)         # project / drop / copy / map ...: still the private records
            if tr is not None and tr.kind in ('vec', 'noisy', 'qvec', 'sens') and last in ('astype', 'copy', 'flatten', 'ravel', 'reshape'):
                return recv          # same cells, other dtype / shape
            if tr is not None and tr.kind == 'dictof':
                if last in ('values',):
                    return Opaque(call, Tag('valuesof', elem=tr.elem, elem_alg=getattr(tr, 'elem_alg', None)))
                if last in ('keys', 'items'):
                    return Opaque(call, Tag('public'))
            if tr is not None and tr.kind in ('qvec', 'vec') and last in ('max', 'min', 'sum') and not call.args:
                D = tr.D if tr.kind == 'qvec' else None
                return Alg(Rat.sym('%s(%s)' % (last, U(f.value))))
            if last in ('max', 'min') and not call.args and not call.keywords:
                v = self.value(f.value)
                if isinstance(v, Alg):
                    return sym('%s(%s)' % (last, v))
            if last in ('sum',) and not call.args and isinstance(f.value, ast.Call) and U(f.value.func) in ('np.abs', 'abs', 'numpy.abs'):
                inner = self.value(f.value.args[0])
                ti = tag_of(inner, 'vec')
                if ti is not None:
                    return tagged('sens', call, D=ti.d1)
        if name in ('np.bincount', 'numpy.bincount') and call.args:
            # the histogram of a private column: one record moves one unit (its weight) - the sensitivity of a one-way marginal
            v0 = self.value(call.args[0])
            if tag_of(v0, 'data') is not None:
                return tagged('vec', call, d1=w.d1(), d2sq=w.d2sq())
        if name in ('np.linalg.norm', 'numpy.linalg.norm') and len(call.args) == 2 and U(call.args[1]) == '1':
            inner = self.value(call.args[0])
            ti = tag_of(inner, 'vec')
            if ti is not None:
                return tagged('sens', call, D=ti.d1)
        if name in ('np.array', 'np.asarray') and len(call.args) == 1:
            v = self.value(call.args[0])
            if isinstance(v, Opaque) and isinstance(v.tag, Tag):
                return v
        if name in ('np.append',) and len(call.args) == 2:
            a, b = self.value(call.args[0]), self.value(call.args[1])
            ta, tb = tag_of(a), tag_of(b)
            if tb is not None and tb.kind == 'sens':
                return tagged('qvec', call, D=tb.D)
            if ta is not None and ta.kind == 'qvec':
                return a
        if name == 'abs' and len(call.args) == 1:
            v = self.value(call.args[0])
            if isinstance(v, Alg):
                return abs_of(v, call.args[0])
        if name == 'max' and len(call.args) == 1 and isinstance(call.args[0], (ast.GeneratorExp, ast.ListComp)):
            mt = self.max_over_table(call)
            if mt is not None:
                return mt
        if name == 'max' and len(call.args) == 1:
            v = self.value(call.args[0])
            t = tag_of(v, 'valuesof') or tag_of(v, 'dictof')
            if t is not None and getattr(t, 'elem_alg', None) is not None:
                return tagged('maxof', call, D=t.elem_alg)
        if name == 'Dataset' and call.args:
            v = self.value(call.args[0])
            if tag_of(v, 'data') is not None:
                return tagged('data', call)
        if name == 'len' and len(call.args) == 1:
            return sym('len(%s)' % U(call.args[0]))
        if name in ('FactoredInference', 'GraphicalModel') or last in ('estimate', 'synthetic_data', 'project', 'datavector'):
            return Opaque(call, Tag('model'))
        # ---- repository callees -------------------------------------------------------------------------------------------
        target = self.resolve(call)
        if target is not None:
            return self.inline(call, *target)
        return None

    def resolve(self, call):
        f = call.func
        if isinstance(f, ast.Name):
            fi = self.mod.funcs.get(f.id)
            if fi is not None:
                return fi, False
        if isinstance(f, ast.Attribute) and U(f.value) == 'self' and self.cls is not None:
            rel, cname = self.cls
            while True:
                mod = self.world.mods[rel]
                fi = mod.funcs.get('%s.%s' % (cname, f.attr))
                if fi is not None:
                    return fi, True
                cdef = mod.classes.get(cname)
                bases = [U(b) for b in cdef.bases] if cdef is not None else []
                found = None
                for r2, m2 in self.world.mods.items():
                    if bases and bases[0] in m2.classes:
                        found = (r2, bases[0])
                if not found:
                    return None
                rel, cname = found
        return None

    def inline(self, call, fi, is_method):
        w = self.world
        if w.depth >= MAX_DEPTH:
            raise AnalysisError('cost analysis: inlining depth exceeded at %s' % fi.qualname)
        params = [p for p in fi.params if not (is_method and p == 'self')]
        env, flags = {}, dict(self.flags)
        defaults = fi.defaults()
        bound = {}
        for p, a in zip(params, call.args):
            bound[p] = a
        for k in call.keywords:
            if k.arg in params:
                bound[k.arg] = k.value
        for p in params:
            flags.pop(p, None)
            if p in bound:
                a = bound[p]
                if isinstance(a, ast.Constant) and isinstance(a.value, (bool, type(None))) or \
                        (isinstance(a, ast.Constant) and isinstance(a.value, str)):
                    flags[p] = a.value
                    continue
                if isinstance(a, ast.Name) and a.id in self.flags:
                    flags[p] = self.flags[a.id]
                    continue
                env[p] = self.value(a)
            elif p in defaults:
                d = defaults[p]
                if isinstance(d, ast.Constant) and isinstance(d.value, (bool, type(None), str)):
                    flags[p] = d.value
                elif isinstance(d, ast.Constant):
                    env[p] = const(d.value)
                else:
                    env[p] = Opaque(d, Tag('public'))
        sub = CostExec(w, fi, flags=flags, env=env, stack=self.stack, loops=self.loops_now(), self_env=self.self_env,
                       cls=self.cls if is_method else None)
        w.depth += 1
        sub.run()
        w.depth -= 1
        vals = [v for s, v in sub.returns if v is not None]
        if not vals:
            return Opaque(call, Tag('public'))
        if len(vals) == 1:
            return vals[0]
        if all(isinstance(v, Alg) for v in vals) and all(v.eq(vals[0]) for v in vals):
            return vals[0]
        return vals[-1]

    # ------------------------------------------------------------------ selection record
    def selection(self, call):
        from ..rules.C20 import unwrap_prob, resolve as resolve_def, vec_hook
        if id(call) in self.sel_done:
            return
        self.sel_done.add(id(call))
        p = next(k.value for k in call.keywords if k.arg == 'p')
        # entries of the probability vector overwritten under a mask (`p[p < tiny] = 0`): a candidate that is merely unlikely on one
        # dataset becomes impossible, and its probability ratio to a neighbouring dataset is unbounded
        pnames = {n.id for n in ast.walk(p) if isinstance(n, ast.Name)}
        for st in ast.walk(self.fi.node):
            if isinstance(st, ast.Assign) and len(st.targets) == 1 and isinstance(st.targets[0], ast.Subscript) and isinstance(st.targets[0].value, ast.Name) \
                    and st.targets[0].value.id in pnames and any(isinstance(x, ast.Compare) for x in ast.walk(st.targets[0].slice)):
                self.problem(call, 'selection probabilities are overwritten under a mask (`%s`): truncating small probabilities to 0 makes the cost of the '
                                   'selection unbounded' % U(st)[:60])
                return
        pe = resolve_def(p, self)
        try:
            lexpr, how = unwrap_prob(pe, self)
        except AnalysisError as ex:
            self.problem(call, 'selection probabilities of unrecognised form: %s' % ex)
            return
        # evaluate the logits with vector symbols; quality = the tagged vector variable appearing in it
        qvars = []
        for n in ast.walk(lexpr):
            if isinstance(n, ast.Name):
                self._collect_q(n.id, qvars, set())
        saved_hook = self.call_hook
        self.call_hook = lambda c, ex: (vec_hook(c, ex) or saved_hook(c, ex))
        saved = {}
        try:
            for q, t in qvars:
                saved[q] = self.env[q]
                self.env[q] = Opaque(q, 'qsym')
            L = SymExec.value(self, lexpr)
            if not isinstance(L, Alg):
                # expand local definitions of names used in the logits (scores = coef*eps/sens*q)
                L = self.expand_and_eval(lexpr)
        finally:
            for q, v in saved.items():
                self.env[q] = v
            self.call_hook = saved_hook
        rel = Release('selection', self.fi.rel, self.fi.qualname, call, logits=lexpr)
        if not qvars:
            self.problem(call, 'selection over scores of unknown sensitivity (`%s`)' % U(lexpr)[:60])
            rel.coef = rel.D = None
        elif not isinstance(L, Alg) or any(qvars[0][0] in r_.symbols() for c_, r_ in L.terms):
            self.problem(call, 'selection logits outside the calibration dialect: `%s`' % U(lexpr)[:60])
            rel.coef = rel.D = None
        else:
            q, t = qvars[0]
            rel.coef = Alg(terms=[(c_.diff(q), r_) for c_, r_ in L.terms])
            if any(q in c_.symbols() for c_, r_ in rel.coef.terms):
                self.problem(call, 'selection logits are not affine in the quality `%s`' % q)
            rel.D = t.D
            rel.monotonic = bool(self.flags.get('monotonic'))
            rel.quality = q
            # declared sensitivity = max over the candidates' sensitivities (dominates each of them)
            rel.sens_max = None
            for name, v in self.env.items():
                tm = tag_of(v, 'maxof')
                if tm is not None and isinstance(tm.D, Alg) and isinstance(rel.D, Alg) and tm.D.eq(rel.D) and \
                        any(name in c_.symbols() for c_, r_ in rel.coef.terms):
                    rel.sens_max = sym(name)
        self.record(rel)

    def _collect_q(self, name, out, seen):
        if name in seen:
            return
        seen.add(name)
        v = self.env.get(name)
        t = tag_of(v, 'qvec')
        if t is not None:
            if name not in [q for q, _ in out]:
                out.append((name, t))
            return
        d = self.defs.get(name)
        if d is not None:
            for n in ast.walk(d):
                if isinstance(n, ast.Name):
                    self._collect_q(n.id, out, seen)

    def expand_and_eval(self, expr):
        """inline the defining expressions of opaque local names (one level at a time) and evaluate"""
        cur = expr
        for _ in range(6):
            names = [n for n in ast.walk(cur) if isinstance(n, ast.Name) and isinstance(self.env.get(n.id), Opaque)
                     and self.env[n.id].tag != 'qsym' and n.id in self.defs]
            if not names:
                break
            defs = self.defs

            class Sub(ast.NodeTransformer):
                def visit_Name(self, node):
                    if any(node is n for n in names):
                        return defs[node.id]
                    return node
            import copy
            cur = Sub().visit(clone(cur)) if False else self._subst(cur, {n.id: defs[n.id] for n in names})
            v = SymExec.value(self, cur)
            if isinstance(v, Alg):
                return v
        return SymExec.value(self, cur)

    @staticmethod
    def _subst(expr, mapping):
        import copy
        tree = clone(expr)

        class Sub(ast.NodeTransformer):
            def visit_Name(self, node):
                if node.id in mapping and isinstance(node.ctx, ast.Load):
                    return clone(mapping[node.id])
                return node
        return Sub().visit(tree)

    def flag_test(self, t):
        # finite epsilon: `eps == np.inf` is specialised to False
        if isinstance(t, ast.Compare) and len(t.ops) == 1 and isinstance(t.ops[0], ast.Eq) and \
                U(t.comparators[0]) in ('np.inf', 'numpy.inf', 'math.inf', "float('inf')"):
            return False
        return super().flag_test(t)

    def havoc(self, names, where):
        # sensitivity tags are type information: they survive loops and joins
        keep = {n: self.env[n] for n in names if isinstance(self.env.get(n), Opaque) and isinstance(self.env[n].tag, Tag)}
        super().havoc(names, where)
        self.env.update(keep)

    # ------------------------------------------------------------------ statements
    def stmt(self, s):
        w = self.world
        if isinstance(s, ast.Assign) and len(s.targets) == 1 and isinstance(s.targets[0], ast.Subscript):
            # container element store: join the element's tag into the container
            t = s.targets[0]
            v = self.value(s.value)
            if isinstance(t.value, ast.Name):
                cur = self.env.get(t.value.id)
                ct = tag_of(cur, 'dictof')
                et = v.tag if isinstance(v, Opaque) and isinstance(v.tag, Tag) else None
                ea = v if isinstance(v, Alg) else None
                if ct is None and tag_of(cur) is not None:
                    return          # a store into a tagged (e.g. private) object keeps its tag
                if ct is None:
                    self.env[t.value.id] = tagged('dictof', t.value, elem=et, elem_alg=ea)
                else:
                    if ct.elem is None:
                        ct.elem = et
                    if getattr(ct, 'elem_alg', None) is None:
                        ct.elem_alg = ea
            return
        if isinstance(s, (ast.For, ast.While)):
            return self.loop(s)
        if isinstance(s, ast.Expr) and isinstance(s.value, ast.Call) and isinstance(s.value.func, ast.Attribute) \
                and s.value.func.attr == 'append' and isinstance(s.value.func.value, ast.Name) and len(s.value.args) == 1:
            # list accumulator: joins the element's tag into the container (same as X = np.append(X, v))
            v = self.value(s.value.args[0])
            tv = tag_of(v)
            name = s.value.func.value.id
            if tv is not None and tv.kind == 'sens':
                self.env[name] = tagged('qvec', s.value, D=tv.D)
                return
            cur = tag_of(self.env.get(name))
            if cur is not None and cur.kind == 'qvec':
                return
        if isinstance(s, (ast.Assign, ast.AugAssign, ast.Return, ast.Expr)) and getattr(s, 'value', None) is not None:
            # selections nested inside a larger expression (e.g. `return keys[prng.choice(n, p=p)]`)
            for c in ast.walk(s.value):
                if isinstance(c, ast.Call) and c is not s.value and isinstance(c.func, ast.Attribute) and c.func.attr == 'choice' \
                        and any(k.arg == 'p' for k in c.keywords):
                    self.selection(c)
        if isinstance(s, (ast.Assign, ast.AugAssign)):
            super().stmt(s)
            tg = s.targets if isinstance(s, ast.Assign) else [s.target]
            for t in tg:
                for n in target_names(t):
                    w.events.append(('assign', n, self.env.get(n), s, self.fi.qualname))
            return
        return super().stmt(s)

    def bind(self, target, value, expr):
        # tuple unpacking of a simplex (fractions summing to one)
        t = tag_of(value, 'simplex')
        if t is not None and isinstance(target, (ast.Tuple, ast.List)):
            names = target_names(target)
            sc = getattr(t, 'scale', None)
            for n in names:
                self.env[n] = Alg(Rat.sym('frac:%s' % n)) * sc if sc is not None else Alg(Rat.sym('frac:%s' % n))
            self.world.simplex = getattr(self.world, 'simplex', []) + [names]
            return
        t = tag_of(value, 'tuple')
        if t is not None and isinstance(target, (ast.Tuple, ast.List)) and len(t.elems) == len(target.elts):
            for tt, vv in zip(target.elts, t.elems):
                self.bind(tt, vv, expr)
            return
        super().bind(target, value, expr)

    def loop(self, s):
        names = self.assigned_in(s.body)
        trip = None
        unit = None
        part = None
        if isinstance(s, ast.For):
            it = s.iter
            trip = self.trip_count(it)
            itv = None
            # zip(A, B): the elements of a unit-norm vector
            if isinstance(it, ast.Call) and U(it.func) == 'zip':
                for a, tn in zip(it.args, s.target.elts if isinstance(s.target, ast.Tuple) else []):
                    v = self.value(a)
                    if tag_of(v, 'unit') is not None and isinstance(tn, ast.Name):
                        unit = tn.id
                        ss_ = getattr(tag_of(v, 'unit'), 'sumsq', None)
                        if ss_ is not None:
                            if not hasattr(self.world, 'unit_sumsq'):
                                self.world.unit_sumsq = {}
                            self.world.unit_sumsq[tn.id] = ss_
            # a partition: for k in ...: split = [c for c in L if len(c) == k]; for c in split
            if isinstance(it, ast.Name) and it.id in self.defs and isinstance(self.defs[it.id], ast.ListComp):
                lc = self.defs[it.id]
                g = lc.generators[0]
                if len(g.ifs) == 1 and isinstance(g.ifs[0], ast.Compare) and isinstance(g.ifs[0].ops[0], ast.Eq) and \
                        U(g.ifs[0].left) == 'len(%s)' % U(g.target) and self.loops and \
                        isinstance(self.loops[-1], ast.For) and U(g.ifs[0].comparators[0]) == U(self.loops[-1].target):
                    part = U(g.iter)
        self.havoc(names, 'L%d' % s.lineno)
        if isinstance(s, ast.For):
            self.bind_elements(s.target, s.iter)
            for n in target_names(s.target):
                if n == unit:
                    self.env[n] = Alg(Rat.sym('elem:%s' % n))
        self.loops.append(s)
        self.loop_info.append((s, trip, unit, part))
        self.world.events.append(('loop-enter', s, self.fi.qualname))
        self.block(s.body)
        self.world.events.append(('loop-exit', s, self.fi.qualname))
        self.loops.pop()
        self.loop_info.pop()
        self.dead = False
        self.havoc(names, 'after%d' % s.lineno)

    def trip_count(self, it):
        if isinstance(it, ast.Call) and U(it.func) == 'range':
            try:
                for n in ast.walk(it):
                    if isinstance(n, ast.Name) and isinstance(self.env.get(n.id), Opaque) and not self.vectors:
                        return None            # a bound re-bound to something outside the scalar dialect is not the symbol of that name
                if len(it.args) == 1:
                    return self.evaluator().ev(it.args[0])
                if len(it.args) == 2:
                    return self.evaluator().ev(it.args[1]) - self.evaluator().ev(it.args[0])
            except AnalysisError:
                return None
        if isinstance(it, ast.Call) and U(it.func) == 'zip' and it.args:
            return sym('len(%s)' % U(it.args[0]))
        if isinstance(it, (ast.Name, ast.Attribute)):
            return sym('len(%s)' % U(it))
        return None


# ---------------------------------------------------------------------------------------------------- cost of a release
def release_cost(rel, pure):
    """-> (Alg cost of one execution, description) or (None, reason)"""
    if rel.kind == 'noise':
        if rel.scale is None or not isinstance(rel.scale, Alg):
            return None, 'noise scale outside the scalar dialect'
        if rel.dist == 'gaussian':
            if pure:
                return None, 'Gaussian noise under a pure-epsilon budget'
            if rel.d2sq is None:
                return None, 'unknown L2 sensitivity'
            return rel.d2sq / (const(2) * rel.scale * rel.scale), 'd2^2/(2 scale^2)'
        if rel.d1 is None:
            return None, 'unknown L1 sensitivity'
        eps = rel.d1 / rel.scale
        return (eps, 'd1/scale') if pure else (eps * eps / const(2), 'eps^2/2 (Laplace under zCDP)')
    if rel.kind == 'selection':
        if rel.coef is None or rel.D is None:
            return None, 'selection with unknown coefficient / sensitivity'
        eff = rel.coef * rel.D * (const(1) if getattr(rel, 'monotonic', False) else const(2))
        return (eff, '2*c*D') if pure else (eff * eff / const(8), '(2*c*D)^2/8')
    return None, 'unknown release kind'


def sum_over_loops(cost, rel, world, notes):
    """multiply / sum the per-execution cost over the loop nest of the release (innermost first)"""
    total = cost
    loops = list(rel.loops)
    i = len(loops) - 1
    while i >= 0:
        stmt, trip, unit, part = loops[i]
        if unit is not None:
            # sum over the elements v of a unit-norm vector of A*v^2  ==  A
            if not total.is_rat():
                return None, 'cost not rational inside a unit-norm loop'
            r = total.rat()
            v = 'elem:%s' % unit
            A = r.diff(v).diff(v) * Rat.const(1) / Rat.const(2)
            if not (r - A * Rat.sym(v) * Rat.sym(v)).iszero() or v in A.symbols():
                return None, 'cost is not proportional to the square of the unit-norm weight `%s`' % unit
            total = Alg(A)
            ss_ = getattr(world, 'unit_sumsq', {}).get(unit)
            if ss_ is not None:
                total = total * ss_
                notes.append('sum over the weights `%s` normalised to a root-mean-square of 1: sum w^2 = %s' % (unit, ss_))
            else:
                notes.append('sum over the unit-norm weights `%s`: sum w^2 = 1' % unit)
        elif part is not None and i > 0:
            # inner loop over a partition class of L (by the outer loop variable): both loops together visit each element once
            total = total * sym('len(%s)' % part)
            notes.append('loops at lines %d/%d partition `%s` by length: %s executions in total' % (loops[i - 1][0].lineno, stmt.lineno, part, 'len(%s)' % part))
            i -= 1
        elif trip is not None:
            for s_ in (total.rat().symbols() if total.is_rat() else set()):
                if s_.endswith('@L%d' % stmt.lineno):
                    return None, 'cost depends on `%s`, which changes inside the loop at line %d' % (s_.split('@')[0], stmt.lineno)
            total = total * trip
        else:
            if isinstance(stmt, ast.For) and isinstance(stmt.iter, ast.Subscript) and isinstance(stmt.iter.value, ast.Name):
                from .taint import inplace_noise_passes
                if stmt.iter.value.id in inplace_noise_passes(stmt):
                    raise AnalysisError('noise is added IN PLACE to a slice of the container `%s` filled earlier (line %d): which of its elements the '
                                        'slice covers, and how many, is not decided' % (stmt.iter.value.id, stmt.lineno))
            if isinstance(stmt, ast.While) and any(isinstance(c, ast.Call) and U(c.func).split('.')[0] in ('nx', 'networkx') for c in ast.walk(stmt.test)):
                raise AnalysisError('release inside `while %s` (line %d): the loop runs until a property of a graph holds; how many rounds that takes '
                                    'is not decided by this analysis' % (U(stmt.test)[:60], stmt.lineno))
            return None, 'release inside a loop with no closed-form trip count (line %d)' % stmt.lineno
        i -= 1
    return total, None

"""E6 - must-typestate over structured code: a state is a set of facts (tuples whose
items after the tag are *places*); the join is set intersection, so a fact holds at a point
only if it holds on every path reaching it.

A *place* is the normalised text of a Name or attribute chain (`theta`, `model.potentials`),
after substituting local aliases of the form `x = self.attr` (recorded as facts themselves).
Assigning to a place kills every fact that mentions it (or a place it is a prefix of);
simple copies (`a = b`, `a, b = c, d`) duplicate the facts of the source for the target.
"""
import ast

from ..absint import Structured
from ..srcmodel import AnalysisError, U, attr_chain


class St:
    __slots__ = ('facts', 'alias')

    def __init__(self, facts=(), alias=None):
        self.facts = set(facts)
        self.alias = dict(alias or {})

    def __eq__(self, o):
        return self.facts == o.facts and self.alias == o.alias


class FactAnalysis(Structured):
    """Sub-classes implement `gen(st, target_places, value, stmt)` to create facts on assignment,
    `visit_call(st, call, stmt)` for calls evaluated for effect, and `at_return(st, stmt)`."""

    ALIAS_ROOTS = ('self',)

    def __init__(self, fi):
        super().__init__()
        self.fi = fi

    # ---- lattice -----------------------------------------------------------
    def copy(self, st):
        return St(st.facts, st.alias)

    def join(self, a, b):
        return St(a.facts & b.facts, {k: v for k, v in a.alias.items() if b.alias.get(k) == v})

    # ---- places ----------------------------------------------------------------
    def place(self, e, st):
        """normalised place text of a Name / attribute chain, or None"""
        ch = attr_chain(e)
        if ch is None:
            return None
        head = ch[0]
        if head in st.alias:
            return '.'.join([st.alias[head]] + ch[1:])
        return '.'.join(ch)

    @staticmethod
    def mentions(fact, place):
        for item in fact[1:]:
            if isinstance(item, str) and (item == place or item.startswith(place + '.')):
                return True
        return False

    def kill(self, st, place):
        st.facts = {f for f in st.facts if not self.mentions(f, place)}
        # an alias whose source is overwritten is no longer valid
        for k in [k for k, v in st.alias.items() if v == place or v.startswith(place + '.') or k == place]:
            del st.alias[k]
        self.on_kill(st, place)

    def on_kill(self, st, place):
        pass

    def copy_facts(self, st, mapping):
        """mapping: src place -> dst place, applied simultaneously to a snapshot of the facts."""
        def m(i):
            if not isinstance(i, str):
                return i
            for src, dst in mapping.items():
                if i == src:
                    return dst
                if i.startswith(src + '.'):
                    return dst + i[len(src):]
            return i
        new = set()
        for f in st.facts:
            g = tuple([f[0]] + [m(i) for i in f[1:]])
            if g != f:
                new.add(g)
        return new

    # ---- hooks for sub-classes -----------------------------------------------------
    def gen(self, st, places, value, stmt):
        """facts created by `places = value` (after kill)"""
        return set()

    def visit_expr(self, st, e, stmt):
        """inspect an evaluated expression (calls etc.) *before* the assignment takes effect"""
        pass

    def at_return(self, st, stmt):
        pass

    def preserve_on_aug(self, st, place, stmt):
        """facts about `place` that survive `place op= value` (default none)"""
        return set()

    # ---- transfer ----------------------------------------------------------------
    def on_assign(self, st, s):
        if s.value is None:
            return st
        self.visit_expr(st, s.value, s)
        targets = s.targets if isinstance(s, ast.Assign) else [s.target]
        value = s.value
        # snapshot facts produced by copies before killing
        pending = set()
        kills = []
        alias_new = {}
        for t in targets:
            if isinstance(t, (ast.Tuple, ast.List)) and isinstance(value, (ast.Tuple, ast.List)) \
                    and len(t.elts) == len(value.elts):
                pairs = list(zip(t.elts, value.elts))
            else:
                pairs = [(t, value)]
            mapping = {}
            for tt, vv in pairs:
                if isinstance(tt, (ast.Tuple, ast.List)):
                    for el in tt.elts:
                        p = self.place(el, st)
                        if p:
                            kills.append(p)
                    continue
                tp = self.place(tt, st)
                if tp is None:
                    # subscript store etc.: conservative kill of the container place
                    base = tt
                    while isinstance(base, ast.Subscript):
                        base = base.value
                    bp = self.place(base, st)
                    if bp:
                        kills.append(bp)
                        self.on_element_store(st, bp, tt, vv, s)
                    continue
                kills.append(tp)
                vp = self.place(vv, st)
                if vp is not None:
                    mapping[vp] = tp
                    ch = attr_chain(vv)
                    if isinstance(tt, ast.Name) and ch and ch[0] in self.ALIAS_ROOTS and len(ch) == 2 \
                            and not isinstance(s, ast.AnnAssign):
                        alias_new[tt.id] = vp
                    tch = attr_chain(tt)
                    if isinstance(vv, ast.Name) and vv.id not in self.ALIAS_ROOTS and tch and \
                            tch[0] in self.ALIAS_ROOTS and len(tch) == 2 and vv.id not in st.alias:
                        # self.attr = local : from here on the local name denotes the same object
                        alias_new[vv.id] = tp
                pending |= self.gen(st, [tp], vv, s)
            pending |= self.copy_facts(st, mapping)
        for p in kills:
            self.kill(st, p)
        # facts generated must not mention killed places other than as the new target: keep as produced
        st.facts |= pending
        for k, v in alias_new.items():
            # rewrite facts about the local name to the aliased place
            st.facts = {tuple([f[0]] + [(v + i[len(k):]) if isinstance(i, str) and (i == k or i.startswith(k + '.')) else i
                                        for i in f[1:]]) for f in st.facts}
            st.alias[k] = v
        return st

    def on_element_store(self, st, base_place, target, value, stmt):
        pass

    def on_augassign(self, st, s):
        self.visit_expr(st, s.value, s)
        t = s.target
        p = self.place(t, st)
        if p is None:
            base = t
            while isinstance(base, ast.Subscript):
                base = base.value
            p = self.place(base, st)
            if p:
                self.kill(st, p)
            return st
        keep = self.preserve_on_aug(st, p, s)
        self.kill(st, p)
        st.facts |= keep
        return st

    def on_expr(self, st, e, s):
        self.visit_expr(st, e, s)
        return st

    def on_bind(self, st, target, it, s):
        for n in ast.walk(target):
            if isinstance(n, ast.Name):
                self.kill(st, n.id)
        return st

    def on_return(self, st, s):
        if s.value is not None:
            self.visit_expr(st, s.value, s)
        self.at_return(st, s)
        return st

    def on_assert(self, st, s):
        return st

    def on_funcdef(self, st, node):
        self.kill(st, node.name)
        return st

    def unsupported(self, st, stmt):
        raise AnalysisError('%s:%s: unsupported construct %s in typestate analysis'
                            % (self.fi.rel, getattr(stmt, 'lineno', '?'), type(stmt).__name__))

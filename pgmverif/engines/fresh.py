"""Array freshness: does a Factor-returning method hand out a reference to storage it does not own?

A tiny ownership analysis over the methods of Factor and the query methods of GraphicalModel.  For the array held by the returned
factor (or the returned array itself) the verdict is one of
    FRESH   allocated by this call (a numpy reduction / arithmetic / copy), or a view of such an array
    RECV    may be (a view of) the receiver's own array  (`self.values`, `self.transpose(..)`, ...)
    STATE   may be (a view of) an array stored in the object (`self.marginals[cl].values`, ...)
    ARG     may be (a view of) an argument's array
Views (`transpose`, `moveaxis`, `reshape`, `broadcast_to`, basic indexing, `.T`, `squeeze`) inherit the verdict of what they view.
Method calls compose through per-method summaries (iterated to a fixpoint); unknown callees are FRESH only when they are numpy /
scipy functions outside the view list, otherwise OTHER.
"""
import ast

from ..srcmodel import U

FRESH, RECV, STATE, ARG, OTHER = 'fresh', 'receiver', 'state', 'argument', 'unknown'
ORDER = [FRESH, ARG, RECV, STATE, OTHER]
VIEW_FUNCS = {'moveaxis', 'transpose', 'reshape', 'broadcast_to', 'squeeze', 'swapaxes', 'ravel', 'asarray', 'atleast_1d', 'expand_dims'}
VIEW_METHODS = {'transpose', 'reshape', 'squeeze', 'swapaxes', 'ravel', 'view'}
ALLOC_METHODS = {'copy', 'astype', 'sum', 'max', 'min', 'mean', 'flatten', 'dot', 'cumsum', 'clip', 'round', 'prod'}
FACTOR = 'src/mbi/factor.py'
GM = 'src/mbi/graphical_model.py'


def worst(a, b):
    return a if ORDER.index(a) >= ORDER.index(b) else b


class Freshness:
    bottom = FRESH

    @staticmethod
    def lub(a, b):
        return worst(a, b)

    def __init__(self, repo):
        self.repo = repo
        self.methods = {}
        for rel, cls in ((FACTOR, 'Factor'), (GM, 'GraphicalModel')):
            for name, fi in repo.nmethods(rel, cls).items():
                self.methods[(cls, name)] = fi
        self.summary = {k: FRESH for k in self.methods}       # optimistic start, grows monotonically
        changed = True
        n = 0
        while changed and n < 20:
            changed = False
            n += 1
            for k, fi in self.methods.items():
                v = self.of_method(k[0], fi)
                if v != self.summary[k]:
                    self.summary[k] = worst(v, self.summary[k])
                    changed = True

    # ---- one method ---------------------------------------------------------------------------------------------------
    def of_method(self, cls, fi):
        """flow-sensitive over the structured statements: a local holds the verdict of its LATEST definition on the path (joined - the worse
        one - where paths meet; loop bodies are run twice so that loop-carried definitions reach their uses)"""
        params = fi.params[1:]
        out = [None]

        def join(a, b):
            r = {}
            for k in set(a) | set(b):
                r[k] = self.lub(a[k], b[k]) if k in a and k in b else (a.get(k) or b.get(k))
            return r

        def run(stmts, env):
            for st in stmts:
                if isinstance(st, ast.Assign) and len(st.targets) == 1 and isinstance(st.targets[0], ast.Name):
                    env[st.targets[0].id] = self.expr(st.value, env, cls, params)
                elif isinstance(st, ast.Assign) and len(st.targets) == 1 and isinstance(st.targets[0], (ast.Tuple, ast.List)) \
                        and isinstance(st.value, (ast.Tuple, ast.List)) and len(st.value.elts) == len(st.targets[0].elts):
                    vals = [self.expr(v, env, cls, params) for v in st.value.elts]
                    for t, v in zip(st.targets[0].elts, vals):
                        if isinstance(t, ast.Name):
                            env[t.id] = v
                elif isinstance(st, ast.If):
                    a, b = run(st.body, dict(env)), run(st.orelse, dict(env))
                    env = join(a, b)
                elif isinstance(st, (ast.For, ast.While)):
                    e1 = join(env, run(st.body, dict(env)))
                    env = join(e1, run(st.body, dict(e1)))
                    env = join(env, run(st.orelse, dict(env)))
                elif isinstance(st, (ast.With, ast.Try)):
                    env = run(st.body, env)
                    for h in getattr(st, 'handlers', []) or []:
                        env = join(env, run(h.body, dict(env)))
                    env = run(getattr(st, 'finalbody', []) or [], env)
                elif isinstance(st, ast.Return) and st.value is not None:
                    v = self.expr(st.value, env, cls, params)
                    out[0] = v if out[0] is None else self.lub(out[0], v)
            return env
        run(fi.body, {})
        return out[0] or self.bottom

    def expr(self, e, env, cls, params):
        if isinstance(e, ast.Constant):
            return FRESH
        if isinstance(e, ast.Name):
            if e.id in env:
                return env[e.id]
            if e.id == 'self':
                return RECV
            if e.id in params:
                return ARG
            return OTHER
        if isinstance(e, ast.IfExp):
            return worst(self.expr(e.body, env, cls, params), self.expr(e.orelse, env, cls, params))
        if isinstance(e, (ast.BinOp, ast.UnaryOp, ast.Compare, ast.BoolOp)):
            return FRESH                                      # numpy arithmetic allocates
        if isinstance(e, ast.Attribute):
            if e.attr in ('values', 'T'):
                return self.expr(e.value, env, cls, params)  # the array of an object / a transposed view
            if U(e.value) == 'self':
                return STATE                                  # something stored in the object
            return self.expr(e.value, env, cls, params)
        if isinstance(e, ast.Subscript):
            base = self.expr(e.value, env, cls, params)
            return base                                       # indexing views (or selects from) its base
        if isinstance(e, ast.Tuple):
            out = FRESH
            for x in e.elts:
                out = worst(out, self.expr(x, env, cls, params))
            return out
        if isinstance(e, ast.Call):
            f = e.func
            name = U(f)
            last = name.split('.')[-1]
            if last == 'Factor' and len(e.args) == 2:
                return self.expr(e.args[1], env, cls, params)
            if isinstance(f, ast.Attribute) and U(f.value) in ('np', 'numpy', 'scipy.special') or last in ('logsumexp', 'softmax'):
                if last in VIEW_FUNCS and e.args:
                    return self.expr(e.args[0], env, cls, params)
                return FRESH
            if isinstance(f, ast.Attribute):
                recv = self.expr(f.value, env, cls, params)
                if last in VIEW_METHODS:
                    # a Factor method of that name has a summary; on a bare array it is a view
                    s = self.summary.get(('Factor', last))
                    if s is not None:
                        return recv if s == RECV else s
                    return recv
                order_ = (cls, 'Factor', 'GraphicalModel') if U(f.value) == 'self' else ('Factor',)
                for c in order_:
                    if (c, last) in self.summary and (c == 'Factor' or U(f.value) == 'self') and not (U(f.value) == 'self' and c != cls and (cls, last) in self.summary):
                        s = self.summary[(c, last)]
                        if s == RECV:
                            return recv                       # hands out (a view of) the receiver's array: as private as the receiver
                        if s == ARG:
                            out = FRESH
                            for a in e.args:
                                out = worst(out, self.expr(a, env, cls, params))
                            return out
                        return s
                if last in ALLOC_METHODS:
                    return FRESH
                return OTHER
            if isinstance(f, ast.Name) and f.id in ('list', 'tuple', 'dict', 'set', 'float', 'int', 'len', 'sorted'):
                return FRESH
            return OTHER
        if isinstance(e, (ast.ListComp, ast.List, ast.Dict, ast.DictComp, ast.GeneratorExp)):
            return FRESH
        return OTHER


WRITABLE, READONLY = 'writable', 'read-only'


class Writability(Freshness):
    """Can the array of the returned factor be written to?  `np.broadcast_to` returns a READ-ONLY view (also when the target shape equals
    the source shape); views of it (transpose / moveaxis / squeeze / basic slices / .T) stay read-only, anything numpy allocates is
    writable.  Same flow analysis and method summaries as Freshness, on the two-point lattice writable < read-only.  Unknown constructs
    count as writable (this analysis only ever reports a definite broadcast view reaching a return)."""

    def __init__(self, repo):
        self.repo = repo
        self.methods = {}
        for name, fi in repo.nmethods(FACTOR, 'Factor').items():
            self.methods[('Factor', name)] = fi
        self.summary = {k: WRITABLE for k in self.methods}
        for _ in range(20):
            changed = False
            for k, fi in self.methods.items():
                v = self.of_method(k[0], fi)
                if v == READONLY and self.summary[k] != READONLY:
                    self.summary[k] = READONLY
                    changed = True
            if not changed:
                break

    bottom = WRITABLE

    @staticmethod
    def lub(a, b):
        return READONLY if READONLY in (a, b) else WRITABLE

    def expr(self, e, env, cls, params):
        w = lambda a, b: READONLY if READONLY in (a, b) else WRITABLE
        if isinstance(e, ast.Name):
            return env.get(e.id, WRITABLE)
        if isinstance(e, ast.IfExp):
            return w(self.expr(e.body, env, cls, params), self.expr(e.orelse, env, cls, params))
        if isinstance(e, ast.Attribute):
            if e.attr in ('values', 'T'):
                return self.expr(e.value, env, cls, params)
            return WRITABLE
        if isinstance(e, ast.Subscript):
            idx = e.slice.elts if isinstance(e.slice, ast.Tuple) else [e.slice]
            basic = all(isinstance(i, ast.Slice) or (isinstance(i, ast.Constant) and (i.value is None or i.value is Ellipsis or isinstance(i.value, int)))
                        or U(i) == 'np.newaxis' for i in idx)
            return self.expr(e.value, env, cls, params) if basic else WRITABLE
        if isinstance(e, ast.Call):
            f = e.func
            last = U(f).split('.')[-1]
            if last == 'Factor' and len(e.args) == 2:
                return self.expr(e.args[1], env, cls, params)
            if isinstance(f, ast.Attribute) and U(f.value) in ('np', 'numpy'):
                if last == 'broadcast_to':
                    return READONLY
                if last in ('moveaxis', 'transpose', 'squeeze', 'swapaxes', 'expand_dims', 'asarray') and e.args:
                    return self.expr(e.args[0], env, cls, params)
                return WRITABLE
            if isinstance(f, ast.Attribute):
                if last in ('transpose', 'squeeze', 'swapaxes', 'view') and ('Factor', last) not in self.summary:
                    return self.expr(f.value, env, cls, params)
                if ('Factor', last) in self.summary and (U(f.value) == 'self' or last in ('transpose', 'project', 'expand', '_align')):
                    return self.summary[('Factor', last)]
                if ('Factor', last) in self.summary and self.summary[('Factor', last)] == READONLY and last.startswith('_'):
                    return READONLY
            return WRITABLE
        return WRITABLE

"""E1 - layout (axis-name) type system for Factor code.

Every ndarray expression carries a *layout*: the symbolic Domain term whose
attribute order its axes follow.  The obligation is that an array handed to
`Factor(D, .)` is laid out by `D`, that every axis index comes from a
name->position lookup on the operand's own domain, and that elementwise
operations combine equally laid out arrays.

Terms are nested tuples:
  domain terms   ('param', n) | ('domof', expr) | ('project', D, S) |
                 ('marginalize', D, S) | ('merge', D1, D2)
  attrs terms    ('var', n) | ('attrsof', D) | ('expr', text)
"""
import ast

from ..absint import Structured
from ..srcmodel import AnalysisError, U, target_names

ELEMENTWISE_NP = {'where', 'nan_to_num', 'exp', 'log', 'abs', 'sign', 'sqrt', 'logaddexp', 'divide',
                  'multiply', 'add', 'subtract', 'maximum', 'minimum', 'negative', 'isinf', 'isneginf',
                  'isnan', 'isfinite', 'log1p', 'expm1', 'square', 'copy', 'array', 'asarray',
                  'ascontiguousarray', 'logical_not', 'logical_and', 'logical_or', 'power', 'float64'}
REDUCERS = {'sum', 'max', 'min', 'prod', 'mean', 'logsumexp', 'amax', 'amin', 'nansum', 'any', 'all'}
ALLOC_NP = {'zeros', 'ones', 'empty', 'full'}
DOM_METHODS = {'project', 'marginalize', 'merge', 'transpose'}


def show(t):
    if t is None:
        return '?'
    if isinstance(t, tuple):
        k = t[0]
        if k in ('param', 'var'):
            return t[1]
        if k == 'domof':
            return t[1] + '.domain'
        if k == 'attrsof':
            return show(t[1]) + '.attrs'
        if k == 'expr':
            return t[1]
        if k == 'canonical':
            return '%s.canonical(%s)' % (show(t[1]), show(t[2]))
        if k in ('project', 'marginalize', 'merge'):
            return '%s.%s(%s)' % (show(t[1]), k, show(t[2]))
        if k == 'pad':
            return '%s+pad' % show(t[1])
        if k == 'positional':
            return '<positional: %s>' % t[1]
        return str(t)
    return str(t)


class V:
    """abstract value"""
    __slots__ = ('kind', 'a', 'b', 'deps', 'flags')

    def __init__(self, kind, a=None, b=None, deps=frozenset(), flags=frozenset()):
        self.kind, self.a, self.b, self.deps, self.flags = kind, a, b, frozenset(deps), frozenset(flags)

    def key(self):
        return (self.kind, self.a, self.b, self.deps, self.flags)

    def __eq__(self, o):
        return isinstance(o, V) and self.key() == o.key()

    def __hash__(self):
        return hash(self.key())

    def __repr__(self):
        return 'V(%s,%s,%s)' % (self.kind, show(self.a), show(self.b))


UNK = V('unk')
SCALAR = V('scalar')
NONE = V('none')          # the constant None (an axis argument meaning: all axes)


def replace_term(t, a, b):
    if t == a:
        return b
    if isinstance(t, tuple):
        return tuple(replace_term(x, a, b) for x in t)
    return t


def subst_term(t, env):
    sub = env.get('#subst')
    if sub is not None:
        for a, b in sorted(sub.a, key=repr):
            t = replace_term(t, a, b)
    return t


def same_attr_set(x, y):
    """do two attribute terms denote the same SET of attributes (canonical re-ordering does not change the set)"""
    def base(t):
        while isinstance(t, tuple) and t and t[0] == 'canonical':
            t = t[2]
        return t
    return base(x) == base(y)


def attrs_of_dom(d):
    """the attribute tuple of a domain term: a projection carries exactly the requested tuple"""
    if isinstance(d, tuple) and d and d[0] == 'project':
        return d[2]
    return ('attrsof', d)


class LayoutTyper(Structured):
    """Types one function.  `report(rule, node, ok, detail)` receives obligations."""

    def __init__(self, fi, report, factor_names=('Factor',), param_kinds=None, self_is_factor=True):
        super().__init__()
        self.fi = fi
        self.report = report
        self.factor_names = set(factor_names)
        from ..normalise import Defs
        self.defs = Defs(fi.body)
        self.env0 = {}
        kinds = dict(self.infer_param_kinds(fi))
        kinds.update(param_kinds or {})
        for p, k in kinds.items():
            if k == 'factor':
                self.env0[p] = V('fac', ('domof', p), deps={p})
            elif k == 'domain':
                self.env0[p] = V('dom', ('param', p))
            elif k == 'array_of':
                pass
        self.kinds = kinds
        self.return_values = []

    # -- parameter kind inference from use ------------------------------------
    @staticmethod
    def infer_param_kinds(fi):
        uses = {}
        for n in ast.walk(fi.node):
            if isinstance(n, ast.Attribute) and isinstance(n.value, ast.Name):
                uses.setdefault(n.value.id, set()).add(n.attr)
        out = {}
        for p in fi.params:
            u = uses.get(p, set())
            if u & {'values', 'domain', 'expand', 'datavector', 'condition', 'logsumexp', 'logaddexp'}:
                out[p] = 'factor'
            elif u & {'shape', 'axes', 'attrs', 'marginalize', 'merge', 'contains'} or \
                    (u & {'project', 'size'} and not u & {'values'}):
                out[p] = 'domain'
        if fi.cls is not None and not fi.is_static() and fi.params and fi.params[0] == 'self':
            out['self'] = 'factor'
        return out

    # -- domain -------------------------------------------------------------
    def copy(self, st):
        return dict(st)

    def join(self, a, b):
        out = {}
        for k, v in a.items():
            if k not in b:
                continue
            if b[k] == v:
                out[k] = v
            elif isinstance(v, V) and isinstance(b[k], V) and v.kind == 'arr' and b[k].kind == 'arr':
                # the array's layout differs between the paths (e.g. it changes inside a loop)
                terms = set()
                for x in (v.a, b[k].a):
                    terms |= set(x[1]) if isinstance(x, tuple) and x[0] == 'varying' else {x}
                out[k] = V('arr', ('varying', frozenset(terms)), deps=v.deps | b[k].deps)
        return out

    # -- term builders ---------------------------------------------------------
    def attrs_term(self, e, env):
        if isinstance(e, ast.Call):
            f = e.func
            if isinstance(f, ast.Name) and f.id in ('list', 'tuple') and len(e.args) == 1:
                return self.attrs_term(e.args[0], env)
            if isinstance(f, ast.Attribute) and f.attr == 'keys' and not e.args:
                return self.attrs_term(f.value, env)
            if isinstance(f, ast.Attribute) and f.attr == 'canonical' and len(e.args) == 1:
                # E.canonical(S): the attributes of S in E's own order
                E = self.dom_term(f.value, env)
                if E is not None:
                    return ('canonical', E, self.attrs_term(e.args[0], env))
        if isinstance(e, (ast.ListComp, ast.GeneratorExp)):
            c = self.complement(e, env)
            if c is not None:
                return c
        if isinstance(e, ast.Name):
            v = env.get(e.id)
            if v is not None and v.kind == 'attrs':
                return v.a
            if v is not None and v.kind == 'dom':
                return ('attrsof', v.a)     # iterating a Domain yields its attrs
            return ('var', e.id)
        if isinstance(e, ast.Attribute) and e.attr == 'attrs':
            d = self.dom_term(e.value, env)
            if d is not None:
                return attrs_of_dom(d)
        d = self.dom_term(e, env)
        if d is not None:
            return attrs_of_dom(d)
        return ('expr', U(e))

    def complement(self, e, env):
        """[a for a in D.attrs if a not in S]  and  [a for a, d in zip(D.attrs, M) if not d]  with M the membership mask of S over D:
        the attributes of D outside S, in D's order  ->  ('complement', D, S)"""
        if len(e.generators) != 1 or len(e.generators[0].ifs) != 1:
            return None
        g = e.generators[0]
        c = g.ifs[0]
        if isinstance(g.target, ast.Name) and U(e.elt) == g.target.id:
            neg = False
            if isinstance(c, ast.UnaryOp) and isinstance(c.op, ast.Not):
                c, neg = c.operand, True
            if isinstance(c, ast.Compare) and len(c.ops) == 1 and U(c.left) == g.target.id and \
                    ((isinstance(c.ops[0], ast.NotIn) and not neg) or (isinstance(c.ops[0], ast.In) and neg)):
                D = self.dom_term(g.iter, env)
                if D is None and isinstance(g.iter, ast.Attribute) and g.iter.attr == 'attrs':
                    D = self.dom_term(g.iter.value, env)
                if D is not None:
                    return ('complement', D, self.attrs_term(c.comparators[0], env))
            return None
        if isinstance(g.target, ast.Tuple) and len(g.target.elts) == 2 and all(isinstance(x, ast.Name) for x in g.target.elts) and \
                isinstance(g.iter, ast.Call) and U(g.iter.func) == 'zip' and len(g.iter.args) == 2 and U(e.elt) == g.target.elts[0].id and \
                isinstance(c, ast.UnaryOp) and isinstance(c.op, ast.Not) and U(c.operand) == g.target.elts[1].id:
            it = g.iter.args[0]
            D = self.dom_term(it, env)
            if D is None and isinstance(it, ast.Attribute) and it.attr == 'attrs':
                D = self.dom_term(it.value, env)
            m = self.ev(g.iter.args[1], env, quiet=True)
            if D is not None and m.kind == 'mask' and m.a == D:
                return ('complement', D, m.b)
        return None

    def dom_term(self, e, env):
        if isinstance(e, ast.Name):
            v = env.get(e.id)
            if v is not None and v.kind == 'dom':
                return v.a
            return None
        if isinstance(e, ast.Attribute) and e.attr == 'domain':
            b = self.ev(e.value, env, quiet=True)
            if b.kind == 'fac':
                return b.a
            return subst_term(('domof', U(e.value)), env)
        if isinstance(e, ast.Call) and isinstance(e.func, ast.Attribute) and e.func.attr in DOM_METHODS:
            base = self.dom_term(e.func.value, env)
            if base is None or len(e.args) != 1 or e.keywords:
                return None
            m = e.func.attr
            if m == 'merge':
                o = self.dom_term(e.args[0], env)
                return None if o is None else ('merge', base, o)
            if m == 'transpose':
                m = 'project'
            at = self.attrs_term(e.args[0], env)
            if m == 'project' and isinstance(at, tuple) and at[0] == 'complement' and at[1] == base:
                return ('marginalize', base, at[2])          # D.project(the attributes of D outside S) is D.marginalize(S)
            return (m, base, at)
        return None

    # -- expression evaluation ---------------------------------------------------
    def np_func(self, call):
        """('np', name) for numpy-ish calls, ('meth', name) for method calls, ('fn', name) for bare names."""
        f = call.func
        if isinstance(f, ast.Attribute):
            d = self.fi.module.dotted(f)
            if d and (d.startswith('numpy.') or d.startswith('scipy.')):
                return ('np', f.attr)
            return ('meth', f.attr)
        if isinstance(f, ast.Name):
            o = self.fi.module.origin(f.id) or ''
            if o.startswith('scipy.') or o.startswith('numpy.'):
                return ('np', f.id)
            return ('fn', f.id)
        return ('?', None)

    def is_factor_ctor(self, call):
        f = call.func
        if isinstance(f, ast.Name) and f.id in self.factor_names:
            return True
        if isinstance(f, ast.Attribute) and f.attr == 'Factor':
            return True
        return False

    def shape_of(self, e, env):
        """If e is `<D>.shape` return the domain term."""
        if isinstance(e, ast.Attribute) and e.attr == 'shape':
            return self.dom_term(e.value, env)
        return None

    def ev(self, e, env, quiet=False):
        rep = (lambda *a, **k: None) if quiet else self.report
        if isinstance(e, ast.Constant):
            return NONE if e.value is None else SCALAR
        if isinstance(e, ast.Name):
            return env.get(e.id, UNK)
        if isinstance(e, ast.UnaryOp):
            return self.ev(e.operand, env, quiet)
        if isinstance(e, ast.Attribute):
            if e.attr == 'values':
                b = self.ev(e.value, env, quiet)
                if b.kind == 'fac':
                    return V('arr', b.a, deps=b.deps)
                return V('arr', ('domof', U(e.value)), deps={U(e.value)})
            if e.attr == 'domain':
                d = self.dom_term(e, env)
                return V('dom', d) if d is not None else UNK
            if e.attr == 'attrs':
                return V('attrs', self.attrs_term(e, env))
            if e.attr == 'T':
                b = self.ev(e.value, env, quiet)
                if b.kind == 'arr':
                    return V('arr', ('positional', 'reversed axes of ' + show(b.a)), deps=b.deps)
                return UNK
            if e.attr in ('inf', 'nan', 'pi', 'size', 'ndim'):
                return SCALAR
            return UNK
        if isinstance(e, (ast.BinOp, ast.Compare, ast.BoolOp)):
            if isinstance(e, ast.BinOp):
                parts = [e.left, e.right]
            elif isinstance(e, ast.Compare):
                parts = [e.left] + list(e.comparators)
            else:
                parts = list(e.values)
            vals = [self.ev(p, env, quiet) for p in parts]
            return self.elementwise(e, vals, rep)
        if isinstance(e, ast.IfExp):
            a, b = self.ev(e.body, env, quiet), self.ev(e.orelse, env, quiet)
            return a if a == b else UNK
        if isinstance(e, ast.Subscript):
            base = self.ev(e.value, env, quiet)
            if base.kind == 'arr':
                idx = e.slice
                if isinstance(idx, ast.Call) and isinstance(idx.func, ast.Name) and idx.func.id == 'tuple' \
                        and len(idx.args) == 1:
                    sv = self.ev(idx.args[0], env, quiet)
                    if sv.kind == 'slices':
                        ok = sv.a == base.a
                        rep('index-by-name', e, ok,
                            'index tuple built over %s applied to array laid out by %s' % (show(sv.a), show(base.a)))
                        return V('arr', ('marginalize', base.a, sv.b), deps=base.deps)
                iv = self.ev(idx, env, quiet)
                if iv.kind == 'unk' and isinstance(idx, ast.Call) and isinstance(idx.func, ast.Name) and idx.func.id == 'tuple' and len(idx.args) == 1:
                    iv = self.ev(idx.args[0], env, quiet)
                if iv.kind == 'newaxes':
                    E, X = iv.a, iv.b
                    lay = base.a
                    ok = isinstance(lay, tuple) and lay[0] == 'project' and lay[2][0] == 'canonical' and lay[2][1] == E \
                        and same_attr_set(lay[2][2], ('attrsof', lay[1])) and same_attr_set(X, ('attrsof', lay[1]))
                    rep('index-by-name', e, ok, 'length-1 axes inserted for the attributes of %s outside %s into an array laid out by %s (its axes '
                        'must be exactly those attributes, in the order of %s)' % (show(E), show(X), show(lay), show(E)))
                    if ok:
                        return V('arr', E, deps=base.deps, flags={'partial'})
                    return V('arr', ('positional', 'axes inserted into a foreign layout'), deps=base.deps)
                if iv.kind == 'slices':
                    ok = iv.a == base.a
                    rep('index-by-name', e, ok,
                        'index tuple built over %s applied to array laid out by %s' % (show(iv.a), show(base.a)))
                    return V('arr', ('marginalize', base.a, iv.b), deps=base.deps)
                if iv.kind == 'arr':       # boolean-mask selection: result is flat, positional
                    return V('arr', ('positional', 'mask selection'), deps=base.deps | iv.deps)
                return V('arr', ('positional', 'subscript ' + U(idx)), deps=base.deps)
            return UNK
        if isinstance(e, (ast.Tuple, ast.List)):
            return V('seq')
        if isinstance(e, (ast.ListComp, ast.GeneratorExp)):
            c = self.complement(e, env)
            if c is not None:
                return V('attrs', c)
            # [sorted(ax).index(i) for i in ax]: the RANK of every looked-up position among them
            if len(e.generators) == 1 and not e.generators[0].ifs and isinstance(e.generators[0].target, ast.Name) and \
                    U(e.elt) == 'sorted(%s).index(%s)' % (U(e.generators[0].iter), e.generators[0].target.id):
                av = self.axis_value(e.generators[0].iter, env)
                if av.kind == 'axes':
                    return V('rank', av.a, av.b)
            return self.ev_slices(e, env)
        if isinstance(e, ast.Call):
            return self.ev_call(e, env, quiet, rep)
        if isinstance(e, (ast.DictComp, ast.SetComp, ast.Lambda, ast.Dict, ast.Set,
                          ast.JoinedStr, ast.Starred)):
            return UNK
        return UNK

    def ev_slices(self, e, env):
        """[ev[a] if a in ev else slice(None) for a in D]  ->  slices(D, keys(ev))"""
        if len(e.generators) != 1 or e.generators[0].ifs:
            return UNK
        g = e.generators[0]
        elt = e.elt
        SL = ('slice(None)', 'slice(None, None)', 'slice(None, None, None)')
        if isinstance(g.target, ast.Name):
            # ev.get(a, slice(None))  is  ev[a] if a in ev else slice(None);   `ev.get(a) or slice(None)` is not: the value 0 is falsy
            if isinstance(elt, ast.Call) and isinstance(elt.func, ast.Attribute) and elt.func.attr == 'get' and len(elt.args) == 2 and not elt.keywords \
                    and U(elt.args[0]) == g.target.id and U(elt.args[1]) in SL:
                ev_ = elt.func.value
                elt = ast.IfExp(test=ast.Compare(left=ast.Name(id=g.target.id, ctx=ast.Load()), ops=[ast.In()], comparators=[ev_]),
                                body=ast.Subscript(value=ev_, slice=ast.Name(id=g.target.id, ctx=ast.Load()), ctx=ast.Load()), orelse=elt.args[1])
            elif isinstance(elt, ast.BoolOp) and isinstance(elt.op, ast.Or) and len(elt.values) == 2 and U(elt.values[1]) in SL and isinstance(elt.values[0], ast.Call) \
                    and isinstance(elt.values[0].func, ast.Attribute) and elt.values[0].func.attr == 'get' and U(elt.values[0].args[0]) == g.target.id:
                self.report('index-by-name', e, False, '`%s`: an evidence value of 0 - the FIRST element of an attribute, the only one of a size-1 attribute - is falsy and '
                            'is replaced by the whole axis, while the result domain still drops the attribute' % U(elt))
                return UNK
        if not isinstance(g.target, ast.Name) or not isinstance(elt, ast.IfExp):
            return UNK
        a = g.target.id
        t, body, orelse = elt.test, elt.body, elt.orelse
        neg = False
        if isinstance(t, ast.UnaryOp) and isinstance(t.op, ast.Not):
            t, neg = t.operand, True
        if not (isinstance(t, ast.Compare) and len(t.ops) == 1 and isinstance(t.left, ast.Name) and t.left.id == a):
            return UNK
        if isinstance(t.ops[0], ast.NotIn):
            neg = not neg
        elif not isinstance(t.ops[0], ast.In):
            return UNK
        evname = t.comparators[0]
        if neg:
            body, orelse = orelse, body
        if U(body) in ('slice(None)', 'slice(None, None)', 'slice(None, None, None)') and U(orelse) in ('np.newaxis', 'None'):
            # (slice(None) if a in X else np.newaxis for a in E): keeps the axes of X, inserts a length-1 axis for every other attribute of E
            it = g.iter
            E = self.dom_term(it, env)
            if E is None and isinstance(it, ast.Attribute) and it.attr == 'attrs':
                E = self.dom_term(it.value, env)
            if E is not None:
                return V('newaxes', E, self.attrs_term(evname, env))
            return UNK
        if not (isinstance(body, ast.Subscript) and U(body.value) == U(evname) and U(body.slice) == a):
            return UNK
        if U(orelse) not in ('slice(None)', 'slice(None, None)', 'slice(None, None, None)'):
            return UNK
        it = g.iter
        d = self.dom_term(it, env)
        if d is None and isinstance(it, ast.Attribute) and it.attr == 'attrs':
            d = self.dom_term(it.value, env)
        if d is None:
            d = ('positional', 'iteration over ' + U(it))
        return V('slices', d, self.attrs_term(evname, env))

    def elementwise(self, node, vals, rep):
        arrs = [v for v in vals if v.kind == 'arr']
        facs = [v for v in vals if v.kind == 'fac']
        deps = frozenset().union(*[v.deps for v in vals]) if vals else frozenset()
        if arrs and not facs:
            lay = arrs[0].a
            if len(arrs) == 2:
                # D padded with singleton axes up to the rank of E, broadcast against an array laid out by E = merge(D, ..): merge lists
                # D's attributes first, so the padded axes line up with E's trailing attributes
                for x, y in ((arrs[0], arrs[1]), (arrs[1], arrs[0])):
                    if isinstance(x.a, tuple) and x.a[0] == 'pad' and isinstance(y.a, tuple) and y.a[0] == 'merge' and y.a[1] == x.a[1] \
                            and any(isinstance(f_, tuple) and f_[0] == 'padded-to' and f_[1] == y.a for f_ in (x.flags or ())):
                        rep('elementwise', node, True, 'operand laid out by %s, padded to the rank of %s, broadcast against %s' % (show(x.a[1]), show(y.a), show(y.a)))
                        return V('arr', y.a, deps=deps)
            if len(arrs) > 1:
                same = all(a.a == lay for a in arrs)
                rep('elementwise', node, same, 'operands laid out by ' + ' / '.join(show(a.a) for a in arrs))
                if not same:
                    return V('arr', ('positional', 'mixed layouts'), deps=deps)
            fl = frozenset().union(*[a.flags for a in arrs])
            return V('arr', lay, deps=deps, flags=fl)
        if facs and not arrs:
            if len(facs) == 1:
                return V('fac', facs[0].a, deps=deps)
            d = facs[0].a
            for f in facs[1:]:
                d = ('merge', d, f.a)
            return V('fac', d, deps=deps)
        if facs and arrs:
            return UNK
        if all(v.kind == 'scalar' for v in vals):
            return SCALAR
        if any(v.kind == 'seq' for v in vals):
            return V('seq')
        return UNK

    def axis_value(self, ax, env):
        """abstract value of an axis argument expression"""
        # D.axes([a])[0] : the position of one attribute
        if isinstance(ax, ast.Subscript) and isinstance(ax.slice, ast.Constant) and ax.slice.value == 0:
            inner = self.axis_value(ax.value, env)
            if inner.kind == 'axes':
                return inner
        if isinstance(ax, ast.Call) and isinstance(ax.func, ast.Name) and ax.func.id in ('tuple', 'list') \
                and len(ax.args) == 1:
            whole = self.ev(ax, env, quiet=True)           # tuple(D.attrs.index(a) for a in S) is D.axes(S)
            if whole.kind == 'axes':
                return whole
            return self.axis_value(ax.args[0], env)
        if isinstance(ax, ast.Name):
            return env.get(ax.id, UNK)
        v = self.ev(ax, env, quiet=True)
        return v

    def reduce(self, node, arr, axis_expr, env, rep, keepdims=False):
        if axis_expr is None or (isinstance(axis_expr, ast.Constant) and axis_expr.value is None):
            return SCALAR
        av = self.axis_value(axis_expr, env)
        if av.kind == 'none':
            # axis=None through a local: every axis is reduced; with keepdims the result still broadcasts against the operand
            return V('arr', arr.a, deps=arr.deps, flags={'kept:all'}) if keepdims else SCALAR
        if av.kind == 'axes' and isinstance(arr.a, tuple) and arr.a[0] == 'varying':
            # the operand's layout changes along the way (a loop consuming axes) but the lookup domain does not
            rep('axis-by-name', node, False,
                'axes looked up on the fixed domain %s for an operand whose layout changes between iterations (%s): after the first '
                'axis is consumed the positions are stale' % (show(av.a), ' / '.join(sorted(show(t) for t in arr.a[1]))))
            return V('arr', ('positional', 'stale axes'), deps=arr.deps)
        if av.kind == 'axes':
            ok = av.a == arr.a
            rep('axis-by-name', node, ok,
                'axes looked up on %s for an operand laid out by %s' % (show(av.a), show(arr.a)))
            if ok and keepdims:
                # reduced axes are kept with length 1: broadcasts against the operand, same layout
                return V('arr', arr.a, deps=arr.deps, flags={'kept:' + repr(av.b)})
            if ok:
                return V('arr', ('marginalize', arr.a, av.b), deps=arr.deps)
            return V('arr', ('positional', 'foreign axes'), deps=arr.deps)
        rep('axis-by-name', node, False,
            'axis argument `%s` is not a name->position lookup on the operand\'s own domain' % U(axis_expr))
        return V('arr', ('positional', 'axis ' + U(axis_expr)), deps=arr.deps)

    def ev_call(self, e, env, quiet, rep):
        kind, name = self.np_func(e)
        f = e.func
        kw = {k.arg: k.value for k in e.keywords if k.arg}
        # ---- Factor construction: the central obligation -----------------------
        if self.is_factor_ctor(e) and len(e.args) == 2:
            D = self.dom_term(e.args[0], env)
            val = self.ev(e.args[1], env, quiet)
            if D is None:
                raise AnalysisError('%s:%d: cannot resolve the domain argument of `%s`'
                                    % (self.fi.rel, e.lineno, U(e)[:80]))
            if val.kind != 'arr':
                raise AnalysisError('%s:%d: cannot type the values argument of `%s` (unrecognised idiom)'
                                    % (self.fi.rel, e.lineno, U(e)[:80]))
            ok = val.a == D and 'partial' not in val.flags
            rep('construct', e, ok, 'Factor over %s given values laid out by %s%s'
                % (show(D), show(val.a), ' (not broadcast)' if 'partial' in val.flags else ''))
            return V('fac', D, deps=val.deps)
        # ---- domain-valued ------------------------------------------------------
        d = self.dom_term(e, env)
        if d is not None:
            return V('dom', d)
        if kind == 'meth' and name == 'canonical' and len(e.args) == 1:
            E = self.dom_term(f.value, env)
            if E is not None:
                return V('attrs', ('canonical', E, self.attrs_term(e.args[0], env)))
        if kind == 'np' and name in ('isin', 'in1d') and len(e.args) == 2 and not kw:
            # np.isin(D.attrs, list(S)): the membership mask of S over the axes of D
            x = e.args[0]
            if isinstance(x, ast.Call) and U(x.func) in ('np.array', 'np.asarray', 'list', 'tuple') and len(x.args) == 1:
                x = x.args[0]
            D = self.dom_term(x.value, env) if isinstance(x, ast.Attribute) and x.attr == 'attrs' else None
            if D is not None:
                y = e.args[1]
                if isinstance(y, ast.Call) and U(y.func) in ('list', 'tuple', 'sorted') and len(y.args) == 1:
                    return V('mask', D, self.attrs_term(y.args[0], env))
                yv = self.ev(y, env, quiet=True)
                if isinstance(y, (ast.List, ast.Tuple)) or (yv.kind == 'attrs' and not (isinstance(yv.a, tuple) and yv.a[0] == 'var')):
                    return V('mask', D, self.attrs_term(y, env))
                rep('axis-by-name', e, False,
                    'membership mask of the requested attributes over %s: `%s` hands the request `%s` to numpy as it came; a set, frozenset or '
                    'dict view becomes a 0-d object array holding the container, no name matches and NOTHING is aggregated (callers pass sets); '
                    'materialise it with list(..) first' % (show(D), U(e), U(y)))
                return V('mask', D, ('expr', 'nothing'))
        if kind == 'np' and name == 'argsort' and len(e.args) == 1 and not kw:
            av = self.axis_value(e.args[0], env)
            if av.kind == 'axes':
                return V('order', av.a, av.b)         # argsort of looked-up positions: which own axis comes first, second, ... in the other domain
            if av.kind == 'order':
                return V('rank', av.a, av.b)          # argsort of that: the rank of every own axis
        if kind == 'np' and name in ('flatnonzero',) and len(e.args) == 1:
            m = self.ev(e.args[0], env, quiet)
            if m.kind == 'mask':
                return V('axes', m.a, m.b)
        if kind == 'meth' and name == 'tolist' and not e.args:
            r_ = self.ev(f.value, env, quiet)
            if r_.kind == 'axes':
                return r_
        if kind == 'meth' and name == 'axes' and len(e.args) == 1:
            D = self.dom_term(f.value, env)
            if D is not None:
                return V('axes', D, self.attrs_term(e.args[0], env))
        if kind == 'fn' and name in ('tuple', 'list') and len(e.args) == 1:
            a = e.args[0]
            # tuple(D.attrs.index(a) for a in S)  ==  D.axes(S)
            if isinstance(a, (ast.GeneratorExp, ast.ListComp)) and len(a.generators) == 1 and \
                    not a.generators[0].ifs and isinstance(a.elt, ast.Call) and \
                    isinstance(a.elt.func, ast.Attribute) and a.elt.func.attr == 'index' and \
                    isinstance(a.elt.func.value, ast.Attribute) and a.elt.func.value.attr == 'attrs' and \
                    len(a.elt.args) == 1 and U(a.elt.args[0]) == U(a.generators[0].target):
                D = self.dom_term(a.elt.func.value.value, env)
                if D is not None:
                    return V('axes', D, self.attrs_term(a.generators[0].iter, env))
            inner = self.ev(a, env, quiet)
            if inner.kind in ('axes', 'attrs', 'slices', 'seq', 'newaxes', 'rank', 'order'):
                return inner
            return V('seq')
        if kind == 'fn' and name in ('logsumexp', 'amax', 'amin') and e.args and 'axis' in kw:
            arr = self.ev(e.args[0], env, quiet)
            if arr.kind == 'arr':
                return self.reduce(e, arr, kw.get('axis'), env, rep, self.truthy(kw.get('keepdims')))
        if kind == 'fn' and name in ('len', 'int', 'float', 'range', 'abs', 'min', 'max', 'sum'):
            return SCALAR if name != 'range' else V('seq')
        # ---- numpy vocabulary -----------------------------------------------------
        if kind == 'np':
            if name in ALLOC_NP and e.args:
                D = self.shape_of(e.args[0], env)
                if D is not None:
                    return V('arr', D)
                return V('arr', ('positional', 'shape ' + U(e.args[0])))
            if name in ('rand', 'randn', 'random') and e.args and isinstance(e.args[0], ast.Starred):
                D = self.shape_of(e.args[0].value, env)
                if D is not None:
                    return V('arr', D)
            if name in ('isscalar',):
                return SCALAR
            if name in REDUCERS and e.args:
                arr = self.ev(e.args[0], env, quiet)
                if arr.kind != 'arr':
                    return SCALAR if arr.kind == 'scalar' else UNK
                ax = kw.get('axis', e.args[1] if len(e.args) > 1 else None)
                return self.reduce(e, arr, ax, env, rep, self.truthy(kw.get('keepdims')))
            if name == 'squeeze' and e.args:
                arr = self.ev(e.args[0], env, quiet)
                return self.squeeze(e, arr, kw.get('axis', e.args[1] if len(e.args) > 1 else None), env, rep)
            if name == 'moveaxis' and len(e.args) == 3:
                return self.moveaxis(e, env, quiet, rep)
            if name == 'transpose' and e.args:
                arr = self.ev(e.args[0], env, quiet)
                ax = kw.get('axes', e.args[1] if len(e.args) > 1 else None)
                return self.transpose_arr(e, arr, ax, env, rep)
            if name == 'broadcast_to' and len(e.args) == 2:
                arr = self.ev(e.args[0], env, quiet)
                D = self.shape_of(e.args[1], env)
                if arr.kind == 'arr' and D is not None:
                    ok = arr.a == D
                    tr_ = env.get('__trailing__')
                    if not ok and tr_ is not None and (arr.a, D) in (tr_.a or ()):
                        ok = True          # established on this path: the array's attributes are the trailing attributes of D, in order
                    rep('broadcast', e, ok, 'array laid out by %s broadcast to the shape of %s' % (show(arr.a), show(D)))
                    return V('arr', D if ok else ('positional', 'broadcast mismatch'), deps=arr.deps)
                return UNK
            if name in ('reshape',) and len(e.args) == 2:
                arr = self.ev(e.args[0], env, quiet)
                return self.reshape(e, arr, e.args[1], env)
            if name in ('copyto',) and len(e.args) == 2:
                dst, src = self.ev(e.args[0], env, quiet), self.ev(e.args[1], env, quiet)
                if dst.kind == 'arr' and src.kind == 'arr':
                    rep('inplace', e, dst.a == src.a, 'copy of array laid out by %s into array laid out by %s'
                        % (show(src.a), show(dst.a)))
                return UNK
            if name in ('dot', 'inner', 'vdot', 'matmul', 'tensordot') and len(e.args) >= 2:
                # positional pairing of the cells of two arrays: they must be laid out alike
                vals = [self.ev(a, env, quiet) for a in e.args[:2]]
                self.elementwise(e, vals, rep)
                return SCALAR
            if name in ELEMENTWISE_NP:
                vals = [self.ev(a, env, quiet) for a in e.args]
                for k in ('where', 'out'):
                    if k in kw:
                        vals.append(self.ev(kw[k], env, quiet))
                return self.elementwise(e, vals, rep)
            if name in ('histogramdd', 'eye', 'arange', 'nonzero', 'modf', 'repeat', 'append'):
                return UNK
            return UNK
        # ---- methods ------------------------------------------------------------
        if kind == 'meth':
            recv = self.ev(f.value, env, quiet)
            if recv.kind == 'arr':
                if name in REDUCERS:
                    ax = kw.get('axis', e.args[0] if e.args else None)
                    return self.reduce(e, recv, ax, env, rep, self.truthy(kw.get('keepdims')))
                if name == 'squeeze':
                    return self.squeeze(e, recv, kw.get('axis', e.args[0] if e.args else None), env, rep)
                if name == 'take' and e.args:
                    # V.take(i, axis=A): indexing one attribute away
                    ax = kw.get('axis', e.args[1] if len(e.args) > 1 else None)
                    return self.reduce(e, recv, ax, env, rep)
                if name in ('flatten', 'ravel') and (e.args or 'order' in kw):
                    o = kw.get('order', e.args[0] if e.args else None)
                    ok = isinstance(o, ast.Constant) and o.value == 'C'
                    rep('axis-by-name', e, ok,
                        'the cells of a table laid out by %s are enumerated in row-major order of that domain (order=\'C\', the default); '
                        '`%s` follows the MEMORY layout instead, which for a transposed / projected view is the order of some other domain'
                        % (show(recv.a) if recv.kind == 'arr' else '?', U(e)))
                if name in ('copy', 'astype', 'flatten', 'ravel', 'clip'):
                    return recv
                if name == 'reshape' and len(e.args) == 1:
                    return self.reshape(e, recv, e.args[0], env)
                if name == 'transpose':
                    ax = e.args[0] if len(e.args) == 1 else None
                    return self.transpose_arr(e, recv, ax, env, rep)
                return UNK
            if recv.kind == 'unk' and name == 'reshape' and len(e.args) == 1:
                # Factor.__init__: the values parameter, by contract laid out by the domain parameter
                D = self.shape_of(e.args[0], env)
                if D is not None and isinstance(f.value, ast.Name) and self.kinds.get(f.value.id) == 'array_of':
                    return V('arr', D, deps={f.value.id})
                return UNK
            if recv.kind == 'unk' and name == 'expand' and len(e.args) == 1 and not kw and not self.kinds.get(U(f.value)):
                # X.expand(D): only factors are expanded, and the result is laid out by D whatever X's own order is
                t = self.dom_term(e.args[0], env)
                if t is not None:
                    return V('fac', t, deps={U(f.value)})
            if recv.kind == 'fac':
                D = recv.a
                if name == 'expand' and len(e.args) == 1:
                    t = self.dom_term(e.args[0], env)
                    return V('fac', t, deps=recv.deps) if t is not None else UNK
                if name in ('transpose', 'project') and e.args:
                    return V('fac', ('project', D, self.attrs_term(e.args[0], env)), deps=recv.deps)
                if name in ('sum', 'logsumexp', 'max'):
                    if not e.args and not kw:
                        return SCALAR
                    return V('fac', ('marginalize', D, self.attrs_term(e.args[0] if e.args else kw.get('attrs'), env)),
                             deps=recv.deps)
                if name == 'condition' and e.args:
                    return V('fac', ('marginalize', D, self.attrs_term(e.args[0], env)), deps=recv.deps)
                if name in ('copy', 'exp', 'log'):
                    return V('fac', D, deps=recv.deps)
                if name in ('__add__', '__mul__', '__sub__', '__truediv__', 'logaddexp') and len(e.args) == 1:
                    o = self.ev(e.args[0], env, quiet)
                    return self.elementwise(e, [recv, o], rep)
                if name == 'datavector':
                    return V('arr', D, deps=recv.deps)
                return UNK
            if recv.kind == 'dom' and name in ('size',):
                return SCALAR
            # Factor.zeros(D) etc. (static constructors)
            if isinstance(f.value, ast.Name) and f.value.id in self.factor_names or \
                    (isinstance(f.value, ast.Attribute) and f.value.attr == 'Factor'):
                if name in ('zeros', 'ones', 'random', 'uniform') and e.args:
                    D = self.dom_term(e.args[0], env)
                    if D is not None:
                        return V('fac', D)
                if name == 'active' and e.args:
                    D = self.dom_term(e.args[0], env)
                    if D is not None:
                        return V('fac', D)
            return UNK
        return UNK

    @staticmethod
    def truthy(e):
        return isinstance(e, ast.Constant) and bool(e.value)

    def squeeze(self, node, arr, axis_expr, env, rep):
        if arr.kind != 'arr':
            return UNK
        kept = [f for f in arr.flags if f.startswith('kept:')]
        if axis_expr is not None and self.axis_value(axis_expr, env).kind == 'none' and 'kept:all' in arr.flags:
            return SCALAR
        if axis_expr is None and 'kept:all' in arr.flags:
            return SCALAR
        if axis_expr is None or not kept:
            return V('arr', ('positional', 'squeeze'), deps=arr.deps)
        av = self.axis_value(axis_expr, env)
        if av.kind == 'axes' and av.a == arr.a and 'kept:' + repr(av.b) in arr.flags:
            return V('arr', ('marginalize', arr.a, av.b), deps=arr.deps)
        rep('axis-by-name', node, False, 'squeeze axes `%s` are not the kept, name-derived axes of the operand' % U(axis_expr))
        return V('arr', ('positional', 'squeeze'), deps=arr.deps)

    def reshape(self, node, arr, shape, env):
        from ..normalise import expand
        if isinstance(shape, ast.Name) and env.get(shape.id) is None or (isinstance(shape, ast.Name) and env[shape.id].kind in ('unk', 'seq', 'scalar')):
            d_ = self.defs.single(shape.id)
            shape = d_ if isinstance(d_, (ast.ListComp, ast.GeneratorExp)) else expand(shape, self.defs)
        # V.reshape(D.shape + tuple([1]*k))  |  + (1,)*k
        if isinstance(shape, ast.BinOp) and isinstance(shape.op, ast.Add):
            D = self.shape_of(shape.left, env)
            if D is not None and arr.kind == 'arr' and self.is_ones_pad(shape.right):
                if arr.a == D:
                    # how many singleton axes: `len(E) - len(D)` pads D up to the rank of E (recorded for broadcasting against E)
                    upto = None
                    k_ = shape.right
                    if isinstance(k_, ast.Call) and isinstance(k_.func, ast.Name) and k_.func.id == 'tuple' and len(k_.args) == 1:
                        k_ = k_.args[0]
                    if isinstance(k_, ast.BinOp) and isinstance(k_.op, ast.Mult):
                        cnt = k_.right if isinstance(k_.left, (ast.List, ast.Tuple)) else k_.left
                        cnt = expand(cnt, self.defs)
                        if isinstance(cnt, ast.BinOp) and isinstance(cnt.op, ast.Sub) and all(
                                isinstance(x, ast.Call) and U(x.func) == 'len' and len(x.args) == 1 for x in (cnt.left, cnt.right)):
                            big, small = self.dom_term(cnt.left.args[0], env), self.dom_term(cnt.right.args[0], env)
                            if small == D and big is not None:
                                upto = big
                    return V('arr', ('pad', D), deps=arr.deps, flags={('padded-to', upto)} if upto is not None else frozenset())
                return V('arr', ('positional', 'reshape of %s by the shape of %s' % (show(arr.a), show(D))), deps=arr.deps)
        pad = self.pad_shape(shape, env)
        if pad is not None and arr.kind == 'arr':
            # reshape to [E[a] if a in X else 1 for a in E]: correct exactly when the array's axes are the attributes of X in E's order
            E, X = pad
            lay = arr.a
            if isinstance(lay, tuple) and lay[0] == 'project' and lay[2][0] == 'canonical' and lay[2][1] == E \
                    and same_attr_set(lay[2][2], ('attrsof', lay[1])) and same_attr_set(X, ('attrsof', lay[1])):
                return V('arr', E, deps=arr.deps, flags={'partial'})
            return V('arr', ('positional', 'reshape into the shape of %s of an array laid out by %s (its axes are not known to be in %s order)'
                             % (show(E), show(lay), show(E))), deps=arr.deps)
        D = self.shape_of(shape, env)
        if D is not None and arr.kind == 'arr':
            if arr.a == D:
                return arr
            return V('arr', ('positional', 'reshape of %s by the shape of %s' % (show(arr.a), show(D))), deps=arr.deps)
        if arr.kind == 'arr':
            return V('arr', ('positional', 'reshape ' + U(shape)), deps=arr.deps)
        return UNK

    def pad_shape(self, e, env):
        """[E[a] if a in X else 1 for a in E] (list / tuple / generator)  ->  (E term, attrs term of X)"""
        while isinstance(e, ast.Call) and isinstance(e.func, ast.Name) and e.func.id in ('tuple', 'list') and len(e.args) == 1:
            e = e.args[0]
        if not isinstance(e, (ast.ListComp, ast.GeneratorExp)) or len(e.generators) != 1 or e.generators[0].ifs:
            return None
        g = e.generators[0]
        zipped_size = None
        if isinstance(g.target, ast.Tuple) and len(g.target.elts) == 2 and all(isinstance(x, ast.Name) for x in g.target.elts) \
                and isinstance(g.iter, ast.Call) and U(g.iter.func) == 'zip' and len(g.iter.args) == 2 and isinstance(e.elt, ast.IfExp):
            # (n if a in X else 1 for a, n in zip(E.attrs, E.shape)): the size comes along with the attribute
            ia, ish = g.iter.args
            E1 = self.dom_term(ia.value, env) if isinstance(ia, ast.Attribute) and ia.attr == 'attrs' else self.dom_term(ia, env)
            E2 = self.dom_term(ish.value, env) if isinstance(ish, ast.Attribute) and ish.attr == 'shape' else None
            if E1 is None or E1 != E2:
                return None
            zipped_size = g.target.elts[1].id
            g = ast.comprehension(target=g.target.elts[0], iter=ia, ifs=[], is_async=0)
        if not isinstance(g.target, ast.Name) or not isinstance(e.elt, ast.IfExp):
            return None
        a = g.target.id
        E = self.dom_term(g.iter, env)
        if E is None and isinstance(g.iter, ast.Attribute) and g.iter.attr == 'attrs':
            E = self.dom_term(g.iter.value, env)
        if E is None:
            return None
        t, body, orelse = e.elt.test, e.elt.body, e.elt.orelse
        neg = False
        if isinstance(t, ast.UnaryOp) and isinstance(t.op, ast.Not):
            t, neg = t.operand, True
        if not (isinstance(t, ast.Compare) and len(t.ops) == 1 and isinstance(t.left, ast.Name) and t.left.id == a):
            return None
        if isinstance(t.ops[0], ast.NotIn):
            neg = not neg
        elif not isinstance(t.ops[0], ast.In):
            return None
        if neg:
            body, orelse = orelse, body
        if not (isinstance(orelse, ast.Constant) and orelse.value == 1):
            return None
        size_ok = (isinstance(body, ast.Subscript) and U(body.slice) == a and
                   (self.dom_term(body.value, env) == E or (isinstance(body.value, ast.Attribute) and body.value.attr == 'config'
                                                            and self.dom_term(body.value.value, env) == E))) or \
                  (isinstance(body, ast.Call) and isinstance(body.func, ast.Attribute) and body.func.attr == 'size'
                   and self.dom_term(body.func.value, env) == E and len(body.args) == 1 and U(body.args[0]) in (a, '[%s]' % a))
        if zipped_size is not None:
            size_ok = isinstance(body, ast.Name) and body.id == zipped_size
        if not size_ok:
            return None
        return E, self.attrs_term(t.comparators[0], env)

    @staticmethod
    def is_ones_pad(e):
        # tuple([1]*k) | (1,)*k | [1]*k
        if isinstance(e, ast.Call) and isinstance(e.func, ast.Name) and e.func.id == 'tuple' and len(e.args) == 1:
            e = e.args[0]
        if isinstance(e, ast.BinOp) and isinstance(e.op, ast.Mult):
            for side in (e.left, e.right):
                if isinstance(side, (ast.List, ast.Tuple)) and len(side.elts) == 1 and \
                        isinstance(side.elts[0], ast.Constant) and side.elts[0].value == 1:
                    return True
        return False

    def moveaxis(self, e, env, quiet, rep):
        arr = self.ev(e.args[0], env, quiet)
        if arr.kind != 'arr':
            return UNK
        src, dst = e.args[1], e.args[2]
        dv = self.axis_value(dst, env)
        sv = self.axis_value(src, env)
        base = arr.a[1] if arr.a[0] == 'pad' else arr.a
        padded = arr.a[0] == 'pad'

        from ..normalise import expand

        def is_leading_range(x, other, other_val):
            # range(len(ax)) - ax the other side, or anything with as many elements as the looked-up attribute list
            x = expand(x, self.defs)
            if not (isinstance(x, ast.Call) and isinstance(x.func, ast.Name) and x.func.id == 'range'
                    and len(x.args) == 1 and isinstance(x.args[0], ast.Call)
                    and isinstance(x.args[0].func, ast.Name) and x.args[0].func.id == 'len'
                    and len(x.args[0].args) == 1):
                return False
            a = x.args[0].args[0]
            if U(a) == U(other) or U(a) == U(expand(other, self.defs)):
                return True
            if other_val.kind in ('rank', 'order'):
                av_ = self.axis_value(a, env)             # range(len(ax)) against the ranks / argsort of that very lookup
                if av_.kind in ('axes', 'rank', 'order') and (av_.a, av_.b) == (other_val.a, other_val.b):
                    return True
            return other_val.kind in ('axes', 'rank', 'order') and self.attrs_term(a, env) == other_val.b

        for perm, rng, rng_is_src in ((dv, src, True), (sv, dst, False)):
            if perm.kind in ('rank', 'order') and not padded and is_leading_range(rng, dst if rng_is_src else src, perm):
                # own axes reordered among themselves into the order they have in E
                E, S = perm.a, perm.b
                want = 'rank' if rng_is_src else 'order'
                ok = S == ('attrsof', base) and perm.kind == want
                rep('axis-by-name', e, ok,
                    'own axes of an array laid out by %s reordered into their order in %s: moveaxis(%s) needs the %s of the looked-up positions '
                    '%s.axes(%s) on that side, the source gives their %s%s' % (
                        show(base), show(E), 'range -> destinations' if rng_is_src else 'sources -> range',
                        'ranks' if want == 'rank' else 'argsort', show(E), show(S), 'ranks' if perm.kind == 'rank' else 'argsort',
                        '' if perm.kind == want else ' (the INVERSE permutation: right only when it is its own inverse, e.g. two attributes)'))
                if ok:
                    return V('arr', ('project', base, ('canonical', E, ('attrsof', base))), deps=arr.deps)
                return V('arr', ('positional', 'moveaxis by the inverse permutation'), deps=arr.deps)
        if dv.kind == 'axes' and is_leading_range(src, dst, dv):
            # V : D0 (its leading axes are D0's attributes); destination = E.axes(attrs(D0))
            E, S = dv.a, dv.b
            ok = S == ('attrsof', base)
            rep('axis-by-name', e, ok,
                'leading axes of an array laid out by %s moved to the positions %s.axes(%s)'
                % (show(base), show(E), show(S)))
            if ok:
                if padded and ('padded-to', E) in arr.flags and isinstance(E, tuple) and E[0] == 'project' and E[1] == base:
                    padded = False     # padded up to the rank of a projection of its OWN domain: at most as many attributes, no axis was added
                return V('arr', E, deps=arr.deps, flags={'partial'} if padded else ())
            return V('arr', ('positional', 'moveaxis to foreign positions'), deps=arr.deps)
        if sv.kind == 'axes' and is_leading_range(dst, src, sv) and not padded:
            # moveaxis(V, D0.axes(S), range(len)) : the attributes S of D0 become the leading axes
            D0, S = sv.a, sv.b
            ok = D0 == base
            rep('axis-by-name', e, ok, 'axes %s.axes(%s) of an array laid out by %s moved to the front'
                % (show(D0), show(S), show(base)))
            if ok:
                # complete permutation only if S covers D0: layout project(D0, S) when it does
                return V('arr', ('project', base, S), deps=arr.deps, flags={'front-only'})
            return V('arr', ('positional', 'moveaxis from foreign positions'), deps=arr.deps)
        rep('axis-by-name', e, False, 'moveaxis(%s, %s): neither side is range(len(ax)) paired with a '
            'name lookup on the operand\'s own domain' % (U(src), U(dst)))
        return V('arr', ('positional', 'moveaxis'), deps=arr.deps)

    def transpose_arr(self, e, arr, ax, env, rep):
        if arr.kind != 'arr':
            return UNK
        if ax is None:
            return V('arr', ('positional', 'reversed axes'), deps=arr.deps)
        av = self.axis_value(ax, env)
        if av.kind in ('rank', 'order'):
            ok = av.b == ('attrsof', arr.a) and av.kind == 'order'
            rep('axis-by-name', e, ok,
                'own axes of an array laid out by %s reordered into their order in %s: transpose(axes) lists for every NEW position the old axis '
                '(the argsort of the looked-up positions); the source gives their %s%s' % (
                    show(arr.a), show(av.a), 'argsort' if av.kind == 'order' else 'ranks',
                    '' if av.kind == 'order' else ' (the INVERSE permutation: right only when it is its own inverse, e.g. two attributes)'))
            if ok:
                return V('arr', ('project', arr.a, ('canonical', av.a, ('attrsof', arr.a))), deps=arr.deps)
            return V('arr', ('positional', 'transpose by the inverse permutation'), deps=arr.deps)
        if av.kind == 'axes':
            ok = av.a == arr.a
            rep('axis-by-name', e, ok, 'transpose by %s.axes(%s) of an array laid out by %s'
                % (show(av.a), show(av.b), show(arr.a)))
            if ok:
                return V('arr', ('project', arr.a, av.b), deps=arr.deps)
        else:
            rep('axis-by-name', e, False, 'transpose axes `%s` not a name lookup on the operand\'s own domain' % U(ax))
        return V('arr', ('positional', 'transpose'), deps=arr.deps)

    # -- statements -------------------------------------------------------------
    def on_assign(self, st, s):
        value = s.value
        if value is None:
            return st
        val = self.ev(value, st)
        targets = s.targets if isinstance(s, ast.Assign) else [s.target]
        for t in targets:
            if isinstance(t, ast.Name):
                # dims = len(E) - len(D0) etc. are scalars
                st[t.id] = val
            elif isinstance(t, (ast.Tuple, ast.List)):
                for n in target_names(t):
                    st[n] = UNK
            elif isinstance(t, ast.Attribute) and isinstance(t.value, ast.Name):
                self.attr_store(st, t, val, s)
            elif isinstance(t, ast.Subscript):
                base = self.ev(t.value, st, quiet=True)
                idx = self.ev(t.slice, st, quiet=True)
                if base.kind == 'arr' and idx.kind == 'arr':
                    self.report('elementwise', s, base.a == idx.a,
                                'mask laid out by %s applied to array laid out by %s' % (show(idx.a), show(base.a)))
                if base.kind == 'arr' and val.kind == 'arr' and isinstance(t.value, ast.Name):
                    st[t.value.id] = V('arr', base.a, deps=base.deps | val.deps, flags=base.flags)
        return st

    def attr_store(self, st, t, val, s):
        pass

    def on_augassign(self, st, s):
        val = self.ev(s.value, st)
        t = s.target
        if isinstance(t, ast.Attribute) and t.attr == 'values':
            cur = self.ev(t, st, quiet=True)
            if val.kind == 'arr':
                self.report('inplace', s, cur.a == val.a,
                            'in-place update of values laid out by %s with an array laid out by %s'
                            % (show(cur.a), show(val.a)))
            obj = U(t.value)
            self.inplace_deps = getattr(self, 'inplace_deps', set()) | set(val.deps) | {obj}
        elif isinstance(t, ast.Name):
            cur = st.get(t.id, UNK)
            if cur.kind == 'arr' and val.kind == 'arr':
                self.report('elementwise', s, cur.a == val.a, 'in-place op between arrays laid out by %s and %s'
                            % (show(cur.a), show(val.a)))
                st[t.id] = V('arr', cur.a, deps=cur.deps | val.deps, flags=cur.flags)
            elif cur.kind == 'fac' and val.kind == 'fac':
                st[t.id] = V('fac', cur.a, deps=cur.deps | val.deps)
        return st

    def on_expr(self, st, e, s):
        self.ev(e, st)
        return st

    def on_bind(self, st, target, it, s):
        for n in target_names(target):
            st[n] = UNK
        return st

    def on_return(self, st, s):
        if s.value is not None:
            self.return_values.append((s, self.ev(s.value, st), dict(st)))
        return st

    def on_assert(self, st, s):
        # assert flag in [c1, c2, ...]  -> finite flag domain used to prune infeasible branches
        t = s.test
        if isinstance(t, ast.Compare) and len(t.ops) == 1 and isinstance(t.ops[0], ast.In) and \
                isinstance(t.left, ast.Name) and isinstance(t.comparators[0], (ast.List, ast.Tuple, ast.Set)) and \
                all(isinstance(c, ast.Constant) for c in t.comparators[0].elts):
            st['#flag:' + t.left.id] = V('flagdom', frozenset(repr(c.value) for c in t.comparators[0].elts))
        return st

    def refine(self, st, test, truth):
        # `if np.isscalar(x)`: x is a scalar on the true branch
        t = test
        if isinstance(t, ast.BoolOp) and isinstance(t.op, ast.And) and truth:
            for v_ in t.values:                      # every conjunct holds on the true branch
                st = self.refine(st, v_, True)
                if st is None:
                    return None
            return st
        if isinstance(t, ast.BoolOp) and isinstance(t.op, ast.Or) and truth:
            # `a == X.attrs or a == list(X.attrs)`: every disjunct states the same equality (up to a list/tuple wrapper)
            def strip(x):
                while isinstance(x, ast.Call) and isinstance(x.func, ast.Name) and x.func.id in ('list', 'tuple') and len(x.args) == 1:
                    x = x.args[0]
                return x
            eqs = [v_ for v_ in t.values if isinstance(v_, ast.Compare) and len(v_.ops) == 1 and isinstance(v_.ops[0], ast.Eq)]
            if len(eqs) == len(t.values):
                keys = {tuple(sorted((U(strip(v_.left)), U(strip(v_.comparators[0]))))) for v_ in eqs}
                if len(keys) == 1:
                    v0 = eqs[0]
                    same = ast.Compare(left=strip(v0.left), ops=[ast.Eq()], comparators=[strip(v0.comparators[0])])
                    return self.refine(st, same, True)
            return st
        if isinstance(t, ast.BoolOp) and isinstance(t.op, ast.Or) and not truth:
            for v_ in t.values:
                st = self.refine(st, v_, False)
                if st is None:
                    return None
            return st
        # `E.attrs[k:] == D.attrs` (k = len(E) - len(D)): D's attributes ARE the trailing attributes of E, in order - numpy broadcasting aligns
        # trailing axes, so an array laid out by D broadcasts correctly to the shape of E
        if truth and isinstance(t, ast.Compare) and len(t.ops) == 1 and isinstance(t.ops[0], ast.Eq):
            for a_, b_ in ((t.left, t.comparators[0]), (t.comparators[0], t.left)):
                if isinstance(a_, ast.Subscript) and isinstance(a_.slice, ast.Slice) and a_.slice.lower is not None and a_.slice.upper is None and a_.slice.step is None \
                        and isinstance(a_.value, ast.Attribute) and a_.value.attr == 'attrs' and isinstance(b_, ast.Attribute) and b_.attr == 'attrs':
                    E, D = self.dom_term(a_.value.value, st), self.dom_term(b_.value, st)
                    from ..normalise import expand
                    k = expand(a_.slice.lower, self.defs)
                    kt = U(k).replace(' ', '')
                    if E is not None and D is not None and kt == 'len(%s)-len(%s)' % (U(a_.value.value), U(b_.value)):
                        st = dict(st)
                        st['__trailing__'] = V('seq', frozenset(getattr(st.get('__trailing__'), 'a', frozenset()) | {(D, E)}))
                        return st
        if isinstance(t, ast.Call) and isinstance(t.func, ast.Attribute) and t.func.attr == 'isscalar' \
                and len(t.args) == 1 and isinstance(t.args[0], ast.Name):
            if truth:
                st[t.args[0].id] = SCALAR
        # `len(axes) == 0` / `not axes` with axes = D.axes(S): no attribute is named, so marginalising S out of D leaves D
        empty_of = None
        if isinstance(t, ast.Compare) and len(t.ops) == 1 and isinstance(t.left, ast.Call) and U(t.left.func) == 'len' and len(t.left.args) == 1 \
                and isinstance(t.comparators[0], ast.Constant) and t.comparators[0].value == 0 and isinstance(t.ops[0], (ast.Eq, ast.NotEq)):
            if truth == isinstance(t.ops[0], ast.Eq):
                empty_of = t.left.args[0]
        elif isinstance(t, ast.UnaryOp) and isinstance(t.op, ast.Not) and truth:
            empty_of = t.operand
        elif isinstance(t, (ast.Name, ast.Attribute)) and not truth:
            empty_of = t
        if empty_of is not None:
            S = D = None
            v_ = st.get(empty_of.id) if isinstance(empty_of, ast.Name) else None
            if isinstance(v_, V) and v_.kind == 'axes':
                D, S = v_.a, v_.b
            elif isinstance(empty_of, ast.Name) and empty_of.id in self.fi.params:
                S = self.attrs_term(empty_of, st)
            if S is not None:
                old = st.get('#subst')
                pairs = set(old.a) if old is not None else set()
                doms = [D] if D is not None else [('domof', 'self')]
                for d_ in doms:
                    pairs.add((('marginalize', d_, S), d_))
                    for k, v in list(st.items()):
                        if isinstance(v, V) and v.kind in ('fac', 'arr', 'dom', 'axes'):
                            st[k] = V(v.kind, replace_term(v.a, ('marginalize', d_, S), d_), replace_term(v.b, ('marginalize', d_, S), d_) if v.b else v.b,
                                      deps=v.deps, flags=v.flags)
                st['#subst'] = V('subst', frozenset(pairs))
                return st
        if isinstance(t, ast.Compare) and len(t.ops) == 1 and isinstance(t.ops[0], (ast.Eq, ast.NotEq)):
            # `if A.domain == B.domain:` (Domain.__eq__ is order-sensitive): unify the two terms on the equal branch
            l_, r_ = t.left, t.comparators[0]
            if isinstance(l_, ast.Attribute) and isinstance(r_, ast.Attribute) and l_.attr == 'attrs' and r_.attr == 'attrs':
                l_, r_ = l_.value, r_.value          # equal attribute TUPLES: same attributes in the same order, i.e. the same layout
            da, db = self.dom_term(l_, st), self.dom_term(r_, st)
            # `tuple(S) == X.domain.attrs`: X's domain is the projection of itself onto the sequence S (all its attributes, in S's order)
            for a_, b_ in ((t.left, t.comparators[0]), (t.comparators[0], t.left)):
                if isinstance(a_, ast.Attribute) and a_.attr == 'attrs' and not (isinstance(b_, ast.Attribute) and b_.attr == 'attrs'):
                    dx = self.dom_term(a_.value, st)
                    sx = self.attrs_term(b_, st)
                    if dx is not None and sx is not None and sx[0] == 'var':
                        da, db = dx, ('project', dx, sx)
            if da is not None and db is not None and da != db and truth == isinstance(t.ops[0], ast.Eq):
                def occurs(x, y):
                    return x == y or (isinstance(y, tuple) and any(occurs(x, z) for z in y))
                if occurs(db, da):
                    da, db = db, da          # rewrite the compound term to the one it is built from, not the other way round
                old = st.get('#subst')
                pairs = set(old.a) if old is not None else set()
                pairs.add((db, da))
                for k, v in list(st.items()):
                    if isinstance(v, V) and v.kind in ('fac', 'arr', 'dom', 'axes'):
                        st[k] = V(v.kind, replace_term(v.a, db, da), replace_term(v.b, db, da) if v.b else v.b,
                                  deps=v.deps, flags=v.flags)
                st['#subst'] = V('subst', frozenset(pairs))
                return st
        if isinstance(t, ast.Compare) and len(t.ops) == 1 and isinstance(t.ops[0], (ast.Eq, ast.NotEq)) and \
                isinstance(t.left, ast.Name) and isinstance(t.comparators[0], ast.Constant):
            key = '#flag:' + t.left.id
            dom = st.get(key)
            if dom is not None:
                c = repr(t.comparators[0].value)
                if isinstance(t.ops[0], ast.NotEq):
                    truth = not truth
                new = (dom.a & {c}) if truth else (dom.a - {c})
                if not new:
                    return None
                st[key] = V('flagdom', frozenset(new))
        return st

    def on_funcdef(self, st, node):
        return st

    def unsupported(self, st, stmt):
        raise AnalysisError('%s:%s: unsupported construct %s in layout typing'
                            % (self.fi.rel, getattr(stmt, 'lineno', '?'), type(stmt).__name__))

    def analyse(self):
        self.exits(self.fi.body, dict(self.env0))
        return self.return_values

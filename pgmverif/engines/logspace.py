"""E3 - log-space normalisation typestate.

Every log-quantity is abstracted by an additive *form*: a set of signed atoms
    q(place)                 an opaque log-quantity held in a variable / container element
    red(kind, inner, full)   logsumexp / max reduction of the form `inner` (full or along axes)
    logt(text)               log of a scalar expression (the total)
    logx(roots)              log of an array / factor expression
    logsum(roots)            log of a sum-reduction of an array
    nt(text) / n             "some value normalised to total text" / "some shift-normalised value"
    prod(text), call(text), num   opaque products, calls, numbers
and a `scaled` flag (multiplied by a scalar, assumed non-negative).

classify(form):
    TOTALNORM(T)  form == R + log T - logsumexp_full(R)      (sums to T after exp)
    NORM          form == [scalar *] (R - logsumexp|max(R)) [+ scalars]   (cannot overflow)
    LOGLIN        only logs of linear quantities              (cannot overflow)
    RAW           otherwise
Comparison of R with the reduction's inner form is modulo container elements
(`beliefs[cl]` ~ `beliefs`): calibrated beliefs share their normaliser.
"""
import ast

from ..absint import Structured
from ..srcmodel import AnalysisError, U, target_names

RAW, NORM, TOTALNORM, LOGLIN, LIN = 'RAW', 'NORM', 'TOTALNORM', 'LOGLIN', 'LIN'
SHAPE_ONLY = {'transpose', 'expand', 'copy', 'reshape', 'flatten', 'ravel', 'datavector', 'astype', 'squeeze'}


class Form:
    __slots__ = ('terms', 'scaled')

    def __init__(self, terms=(), scaled=False):
        self.terms = frozenset(terms)
        self.scaled = scaled

    def __eq__(self, o):
        return isinstance(o, Form) and self.terms == o.terms and self.scaled == o.scaled

    def __hash__(self):
        return hash((self.terms, self.scaled))

    def add(self, o, sign=1):
        """multiset sum: coefficients of equal atoms are added (x - x cancels, log T + log T stays 2 log T)"""
        coef = {}
        for s, a in self.terms:
            coef[a] = coef.get(a, 0) + s
        for s, a in o.terms:
            coef[a] = coef.get(a, 0) + s * sign
        return Form({(c, a) for a, c in coef.items() if c != 0}, self.scaled or o.scaled)

    def neg(self):
        return Form({(-s, a) for s, a in self.terms}, self.scaled)

    def atoms(self, kind, sign=None):
        return [(s, a) for s, a in self.terms if a[0] == kind and (sign is None or s == sign)]

    def __repr__(self):
        def sh(a):
            if a[0] == 'red':
                return '%s%s(%s)' % (a[1], '' if a[3] else '_axis', Form(a[2]))
            return '%s(%s)' % (a[0], ','.join(str(x) for x in a[1:])) if len(a) > 1 else a[0]
        body = ' '.join(('+' if s > 0 else '-') + sh(a) for s, a in sorted(self.terms, key=repr))
        return ('scaled*[' + body + ']') if self.scaled else (body or '0')


def q(place):
    return Form({(1, ('q', place))})


def root_of(place):
    out = place
    i = out.find('[')
    if i >= 0:
        out = out[:i]
    return out


def rootify(terms):
    out = set()
    for s, a in terms:
        if a[0] == 'num':
            continue
        if a[0] == 'q':
            out.add((s, ('q', root_of(a[1]))))
        elif a[0] == 'red':
            out.add((s, ('red', a[1], rootify(a[2]), a[3])))
        else:
            out.add((s, a))
    return frozenset(out)


def classify(form):
    """-> (cls, total_text|None)"""
    terms = form.terms
    core = {(s, a) for s, a in terms if a[0] != 'num'}
    if len(core) == 1:
        (s, a), = core
        if s == 1 and a[0] == 'nt' and not form.scaled:
            return TOTALNORM, a[1]
        if s == 1 and a[0] in ('n', 'nt'):
            return NORM, None
        if s == 1 and a[0] == 'lin':
            return LIN, None
    if any(a[0] == 'lin' for s, a in core):
        return RAW, None
    best = (RAW, None)
    for s, a in core:
        if s == -1 and a[0] == 'red':
            rest = core - {(s, a)}
            logts = [(s2, a2) for s2, a2 in rest if a2[0] == 'logt' and s2 >= 1]
            for drop in [None] + logts:
                r = set(rest)
                if drop is not None:        # take one unit of log T out of the rest
                    r.discard(drop)
                    if drop[0] > 1:
                        r.add((drop[0] - 1, drop[1]))
                if not r:
                    continue
                if rootify(r) == rootify(a[2]):
                    if a[1] == 'lse' and a[3] and drop is not None and not form.scaled:
                        return TOTALNORM, drop[1][1]
                    best = (NORM, None)
    if best[0] == NORM:
        return best
    # log X + log T - log sum X
    lx = [a for s, a in core if s == 1 and a[0] == 'logx']
    lt = [a for s, a in core if s == 1 and a[0] == 'logt']
    ls = [a for s, a in core if s == -1 and a[0] == 'logsum']
    if len(core) == 3 and len(lx) == 1 and len(lt) == 1 and len(ls) == 1 and lx[0][1] == ls[0][1] and not form.scaled:
        return TOTALNORM, lt[0][1]
    if core and all(a[0] in ('logx', 'logt', 'logsum') for s, a in core):
        return LOGLIN, None
    return RAW, None


class Site:
    def __init__(self, node, stmt, operand, form, cls, total, how):
        self.node, self.stmt, self.operand, self.form = node, stmt, operand, form
        self.cls, self.total, self.how = cls, total, how


def clone_store(e):
    from ..srcmodel import clone
    t = clone(e)
    for n in ast.walk(t):
        if hasattr(n, 'ctx'):
            n.ctx = ast.Load()
    t.ctx = ast.Store()
    return t


class LogSpace(Structured):
    """Analyse one function; collects exponentiation sites and element stores of exp results."""

    def __init__(self, fi, scalar_names=()):
        super().__init__()
        self.fi = fi
        self.sites = {}          # id(node) -> Site (last evaluation = weakest loop-head state)
        self.stores = {}         # container text -> {id(stmt): (stmt, cls, total)}
        self.returned = []       # (stmt, value expr, Form, env snapshot)
        self.scalar_names = set(scalar_names)
        self.inits = {}          # container -> init expr text

    # ---- lattice: env place -> Form; missing = opaque q(place) -------------------------
    def copy(self, st):
        return dict(st)

    def join(self, a, b):
        out = {}
        for k in set(a) | set(b):
            fa, fb = a.get(k), b.get(k)
            if fa is None:
                fa = q(k)
            if fb is None:
                fb = q(k)
            if fa == fb:
                if k in a and k in b:
                    out[k] = fa
                continue
            ca, cb = classify(fa), classify(fb)
            if ca[0] == TOTALNORM and cb[0] == TOTALNORM and ca[1] == cb[1]:
                out[k] = Form({(1, ('nt', ca[1]))})
            elif ca[0] in (NORM, TOTALNORM) and cb[0] in (NORM, TOTALNORM):
                out[k] = Form({(1, ('n',))})
            elif ca[0] == LIN and cb[0] == LIN:
                out[k] = fa if fa == fb else Form({(1, ('lin', RAW, None))})
            # else: dropped -> opaque
        return out

    # ---- helpers ---------------------------------------------------------------------
    def place(self, e):
        if isinstance(e, (ast.Name, ast.Attribute, ast.Subscript)):
            try:
                return U(e)
            except Exception:
                return None
        return None

    def lookup(self, e, env):
        p = self.place(e)
        if p is None:
            return None
        if p in env:
            return env[p]
        return q(p)

    def kill_name(self, env, name):
        for k in list(env):
            try:
                toks = {n.id for n in ast.walk(ast.parse(k, mode='eval')) if isinstance(n, ast.Name)}
            except SyntaxError:
                toks = set()
            root = root_of(k)
            if name in toks and root != name:
                del env[k]
            elif root == name and k != name:
                del env[k]          # elements of a rebound container
        env.pop(name, None)

    def is_np(self, call, names):
        f = call.func
        d = self.fi.module.dotted(f) if isinstance(f, (ast.Attribute, ast.Name)) else None
        if d is None:
            return None
        last = d.split('.')[-1]
        if last in names and (d.startswith('numpy.') or d.startswith('scipy.') or d.startswith('math.')):
            return last
        return None

    def roots_in(self, e):
        return frozenset(sorted({n.id for n in ast.walk(e) if isinstance(n, ast.Name)} - {'np', 'numpy', 'math'}))

    # ---- expression -> Form -----------------------------------------------------------
    def form(self, e, env, stmt=None):
        if isinstance(e, ast.Constant):
            return Form({(1, ('num',))})
        if isinstance(e, (ast.Name, ast.Attribute, ast.Subscript)):
            if isinstance(e, ast.Name) and e.id in self.scalar_names:
                return Form({(1, ('num',))})
            if isinstance(e, ast.Attribute) and e.attr == 'values' and self.place(e) not in env:
                return self.form(e.value, env, stmt)        # the array of a factor carries the factor's form
            return self.lookup(e, env)
        if isinstance(e, ast.UnaryOp):
            f = self.form(e.operand, env, stmt)
            return f.neg() if isinstance(e.op, ast.USub) else f
        if isinstance(e, ast.BinOp):
            if isinstance(e.op, ast.Add):
                return self.form(e.left, env, stmt).add(self.form(e.right, env, stmt))
            if isinstance(e.op, ast.Sub):
                return self.form(e.left, env, stmt).add(self.form(e.right, env, stmt), -1)
            if isinstance(e.op, (ast.Mult, ast.Div)):
                a, b = self.form(e.left, env, stmt), self.form(e.right, env, stmt)
                return self.scale(e, a, b, isinstance(e.op, ast.Div))
            self.form(e.left, env, stmt)
            self.form(e.right, env, stmt)
            return Form({(1, ('prod', U(e)))})
        if isinstance(e, ast.IfExp):
            a, b = self.form(e.body, env, stmt), self.form(e.orelse, env, stmt)
            return a if a == b else Form({(1, ('call', U(e)))})
        if isinstance(e, ast.Call):
            return self.call(e, env, stmt)
        # comprehensions etc: scan for nested exp sites
        for ch in ast.iter_child_nodes(e):
            if isinstance(ch, ast.expr):
                self.form(ch, env, stmt)
            elif isinstance(ch, ast.comprehension):
                self.form(ch.iter, env, stmt)
                for i in ch.ifs:
                    self.form(i, env, stmt)
        return Form({(1, ('call', U(e)[:60]))})

    @staticmethod
    def negative_scalar(e):
        if isinstance(e, ast.UnaryOp) and isinstance(e.op, ast.USub):
            return True
        if isinstance(e, ast.Constant) and isinstance(e.value, (int, float)) and e.value < 0:
            return True
        if isinstance(e, ast.BinOp) and isinstance(e.op, (ast.Mult, ast.Div)):
            return LogSpace.negative_scalar(e.left) != LogSpace.negative_scalar(e.right) \
                if isinstance(e.op, ast.Mult) else LogSpace.negative_scalar(e.left)
        return False

    def scale(self, node, a, b, div):
        ca, cb = classify(a)[0], classify(b)[0]
        if ca in (NORM, TOTALNORM) and cb not in (NORM, TOTALNORM):
            if self.negative_scalar(node.right):
                return Form({(1, ('prod', U(node)))})
            return Form(a.terms, True)
        if not div and cb in (NORM, TOTALNORM) and ca not in (NORM, TOTALNORM):
            if self.negative_scalar(node.left):
                return Form({(1, ('prod', U(node)))})
            return Form(b.terms, True)
        if all(t[1][0] == 'num' for t in a.terms) and all(t[1][0] == 'num' for t in b.terms):
            return Form({(1, ('num',))})
        return Form({(1, ('prod', U(node)))})

    def call(self, e, env, stmt):
        f = e.func
        kw = {k.arg: k.value for k in e.keywords if k.arg}
        # nested evaluation of arguments first (to record inner sites)
        argforms = [self.form(a, env, stmt) if not isinstance(a, ast.Starred) else None for a in e.args]
        for k in e.keywords:
            if k.arg != 'out':
                self.form(k.value, env, stmt)
        meth = f.attr if isinstance(f, ast.Attribute) else None
        npname = self.is_np(e, {'exp', 'log', 'log1p', 'max', 'amax', 'logsumexp', 'softmax', 'sum', 'abs', 'sign',
                                'nextafter', 'sqrt'})
        # ---- exponentiation sites -----------------------------------------------------
        if npname == 'exp' and e.args:
            d = self.fi.module.dotted(f)
            if d and d.startswith('math.'):
                return Form({(1, ('num',))})
            return self.exp_site(e, e.args[0], argforms[0], env, stmt, kw.get('out'))
        if npname == 'softmax' and e.args:
            cls = classify(argforms[0])
            self.sites[id(e)] = Site(e, stmt, e.args[0], argforms[0], NORM, None, 'softmax (shift-stable by itself)')
            return Form({(1, ('lin', NORM, None))})
        if meth == 'exp' and npname is None and not e.args:
            recv = self.form(f.value, env, stmt)
            return self.exp_site(e, f.value, recv, env, stmt, kw.get('out'))
        # ---- reductions ------------------------------------------------------------------
        if npname in ('logsumexp', 'max', 'amax') and e.args:
            full = 'axis' not in kw and len(e.args) == 1
            inner = argforms[0]
            red = Form({(1, ('red', 'lse' if npname == 'logsumexp' else 'max', inner.terms, full))})
            if npname == 'logsumexp' and 'b' in kw:
                # logsumexp(x, b=B) with a scalar weight B is logsumexp(x) + log B:  B = T -> + log T,  B = 1/T -> - log T
                B = kw['b']
                if isinstance(B, (ast.Name, ast.Attribute)):
                    return red.add(Form({(1, ("logt", U(B)))}))
                if isinstance(B, ast.BinOp) and isinstance(B.op, ast.Div) and isinstance(B.left, ast.Constant) and B.left.value in (1, 1.0) \
                        and isinstance(B.right, (ast.Name, ast.Attribute)):
                    return red.add(Form({(1, ("logt", U(B.right)))}), -1)
                return Form({(1, ('call', U(e)[:80]))})
            return red
        if meth in ('logsumexp', 'max') and npname is None:
            inner = self.form(f.value, env, stmt)
            full = not e.args and 'axis' not in kw and 'attrs' not in kw
            return Form({(1, ('red', 'lse' if meth == 'logsumexp' else 'max', inner.terms, full))})
        # ---- logs ----------------------------------------------------------------------------
        if npname in ('log',) and e.args:
            a = e.args[0]
            if isinstance(a, ast.Name):
                # a local holding a hoisted sub-expression (`mass = x0.sum()`): look through it
                from ..normalise import Defs, expand
                if getattr(self, '_defs', None) is None:
                    self._defs = Defs(self.fi.body)
                a = expand(a, self._defs)
            # `T if T > 0 else <fallback>`: the total is positive for every input the properties quantify over, so this IS T
            # (a guard such as `T >= 1` is not implied by positivity and stays a conditional)
            if isinstance(a, ast.IfExp) and isinstance(a.test, ast.Compare) and len(a.test.ops) == 1:
                from ..srcmodel import canon_compare
                t_ = canon_compare(a.test)
                l_, r_, op_ = U(t_.left), U(t_.comparators[0]), type(t_.ops[0])
                pos = (r_ in ('0', '0.0') and op_ in (ast.Gt, ast.NotEq)) or (l_ in ('0', '0.0') and op_ is ast.Lt)
                subject = l_ if r_ in ('0', '0.0') else r_
                if pos and subject == U(a.body) and subject.endswith('total'):
                    a = a.body
            if isinstance(a, (ast.Name, ast.Attribute)) or isinstance(a, ast.Constant):
                return Form({(1, ('logt', U(a)))})
            if isinstance(a, ast.Call) and isinstance(a.func, ast.Attribute) and a.func.attr == 'sum' and not a.args:
                return Form({(1, ('logsum', self.roots_in(a.func.value)))})
            if isinstance(a, ast.Call) and self.is_np(a, {'sum'}) and len(a.args) == 1 and not a.keywords:
                return Form({(1, ('logsum', self.roots_in(a.args[0])))})
            return Form({(1, ('logx', self.roots_in(a)))})
        if meth == 'log' and npname is None and not e.args:
            return Form({(1, ('logx', self.roots_in(f.value)))})
        # ---- shape-only wrappers -------------------------------------------------------------
        if meth in SHAPE_ONLY and npname is None:
            return self.form(f.value, env, stmt)
        if isinstance(f, ast.Name) and f.id in ('float', 'tuple', 'list') and len(e.args) == 1:
            return argforms[0]
        if ((isinstance(f, ast.Name) and f.id == 'Factor') or (isinstance(f, ast.Attribute) and f.attr == 'Factor')) and len(e.args) == 2 \
                and not e.keywords:
            return argforms[1]                              # Factor(domain, values): the factor carries the form of its array
        if meth is not None:
            self.form(f.value, env, stmt)
        # a module-level helper of the same module: analyse its body with the parameters bound to the argument forms
        if isinstance(f, ast.Name) and f.id in self.fi.module.funcs and getattr(self, 'depth', 0) < 3 \
                and self.fi.module.funcs[f.id] is not self.fi:
            h = self.fi.module.funcs[f.id]
            if len(h.params) >= len(e.args):
                sub = LogSpace(h, self.scalar_names)
                sub.depth = getattr(self, 'depth', 0) + 1
                init = {p: a for p, a in zip(h.params, argforms) if a is not None}
                sub.exits(h.body, init)
                self.sites.update(sub.sites)
                outs = [fr for s_, v_, fr, en_ in sub.returned]
                if outs and all(o == outs[0] for o in outs):
                    return outs[0]
        return Form({(1, ('call', U(e)[:80]))})

    def exp_site(self, node, operand, form, env, stmt, out):
        cls, total = classify(form)
        self.sites[id(node)] = Site(node, stmt, operand, form, cls, total, '')
        res = Form({(1, ('lin', cls, total))})
        if out is not None:
            p = self.place(out)
            if p:
                env[p] = res
        return res

    # ---- statements -----------------------------------------------------------------------
    def on_assign(self, st, s):
        if s.value is None:
            return st
        targets = s.targets if isinstance(s, ast.Assign) else [s.target]
        # tuple-to-tuple assignment evaluates pairwise
        for t in targets:
            if isinstance(t, (ast.Tuple, ast.List)) and isinstance(s.value, (ast.Tuple, ast.List)) and \
                    len(t.elts) == len(s.value.elts):
                forms = [self.form(v, st, s) for v in s.value.elts]
                for tt, f in zip(t.elts, forms):
                    self.bind(st, tt, f, s)
                continue
            f = self.form(s.value, st, s)
            if isinstance(t, (ast.Tuple, ast.List)):
                for n in target_names(t):
                    self.kill_name(st, n)
                continue
            if isinstance(t, ast.Name) and isinstance(s.value, (ast.Dict, ast.DictComp, ast.Call)):
                self.inits[t.id] = U(s.value)[:80]
            self.bind(st, t, f, s)
        return st

    def bind(self, st, target, form, stmt):
        p = self.place(target)
        if p is None:
            return
        if isinstance(target, ast.Name):
            self.kill_name(st, target.id)
        elif isinstance(target, ast.Subscript):
            cont = self.place(target.value)
            cls, total = classify(form)
            if cls == LIN:
                (s_, a), = [(s_, a) for s_, a in form.terms if a[0] == 'lin']
                self.stores.setdefault(cont, {})[id(stmt)] = (stmt, a[1], a[2])
            else:
                self.stores.setdefault(cont, {})[id(stmt)] = (stmt, 'non-exp:' + cls, None)
        # an opaque self-reference is the default; store anything else
        if form == q(p):
            st.pop(p, None)
        else:
            st[p] = form

    def on_augassign(self, st, s):
        p = self.place(s.target)
        cur = self.lookup(s.target, st) if p else None
        val = self.form(s.value, st, s)
        if p is None:
            return st
        if isinstance(s.op, ast.Add):
            new = cur.add(val)
        elif isinstance(s.op, ast.Sub):
            new = cur.add(val, -1)
        elif isinstance(s.op, (ast.Mult, ast.Div)):
            fake = ast.BinOp(left=s.target, op=s.op, right=s.value)
            new = self.scale(fake, cur, val, isinstance(s.op, ast.Div))
        else:
            new = Form({(1, ('prod', U(s)))})
        if isinstance(s.target, ast.Name):
            # elements etc. depending on the name are stale, the name itself gets the new form
            self.kill_name(st, s.target.id)
        st[p] = new
        return st

    def on_expr(self, st, e, s):
        # `X.exp(out=X)` / `np.exp(X, out=X)` as a statement: the element is replaced by its exponential (same as X = X.exp(out=X))
        if isinstance(s, ast.Expr) and isinstance(e, ast.Call):
            out = next((k.value for k in e.keywords if k.arg == 'out'), None)
            f = e.func
            src = None
            if isinstance(f, ast.Attribute) and f.attr == 'exp' and not e.args:
                src = f.value
            elif self.is_np(e, {'exp'}) and len(e.args) == 1:
                src = e.args[0]
            if out is not None and src is not None and self.place(out) is not None and self.place(out) == self.place(src):
                fake = ast.copy_location(ast.Assign(targets=[clone_store(out)], value=e), s)
                ast.fix_missing_locations(fake)
                return self.on_assign(st, fake)

        self.form(e, st, s)
        return st

    def on_bind(self, st, target, it, s):
        for n in target_names(target):
            self.kill_name(st, n)
        return st

    def on_return(self, st, s):
        if s.value is not None:
            f = self.form(s.value, st, s)
            self.returned.append((s, s.value, f, dict(st)))
        return st

    def on_assert(self, st, s):
        return st

    def on_funcdef(self, st, node):
        return st

    def unsupported(self, st, stmt):
        raise AnalysisError('%s:%s: unsupported construct %s in log-space analysis'
                            % (self.fi.rel, getattr(stmt, 'lineno', '?'), type(stmt).__name__))

    def analyse(self):
        self.exits(self.fi.body, {})
        return list(self.sites.values())

"""Memo tables that live on an object (or on its class) between calls.

    self.T = {}                      (constructor)            |  T = {}  (class body: ONE table for every instance)
    def m(self, x):
        [stamp = <digest of what the entries depend on>; if self._stamp != stamp: self._stamp, self.T = stamp, {}]
        key = K(x)
        if key not in self.T: ...; self.T[key] = V            |  if key in self.T: return self.T[key] ... self.T[key] = V; return self.T[key]
        return self.T[key]
    single slot:  if self.C is None: self.C = V ... self.C

`judge(norm, node)` is run by the normalising front-end on the (cloned) method before anything else.  A table whose entries are
*the value the method would compute now* is looked through (the method is rewritten to compute V unconditionally); a table that is
recognisably not is left alone and recorded as a memo issue:
    scope      a class-level container whose entries depend on the instance
    key        the key does not determine V (a parameter V depends on is missing; frozenset / sorted key for an order-dependent V;
               tuple(x) taken before a bare string x is wrapped, so 'xy' and ['x','y'] share a key)
    staleness  V reads an attribute that can change after construction and neither the key nor a by-VALUE stamp covers it (an id() /
               `is` stamp does not notice in-place updates)
    ownership  the cached object itself (a mutable one) is handed to the caller
Anything else about such a table is not recognised and left to the rules (which then fail closed on the unfamiliar statements).
"""
import ast

from ..srcmodel import U, clone, target_names

IMMUTABLE_CTORS = {'tuple', 'frozenset', 'str', 'int', 'float', 'bool', 'len', 'Domain', 'sum', 'min', 'max'}
SCALAR_ATTRS = {'total'}
MUTATORS = {'append', 'extend', 'add', 'update', 'pop', 'clear', 'setdefault', 'popitem', 'remove', 'insert', 'sort', 'combine'}
BUILTINS = {'self', 'set', 'frozenset', 'tuple', 'list', 'dict', 'len', 'sorted', 'next', 'None', 'True', 'False', 'zip', 'range', 'enumerate', 'sum', 'min',
            'max', 'abs', 'any', 'all', 'isinstance', 'type', 'str', 'int', 'float', 'getattr', 'hasattr', 'id', 'reversed', 'map', 'filter', 'print'}


def is_empty_dict(v):
    return (isinstance(v, ast.Dict) and not v.keys) or (isinstance(v, ast.Call) and U(v.func) == 'dict' and not v.args and not v.keywords)


def self_attr(n):
    return n.attr if isinstance(n, ast.Attribute) and isinstance(n.value, ast.Name) and n.value.id == 'self' else None


class ClassInfo:
    def __init__(self, repo, module, clsname):
        self.module, self.clsname = module, clsname
        self.methods = {q.split('.', 1)[1]: fi for q, fi in module.funcs.items() if fi.cls is not None and fi.cls.name == clsname and q.count('.') == 1}
        cdef = module.classes.get(clsname)
        self.class_level = {}
        for st in (cdef.body if cdef is not None else []):
            if isinstance(st, ast.Assign) and len(st.targets) == 1 and isinstance(st.targets[0], ast.Name):
                self.class_level[st.targets[0].id] = st.value
        # constructor-time methods: __init__ and what only it (transitively) calls
        calls = {m: {c.func.attr for c in ast.walk(fi.node) if isinstance(c, ast.Call) and self_attr(c.func) is not None} & set(self.methods)
                 for m, fi in self.methods.items()}
        ctor = {'__init__'} if '__init__' in self.methods else set()
        changed = True
        while changed:
            changed = False
            for m in self.methods:
                if m in ctor:
                    continue
                callers = {c for c, cs in calls.items() if m in cs}
                if callers and callers <= ctor:
                    ctor.add(m)
                    changed = True
        self.ctor = ctor
        self.assigned_in = {}          # attr -> set of methods that (re)bind or mutate it
        for m, fi in self.methods.items():
            for n in ast.walk(fi.node):
                tgts = []
                if isinstance(n, ast.Assign):
                    for t in n.targets:
                        tgts.extend(t.elts if isinstance(t, (ast.Tuple, ast.List)) else [t])
                elif isinstance(n, (ast.AugAssign, ast.AnnAssign)):
                    tgts = [n.target]
                elif isinstance(n, ast.Delete):
                    tgts = n.targets
                elif isinstance(n, ast.Call) and isinstance(n.func, ast.Attribute) and n.func.attr in MUTATORS:
                    tgts = [n.func.value]
                for t in tgts:
                    while isinstance(t, ast.Subscript):
                        t = t.value
                    a = self_attr(t)
                    if a is not None:
                        self.assigned_in.setdefault(a, set()).add(m)
        self.foreign = foreign_assigned(repo)

    def scope(self, X):
        inits = [m for m, fi in self.methods.items() for n in ast.walk(fi.node)
                 if isinstance(n, ast.Assign) and any(self_attr(t) == X and (is_empty_dict(v) or U(v) == 'None') for t, v in pairs(n))]
        if any(m in self.ctor for m in inits):
            return 'instance'
        if X in self.class_level:
            return 'class'
        if inits:
            return 'lazy'
        return None

    def stable(self, a):
        where = self.assigned_in.get(a, set())
        return bool(where) and where <= self.ctor and a not in self.foreign


def foreign_assigned(repo):
    """attribute names bound from outside their object somewhere in the library (`model.total = total`, `model.potentials = theta`)"""
    cached = repo.__dict__.get('_foreign_assigned')
    if cached is not None:
        return cached
    from ..normalise import inventory
    out = set()
    for rel in inventory():
        if not repo.exists(rel):
            continue
        try:
            tree = repo.module(rel).tree
        except Exception:
            continue
        for n in ast.walk(tree):
            tgts = []
            if isinstance(n, ast.Assign):
                for t in n.targets:
                    tgts.extend(t.elts if isinstance(t, (ast.Tuple, ast.List)) else [t])
            elif isinstance(n, ast.AugAssign):
                tgts = [n.target]
            for t in tgts:
                while isinstance(t, ast.Subscript):
                    t = t.value
                if isinstance(t, ast.Attribute) and not (isinstance(t.value, ast.Name) and t.value.id == 'self'):
                    out.add(t.attr)
    repo.__dict__['_foreign_assigned'] = out
    return out


def names(e):
    return {x.id for x in ast.walk(e) if isinstance(x, ast.Name)}


def key_problem(K, raw_K, V_nodes, fn_node, guard):
    """why the key `K` (expanded) may fail to determine V; None if it does"""
    def lossy_or_str(e):
        if isinstance(e, ast.Tuple):
            for x in e.elts:
                r = lossy_or_str(x)
                if r:
                    return r
            return None
        if isinstance(e, ast.Call) and isinstance(e.func, ast.Name) and len(e.args) == 1 and isinstance(e.args[0], ast.Name):
            x = e.args[0].id
            if e.func.id in ('frozenset', 'set', 'sorted') or (e.func.id == 'tuple' and isinstance(e.args[0], ast.Call) and U(e.args[0].func) == 'sorted'):
                # order-forgetting: fine only if V never looks at x itself
                ktexts = {U(K), U(raw_K)}
                for vn in V_nodes:
                    for n in ast.walk(vn):
                        if isinstance(n, ast.Name) and n.id == x and isinstance(n.ctx, ast.Load):
                            par = getattr(n, '_mparent', None)
                            if par is not None and U(par) in ktexts:
                                continue
                            return ('the key `%s` forgets the order of `%s`, but the stored value is computed from `%s` in the order given: the first '
                                    'ordering seen answers for every later one' % (U(K), x, x))
                return None
            if e.func.id == 'tuple':
                # 'xy' and ['x', 'y'] have the same tuple(): the key must be taken after a bare string has been wrapped
                after = False
                for st in ast.walk(fn_node):
                    if st is guard:
                        after = True
                    if after and isinstance(st, ast.If):
                        t = U(st.test).replace(' ', '')
                        if t in ('type(%s)isstr' % x, 'isinstance(%s,str)' % x, 'type(%s)==str' % x):
                            return ('the key `%s` is taken before a bare string `%s` is wrapped into a list: the name \'xy\' and the pair '
                                    '[\'x\', \'y\'] get the same key but different values' % (U(K), x))
                return None
        return None
    return lossy_or_str(K)


def set_parents(node):
    for n in ast.walk(node):
        for ch in ast.iter_child_nodes(n):
            ch._mparent = n


def judge(norm, node):
    """-> set of table expressions ('self.X') valid for the loop-level de-memoisation; rewrites top-level uses in place; records issues"""
    from ..normalise import Defs, expand
    fi = norm.fi
    if fi.cls is None:
        return set()
    info = ClassInfo(norm.repo, norm.module, fi.cls.name)
    # ---- aliases of tables: cc = self.X --------------------------------------------------------------------------------------
    for st in list(ast.walk(node)):
        if isinstance(st, ast.Assign) and len(st.targets) == 1 and isinstance(st.targets[0], ast.Name) and self_attr(st.value) is not None \
                and info.scope(self_attr(st.value)) is not None and is_table(info, self_attr(st.value)):
            alias, attr = st.targets[0].id, st.value
            if sum(1 for n in ast.walk(node) if isinstance(n, ast.Name) and n.id == alias and isinstance(n.ctx, ast.Store)) != 1:
                continue

            class R(ast.NodeTransformer):
                def visit_Name(self, n):
                    if n.id == alias and isinstance(n.ctx, ast.Load):
                        return ast.copy_location(clone(attr), n)
                    return n
            for blk in blocks(node):
                if st in blk:
                    blk.remove(st)
            R().visit(node)
    set_parents(node)
    stamped_pair(norm, node, info)
    keyed_snapshot(norm, node, info)
    set_parents(node)
    class_level_coverage(norm, node, info)
    valid_in_loops = set()
    body = node.body
    params = {a.arg for a in node.args.posonlyargs + node.args.args + node.args.kwonlyargs} - {'self'}
    defs = Defs(body)
    for guard in [n for n in ast.walk(node) if isinstance(n, ast.If)]:
        form = guard_form(guard)
        if form is None:
            continue
        kind, X, raw_K = form
        scope = info.scope(X)
        if scope is None and lazily_created(guard) == X and info.assigned_in.get(X, set()) <= {fi.name}:
            scope = 'instance'
        if scope is None:
            continue
        in_loop = inside_loop(node, guard)
        top = guard in body
        if not in_loop and not top:
            continue
        if scope == 'lazy' and in_loop:
            continue          # created and emptied by this very method: judged by cross_call_memos
        # ---- the block that computes the value -----------------------------------------------------------------------------------
        if kind in ('A', 'slot'):
            blk = guard.body
            store = blk[-1] if blk else None
            pre = blk[:-1]
        else:
            i = body.index(guard)
            store = None
            for j in range(i + 1, len(body)):
                s = body[j]
                if isinstance(s, ast.Assign) and len(s.targets) == 1 and isinstance(s.targets[0], ast.Subscript) and self_attr(s.targets[0].value) == X \
                        and U(s.targets[0].slice) == U(raw_K):
                    store = s
                    pre = body[i + 1:j]
                    break
        ok_store = store is not None and isinstance(store, ast.Assign) and len(store.targets) == 1 and (
            (kind == 'slot' and self_attr(store.targets[0]) == X) or
            (kind != 'slot' and isinstance(store.targets[0], ast.Subscript) and self_attr(store.targets[0].value) == X and U(store.targets[0].slice) == U(raw_K)))
        if not ok_store:
            continue
        if any(isinstance(n, (ast.Return, ast.Break, ast.Continue)) for s in pre for n in ast.walk(s)):
            continue
        bdefs = Defs(list(pre))
        V = expand(expand(store.value, bdefs, comps=True), defs, comps=True)
        K = expand(raw_K, defs, comps=True) if raw_K is not None else None
        V_nodes = list(pre) + [store.value]
        # ---- dependencies ---------------------------------------------------------------------------------------------------------
        assigned_local = set()
        for s in pre:
            for n in ast.walk(s):
                if isinstance(n, (ast.Assign, ast.AugAssign, ast.For, ast.comprehension)):
                    for t in (n.targets if isinstance(n, ast.Assign) else [n.target]):
                        assigned_local |= set(target_names(t))
        comp_bound = {x.id for vn in V_nodes + [V] for c in ast.walk(vn) if isinstance(c, ast.comprehension) for x in ast.walk(c.target) if isinstance(x, ast.Name)}
        free = set()
        attrs = set()
        for vn in V_nodes + [V]:
            for n in ast.walk(vn):
                if isinstance(n, ast.Name) and isinstance(n.ctx, ast.Load):
                    free.add(n.id)
                a = self_attr(n)
                if a is not None and a != X:
                    attrs.add(a)
        free -= assigned_local | comp_bound | BUILTINS
        pdeps = free & params
        knames = names(K) if K is not None else set()
        kattrs = {self_attr(n) for n in ast.walk(K)} - {None} if K is not None else set()
        where = store
        issues = []
        # scope
        if scope == 'class' and (attrs or 'self' in free | {n.id for vn in V_nodes for n in ast.walk(vn) if isinstance(n, ast.Name)}):
            issues.append('<the table is a class attribute: ONE dictionary shared by every %s; its entries are computed from the instance (%s), so an '
                          'entry stored by one object answers for another>' % (fi.cls.name, ', '.join('self.' + a for a in sorted(attrs)) or 'self'))
        # key
        if kind != 'slot':
            missing = sorted(p for p in pdeps if p not in knames and not derived_in_key(p, K, defs))
            if missing:
                issues.append('<the key `%s` does not name %s>' % (U(K), missing))
            kp = key_problem(K, raw_K, V_nodes, node, guard)
            if kp:
                issues.append('<%s>' % kp)
        elif pdeps:
            issues.append('<a single remembered value cannot depend on the arguments %s>' % sorted(pdeps))
        # staleness
        stamp = stamp_prologue(node, guard, X, defs)
        unknown_stamp = False
        for a in sorted(attrs):
            if a in kattrs or info.stable(a) or is_method(info, a):
                continue
            cover = stamp['covers'].get(a) if stamp else None
            if cover == 'value':
                continue
            if cover == 'identity':
                issues.append('<the entries depend on self.%s, and the table is only emptied when the IDENTITY of self.%s changes (`%s`): an in-place '
                              'update (`self.%s[k] += ..`, `.combine(..)`) keeps the identity, so the old answers are returned for the new parameters>'
                              % (a, a, stamp['text'][:80], a))
                continue
            if cover == 'unknown':
                unknown_stamp = True
                continue
            issues.append('<the entries depend on self.%s, which can change after construction (assigned in %s%s); nothing empties the table when it does>'
                          % (a, sorted(info.assigned_in.get(a, [])) or 'no method of the class', ', and from outside the object' if a in info.foreign else ''))
        # ownership
        if not immutable_value(V):
            for r in ast.walk(node):
                if isinstance(r, ast.Return) and r.value is not None and hands_out(r.value, X, raw_K, node, kind):
                    issues.append('<`%s` hands the cached object itself to the caller: whatever the caller does to it in place is what later calls return>'
                                  % U(r)[:60])
                    break
        if issues:
            norm.memo_issues.append((where, 'self.' + X, U(raw_K) if raw_K is not None else '(single slot)', issues))
            continue
        if unknown_stamp:
            continue
        # ---- valid: look through --------------------------------------------------------------------------------------------------
        if in_loop and kind == 'A':
            valid_in_loops.add('self.' + X)
            continue
        if not top:
            continue
        tmp = norm.fresh('memo')
        new = list(pre) + [ast.copy_location(ast.Assign(targets=[ast.Name(id=tmp, ctx=ast.Store())], value=store.value), store)]
        if kind == 'B':
            i = body.index(guard)
            j = body.index(store)
            body[i:j + 1] = new
        else:
            i = body.index(guard)
            body[i:i + 1] = new
        ktext = U(raw_K) if raw_K is not None else None

        class R2(ast.NodeTransformer):
            def visit_Subscript(self, n):
                n = self.generic_visit(n)
                if kind != 'slot' and self_attr(n.value) == X and U(n.slice) == ktext and isinstance(n.ctx, ast.Load):
                    return ast.copy_location(ast.Name(id=tmp, ctx=ast.Load()), n)
                return n

            def visit_Attribute(self, n):
                n = self.generic_visit(n)
                if kind == 'slot' and self_attr(n) == X and isinstance(n.ctx, ast.Load):
                    return ast.copy_location(ast.Name(id=tmp, ctx=ast.Load()), n)
                return n
        k = body.index(new[-1])
        body[k + 1:] = [R2().visit(s) for s in body[k + 1:]]
        if stamp:
            for s in stamp['stmts']:
                if s in body:
                    body.remove(s)
        for s in body:
            ast.fix_missing_locations(s)
        set_parents(node)
        defs = Defs(body)
    return valid_in_loops


DETERMINED_BY = {'domain': {'attrs', 'shape'}}
DERIVED = {'graph': {'cliques', 'domain'}}          # JunctionTree.graph = _make_graph() of the cliques and the domain


def stamped_pair(norm, node, info):
    """A value remembered together with the scalar it was computed from:

        if getattr(self, 'X', (None, None))[0] != self.a:  self.X = (self.a, V)
        ... self.X[1] ...

    `self.X[1]` is V whenever V reads nothing of the object but the stamped scalar self.a (compared by value, so a re-assignment from
    outside is noticed) and X is bound nowhere else: the test and the store are dropped and the reads become V."""
    me = norm.fi.name
    for blk in blocks(node):
        for g in list(blk):
            if not (isinstance(g, ast.If) and not g.orelse and len(g.body) == 1 and isinstance(g.test, ast.Compare) and len(g.test.ops) == 1
                    and isinstance(g.test.ops[0], ast.NotEq)):
                continue
            st = g.body[0]
            if not (isinstance(st, ast.Assign) and len(st.targets) == 1 and self_attr(st.targets[0]) and isinstance(st.value, ast.Tuple) and len(st.value.elts) == 2):
                continue
            X = self_attr(st.targets[0])
            S, V = st.value.elts
            sides = [g.test.left, g.test.comparators[0]]
            cur = [e for e in sides if isinstance(e, ast.Subscript) and isinstance(e.slice, ast.Constant) and e.slice.value == 0]
            oth = [e for e in sides if e not in cur]
            if len(cur) != 1 or len(oth) != 1 or U(oth[0]) != U(S):
                continue
            c = cur[0].value
            if isinstance(c, ast.Call) and U(c.func) == 'getattr' and len(c.args) == 3 and U(c.args[0]) == 'self' and isinstance(c.args[1], ast.Constant) \
                    and c.args[1].value == X and isinstance(c.args[2], ast.Tuple) and len(c.args[2].elts) == 2 and U(c.args[2].elts[0]) == 'None':
                pass
            elif self_attr(c) == X and info.scope(X) == 'instance':
                pass
            else:
                continue
            if self_attr(S) not in SCALAR_ATTRS:
                continue
            vattrs = {self_attr(n) for n in ast.walk(V)} - {None}
            vnames = {n.id for n in ast.walk(V) if isinstance(n, ast.Name)} - BUILTINS - {'np', 'numpy', 'math'}
            binds = [n for n in ast.walk(node) if isinstance(n, (ast.Assign, ast.AugAssign)) and any(self_attr(t) == X for t in
                     (n.targets if isinstance(n, ast.Assign) else [n.target]))]
            if not (vattrs <= {self_attr(S)} and not vnames and info.assigned_in.get(X, set()) <= {me} and len(binds) == 1 and X not in info.foreign):
                continue
            reads = [n for n in ast.walk(node) if self_attr(n) == X and isinstance(n.ctx, ast.Load) and not any(n is x for x in ast.walk(g))]
            if not reads or not all(isinstance(getattr(n, '_parent', None), ast.Subscript) and isinstance(n._parent.slice, ast.Constant) and n._parent.slice.value == 1
                                    for n in reads):
                continue
            targets = {id(n._parent) for n in reads}

            class R(ast.NodeTransformer):
                def visit_Subscript(self, n):
                    if id(n) in targets:
                        return ast.copy_location(clone(V), n)
                    return self.generic_visit(n)
            blk.remove(g)
            R().visit(node)
            ast.fix_missing_locations(node)
            set_parents(node)


def keyed_snapshot(norm, node, info, rewrite=True):
    """A single remembered CONSTRUCTION, keyed by value:

        K = frozenset(A) | tuple(A) | tuple(sorted(A))
        if K == getattr(self, '_k', None) [and ..]:  x = copy.copy(self._v); x.f = p ...
        else:                                        x = C(.., A, .., p, ..); self._v = copy.copy(x)
        self._k = K

    is looked through (x = C(..) unconditionally) when the remembered object can only be what C(..) would build now:
      * self._v and self._k are bound by these two statements and nowhere else (this class, and never from outside), and the snapshot
        is taken straight after the construction (nothing done to x in between);
      * every constructor argument is the keyed collection A itself, an attribute of self fixed at construction time, or a value p that
        the constructor only stores (`self.f = p`) and the hit branch stores again.
    Trusted (recorded with the method): the constructed object depends on A only through what the key keeps of it (a model's structure
    is a function of its SET of cliques).  A slot that is written elsewhere as well - e.g. the fitted model of the previous call - is
    left alone: the rules then see state of an earlier call flowing into this one."""
    def copied(e):
        if isinstance(e, ast.Call) and U(e.func) in ('copy.copy', 'copy.deepcopy', 'copy', 'deepcopy') and len(e.args) == 1 and not e.keywords:
            return e.args[0]
        return None

    def slot_read(e):
        if isinstance(e, ast.Call) and U(e.func) == 'getattr' and len(e.args) == 3 and U(e.args[0]) == 'self' and isinstance(e.args[1], ast.Constant) \
                and U(e.args[2]) == 'None':
            return e.args[1].value
        return self_attr(e)
    me = norm.fi.name
    found = []
    for blk in blocks(node):
        for g in list(blk):
            if not isinstance(g, ast.If) or len(g.orelse) != 2 or not g.body:
                continue
            conj = g.test.values if isinstance(g.test, ast.BoolOp) and isinstance(g.test.op, ast.And) else [g.test]
            hit = None
            for c in conj:
                if isinstance(c, ast.Compare) and len(c.ops) == 1 and isinstance(c.ops[0], ast.Eq):
                    for a, b in ((c.left, c.comparators[0]), (c.comparators[0], c.left)):
                        if isinstance(a, ast.Name) and slot_read(b):
                            hit = (a.id, slot_read(b))
            if hit is None:
                continue
            K, kattr = hit
            build, snap = g.orelse
            if not (isinstance(build, ast.Assign) and len(build.targets) == 1 and isinstance(build.targets[0], ast.Name) and isinstance(build.value, ast.Call)):
                continue
            x, ctor = build.targets[0].id, build.value
            if not (isinstance(snap, ast.Assign) and len(snap.targets) == 1 and self_attr(snap.targets[0]) and copied(snap.value) is not None
                    and U(copied(snap.value)) == x):
                continue
            vattr = self_attr(snap.targets[0])
            first = g.body[0]
            if not (isinstance(first, ast.Assign) and len(first.targets) == 1 and U(first.targets[0]) == x and copied(first.value) is not None
                    and self_attr(copied(first.value)) == vattr):
                continue
            restored = {}
            ok = True
            for st in g.body[1:]:
                if isinstance(st, ast.Assign) and len(st.targets) == 1 and isinstance(st.targets[0], ast.Attribute) and U(st.targets[0].value) == x \
                        and isinstance(st.value, ast.Name):
                    restored[st.value.id] = st.targets[0].attr
                else:
                    ok = False
            i = blk.index(g)
            stamps = [st for st in blk[i + 1:] if isinstance(st, ast.Assign) and len(st.targets) == 1 and self_attr(st.targets[0]) == kattr and U(st.value) == K]
            if not ok or len(stamps) != 1:
                continue
            # ---- recognised: from here on the verdict is about validity -------------------------------------------------------------
            binds = {a: [n for n in ast.walk(node) if isinstance(n, (ast.Assign, ast.AugAssign)) and any(self_attr(t) == a for t in
                         (n.targets if isinstance(n, ast.Assign) else [n.target]))] for a in (vattr, kattr)}
            exclusive = all(info.assigned_in.get(a, set()) <= {me} and len(binds[a]) == 1 and a not in info.foreign for a in (vattr, kattr))
            kdefs = [n for n in ast.walk(node) if isinstance(n, ast.Assign) and len(n.targets) == 1 and U(n.targets[0]) == K]
            A = None
            if len(kdefs) == 1:
                kv = kdefs[0].value
                if isinstance(kv, ast.Call) and U(kv.func) in ('frozenset', 'tuple') and len(kv.args) == 1:
                    inner = kv.args[0]
                    if isinstance(inner, ast.Call) and U(inner.func) == 'sorted' and len(inner.args) == 1 and not inner.keywords:
                        inner = inner.args[0]
                    if isinstance(inner, ast.Name):
                        A = inner.id
            # the constructor: which parameter each argument binds, and what it does with the ones that are restored
            cname = U(ctor.func).split('.')[-1]
            init = None
            from ..normalise import inventory
            for rel in inventory():
                if norm.repo.exists(rel):
                    f_ = norm.repo.module(rel).funcs.get(cname + '.__init__')
                    if f_ is not None:
                        init = f_
                        break
            args_ok = A is not None and init is not None and not any(isinstance(a, ast.Starred) for a in ctor.args) and all(k.arg for k in ctor.keywords)
            if args_ok:
                bound = list(zip(init.params[1:], ctor.args)) + [(k.arg, k.value) for k in ctor.keywords]
                seen_A = False
                for p_, a in bound:
                    if isinstance(a, ast.Name) and a.id == A:
                        seen_A = True
                    elif self_attr(a) is not None and info.stable(self_attr(a)):
                        pass
                    elif isinstance(a, ast.Constant):
                        pass
                    elif isinstance(a, ast.Name) and a.id in restored:
                        uses = [n for n in ast.walk(init.node) if isinstance(n, ast.Name) and n.id == p_ and isinstance(n.ctx, ast.Load)]
                        stores = [n for n in ast.walk(init.node) if isinstance(n, ast.Assign) and len(n.targets) == 1 and self_attr(n.targets[0]) == restored[a.id]
                                  and isinstance(n.value, ast.Name) and n.value.id == p_]
                        if not (len(uses) == 1 and len(stores) == 1):
                            args_ok = False
                    else:
                        args_ok = False
                args_ok = args_ok and seen_A
            why = 'a snapshot of %s(..) taken straight after construction, keyed by `%s`' % (cname, U(kdefs[0].value) if kdefs else K)
            if not exclusive:
                why = 'self.%s / self.%s are bound elsewhere as well: what is found there need not be the construction for this key' % (vattr, kattr)
            elif not args_ok:
                why = 'the construction `%s` depends on more than the key `%s` and what the hit branch stores again' % (U(ctor)[:80], U(kdefs[0].value) if kdefs else K)
            found.append((vattr, kattr, exclusive and args_ok, why, g))
            if not (exclusive and args_ok) or not rewrite:
                continue          # left alone: the rules judge the remembered object as the cross-call state it is
            blk[i:i + 1] = [build]
            blk.remove(stamps[0])
    return found


def keyed_snapshots_of(repo, fi):
    """the keyed single-construction memos of a source method: [(value attr, key attr, valid, why, node)]"""
    import types
    if fi.cls is None:
        return []
    info = ClassInfo(repo, fi.module, fi.cls.name)
    node = clone(fi.node)
    set_parents(node)
    return keyed_snapshot(types.SimpleNamespace(fi=fi, repo=repo), node, info, rewrite=False)


def class_level_coverage(norm, node, info):
    """a table in the CLASS body filled by this method (whatever the exact shape of the memo code): every instance attribute the method's
    computation reads must be named by the key - the whole attribute, or all the parts that determine it"""
    from ..normalise import Defs, expand
    defs = Defs(node.body)
    for st in ast.walk(node):
        if not (isinstance(st, ast.Assign) and len(st.targets) == 1 and isinstance(st.targets[0], ast.Subscript)):
            continue
        X = self_attr(st.targets[0].value)
        if X is None or info.scope(X) != 'class' or not is_table(info, X):
            continue
        K = expand(st.targets[0].slice, defs, comps=True)
        if isinstance(K, ast.Name):
            # a key bound more than once (`key = None` ... `key = (..)`): the definitions that are not None
            cands = [a_.value for a_ in ast.walk(node) if isinstance(a_, ast.Assign) and len(a_.targets) == 1 and U(a_.targets[0]) == K.id
                     and not (isinstance(a_.value, ast.Constant) and a_.value.value is None)]
            if len(cands) == 1:
                K = expand(cands[0], defs, comps=True)
                set_parents(K)
        named = {}
        for n in ast.walk(K):
            if isinstance(n, ast.Attribute) and self_attr(n.value) is not None:
                named.setdefault(self_attr(n.value), set()).add(n.attr)          # self.a.part
            a = self_attr(n)
            if a is not None:
                named.setdefault(a, set())
        whole = {self_attr(n) for n in ast.walk(K) if self_attr(n) is not None and not isinstance(getattr(n, '_mparent', None), ast.Attribute)}
        # what the method (and the methods it calls on self) reads
        read = set()
        seen = set()
        todo = [norm.fi.name]
        while todo:
            m = todo.pop()
            if m in seen or m not in info.methods:
                continue
            seen.add(m)
            fn = node if m == norm.fi.name else info.methods[m].node
            for n in ast.walk(fn):
                a = self_attr(n)
                if a is None:
                    continue
                if a in info.methods:
                    todo.append(a)
                elif isinstance(n.ctx, ast.Load) and a != X:
                    read.add(a)
        written_here = {self_attr(t) for n in ast.walk(node) if isinstance(n, ast.Assign) for t in n.targets} - {None}
        missing = []

        def covered(a, depth=0):
            if a in whole:
                return True
            parts = named.get(a)
            if parts is not None and a in DETERMINED_BY and DETERMINED_BY[a] <= parts:
                return True
            if a in DERIVED and depth < 3:
                return all(covered(b, depth + 1) for b in DERIVED[a])
            return False
        for a in sorted(read - written_here):
            if covered(a):
                continue
            parts = named.get(a)
            if parts is not None and a in DETERMINED_BY and DETERMINED_BY[a] <= parts:
                continue
            if parts:
                missing.append('self.%s (only %s of it)' % (a, ', '.join(sorted(parts))))
            elif a not in named:
                missing.append('self.' + a)
        if missing:
            norm.memo_issues.append((st, 'self.' + X, U(st.targets[0].slice),
                                     ['<the table is a class attribute shared by every %s, and its entries are computed from %s, which the key `%s` does not '
                                      'name: an entry stored by one object answers for another that differs there>' % (info.clsname, ', '.join(missing), U(K)[:80])]))


def blocks(node):
    for n in ast.walk(node):
        for f in ('body', 'orelse', 'finalbody'):
            b = getattr(n, f, None)
            if isinstance(b, list) and b and isinstance(b[0], ast.stmt):
                yield b


def is_table(info, X):
    return any(isinstance(n, ast.Assign) and any(self_attr(t) == X and is_empty_dict(v) for t, v in pairs(n))
               for fi in info.methods.values() for n in ast.walk(fi.node)) or (X in info.class_level and is_empty_dict(info.class_level[X]))


def is_method(info, a):
    return a in info.methods


def inside_loop(node, target):
    def walk(stmts, depth):
        for s in stmts:
            if s is target:
                return depth > 0
            for f in ('body', 'orelse', 'finalbody'):
                sub = getattr(s, f, None)
                if isinstance(sub, list) and sub and isinstance(sub[0], ast.stmt):
                    r = walk(sub, depth + (1 if isinstance(s, (ast.For, ast.While)) and f == 'body' else 0))
                    if r is not None:
                        return r
        return None
    return bool(walk(node.body, 0))


def guard_form(g):
    """('A', X, K): `if K not in self.X:` ending in the store;  ('B', X, K): `if K in self.X: return self.X[K]..`;
    ('slot', X, None): `if self.X is None:` ending in `self.X = V`"""
    t = g.test
    if g.orelse:
        return None
    if isinstance(t, ast.Compare) and len(t.ops) == 1 and self_attr(t.comparators[0]) is not None:
        X = self_attr(t.comparators[0])
        if isinstance(t.ops[0], ast.NotIn):
            return 'A', X, t.left
        if isinstance(t.ops[0], ast.In) and len(g.body) == 1 and isinstance(g.body[0], ast.Return):
            return 'B', X, t.left
    if isinstance(t, ast.Compare) and len(t.ops) == 1 and isinstance(t.ops[0], ast.Is) and self_attr(t.left) is not None \
            and isinstance(t.comparators[0], ast.Constant) and t.comparators[0].value is None:
        return 'slot', self_attr(t.left), None
    X = lazily_created(g)
    if X is not None:
        return 'slot', X, None
    return None


def lazily_created(g):
    """`if not hasattr(self, 'X'):` ending in `self.X = V`: a slot created on first use"""
    t = g.test
    if isinstance(t, ast.UnaryOp) and isinstance(t.op, ast.Not) and isinstance(t.operand, ast.Call) and U(t.operand.func) == 'hasattr' \
            and len(t.operand.args) == 2 and U(t.operand.args[0]) == 'self' and isinstance(t.operand.args[1], ast.Constant) and not g.orelse \
            and g.body and isinstance(g.body[-1], ast.Assign) and len(g.body[-1].targets) == 1 and self_attr(g.body[-1].targets[0]) == t.operand.args[1].value:
        return t.operand.args[1].value
    return None


def derived_in_key(p, K, defs):
    """the key names a local that is a normalised form of the parameter p (`attrs = [attrs]` rebinding keeps the name)"""
    return False


def immutable_value(V):
    if isinstance(V, (ast.Tuple, ast.Constant)):
        return True
    if isinstance(V, ast.Call) and U(V.func).split('.')[-1] in IMMUTABLE_CTORS:
        return True
    return False


def hands_out(e, X, raw_K, node, kind):
    """does the returned expression evaluate to the cached object itself?"""
    if isinstance(e, ast.IfExp):
        return hands_out(e.body, X, raw_K, node, kind) or hands_out(e.orelse, X, raw_K, node, kind)
    if kind == 'slot' and self_attr(e) == X:
        return True
    if kind != 'slot' and isinstance(e, ast.Subscript) and self_attr(e.value) == X:
        return True
    if isinstance(e, ast.Name):
        for st in ast.walk(node):
            if isinstance(st, ast.Assign) and len(st.targets) == 1 and isinstance(st.targets[0], ast.Name) and st.targets[0].id == e.id:
                if hands_out(st.value, X, raw_K, node, kind):
                    return True
    return False


def stamp_prologue(node, guard, X, defs):
    """`if <saved> != <stamp>: <saved>, self.X = <stamp>, {}` (or .clear()) before the guard -> {'covers': {attr: value|identity|unknown}, ...}"""
    from ..normalise import expand
    body = node.body
    if guard not in body:
        return None
    i = body.index(guard)
    for s in body[:i]:
        if not isinstance(s, ast.If) or s.orelse:
            continue
        resets = False
        for n in ast.walk(s):
            if isinstance(n, ast.Assign):
                for t, v in pairs(n):
                    if self_attr(t) == X and is_empty_dict(v):
                        resets = True
            if isinstance(n, ast.Call) and isinstance(n.func, ast.Attribute) and n.func.attr == 'clear' and self_attr(n.func.value) == X:
                resets = True
        if not resets:
            continue
        t = s.test
        if isinstance(t, ast.UnaryOp) and isinstance(t.op, ast.Not):
            t = t.operand
        if not (isinstance(t, ast.Compare) and len(t.ops) == 1):
            continue
        op = t.ops[0]
        sides = [t.left, t.comparators[0]]
        covers = {}
        stmts = [s]
        identity_cmp = isinstance(op, (ast.Is, ast.IsNot))
        for side in sides:
            e = expand(side, defs, comps=True)
            for st in body[:i]:
                if isinstance(st, ast.Assign) and len(st.targets) == 1 and isinstance(st.targets[0], ast.Name) and isinstance(side, ast.Name) \
                        and st.targets[0].id == side.id:
                    stmts.append(st)
            for a, how in stamp_mentions(e):
                if identity_cmp:
                    how = 'identity'
                prev = covers.get(a)
                covers[a] = how if prev is None or how == 'identity' or prev == how else prev
        saved = {self_attr(n) for side in sides for n in ast.walk(side)} - {None}
        # the snapshot attribute itself is not a dependency
        for a in list(covers):
            if any(isinstance(n, ast.Assign) and any(self_attr(t_) == a for t_, _ in pairs(n)) for n in ast.walk(s)) and a in saved and \
                    not any(self_attr(n) == a for side in sides for n in ast.walk(expand(side, defs, comps=True)) if side is not None and U(side) != 'self.' + a):
                covers.pop(a, None)
        return {'covers': covers, 'text': U(s.test), 'stmts': stmts}
    return None


def pairs(assign):
    out = []
    for t in assign.targets:
        if isinstance(t, (ast.Tuple, ast.List)) and isinstance(assign.value, (ast.Tuple, ast.List)) and len(t.elts) == len(assign.value.elts):
            out.extend(zip(t.elts, assign.value.elts))
        else:
            out.append((t, assign.value))
    return out


def stamp_mentions(e):
    """(attribute, how) for every self.<attr> a stamp expression looks at"""
    out = []

    def walk(n, ctx):
        if isinstance(n, ast.Call):
            f = U(n.func)
            if f == 'id':
                for a in n.args:
                    walk(a, 'identity')
                return
            if f == 'getattr' and n.args and U(n.args[0]) == 'self':
                return            # the saved stamp
            if isinstance(n.func, ast.Attribute) and n.func.attr in ('tobytes', 'tostring', 'copy', 'tolist'):
                walk(n.func.value, 'value')
                return
        if isinstance(n, (ast.GeneratorExp, ast.ListComp)):
            # a digest of every element: the element expression decides, the iterated container is what is covered
            inner = 'unknown'
            for x in ast.walk(n.elt):
                if isinstance(x, ast.Call) and U(x.func) == 'id':
                    inner = 'identity'
                    break
                if isinstance(x, ast.Call) and isinstance(x.func, ast.Attribute) and x.func.attr in ('tobytes', 'tostring', 'tolist'):
                    inner = 'value'
            for g in n.generators:
                walk(g.iter, inner)
            return
        a = self_attr(n)
        if a is not None:
            how = ctx if ctx in ('identity', 'value') else ('value' if a in SCALAR_ATTRS else 'unknown')
            out.append((a, how))
            return
        for ch in ast.iter_child_nodes(n):
            walk(ch, ctx)
    walk(e, None)
    return out

"""Abstract values for attribute sequences, domains, frames and datasets (used by C15, C14 order rules).

The evaluator runs over a (normalised) function with the structured dataflow engine; every expression evaluates to a
small term that says *what sequence, in which order* it denotes - independent of how the source spells it (locals,
helpers, comprehension vs generator, delegation to another Domain method):

  ('dom', name)               a Domain object held by `name`  ('self', 'self.domain', a parameter)
  ('project', D, seq)         D.project(seq)          (primitive: its body is checked by the parallel-domain rule)
  ('attrs', D) ('shape', D)   the attribute / size tuple of D, in D's own order
  ('p', name)                 an opaque parameter
  ('wrap', v)                 [v]
  ('filter', seq, neg, S)     elements of seq (in seq's order) that are (not) members of S
  ('concat', a, b)
  ('sizes', D, seq)           (D.config[a] for a in seq);  ('sizes', D, ('attrs', D)) is normalised to ('shape', D)
  ('edge', n) ('edges', seq)  range(n+1);  [range(n+1) for n in seq]
  ('frame', text) ('select', F, seq) ('values', F)     data frames, by-name column selection, their value matrix
  ('Domain', A, S) ('Dataset', F, D, W)                constructions
  ('phi', frozenset)          join of different values
  ('item', v, i)              v[i] / i-th element of an unpacked tuple
  ('opaque', text)            anything else
"""
import ast

from ..absint import Structured
from ..srcmodel import AnalysisError, U

DOM_REL = 'src/mbi/domain.py'
PRIMITIVE = {'project'}          # Domain methods kept symbolic
MAXDEPTH = 4


def phi(a, b):
    if a == b:
        return a
    s = set()
    for v in (a, b):
        if isinstance(v, tuple) and v and v[0] == 'phi':
            s |= v[1]
        else:
            s.add(v)
    return ('phi', frozenset(s))


def is_dom(v):
    return isinstance(v, tuple) and v and v[0] in ('dom', 'project', 'Domain')


def iterview(v):
    """what iterating / membership over v sees"""
    if is_dom(v):
        return attrs_of(v)
    if isinstance(v, tuple) and v[0] == 'p':
        return v
    return v


def attrs_of(d):
    if d[0] == 'Domain':
        return d[1]
    if d[0] == 'project':
        return d[2]
    return ('attrs', d)


def shape_of(d):
    if d[0] == 'Domain':
        return d[2]
    if d[0] == 'project':
        return sizes(d[1], d[2])
    return ('shape', d)


def sizes(d, seq):
    if seq == ('attrs', d):
        return ('shape', d)
    return ('sizes', d, seq)


def show(v):
    if not isinstance(v, tuple):
        return str(v)
    k = v[0]
    if k == 'dom':
        return v[1]
    if k == 'p':
        return v[1]
    if k == 'opaque':
        return v[1]
    if k == 'attrs':
        return show(v[1]) + '.attrs'
    if k == 'shape':
        return show(v[1]) + '.shape'
    if k == 'project':
        return '%s.project(%s)' % (show(v[1]), show(v[2]))
    if k == 'filter':
        return '[a for a in %s if a %s %s]' % (show(v[1]), 'not in' if v[2] else 'in', show(v[3]))
    if k == 'wrap':
        return '[%s]' % show(v[1])
    if k == 'concat':
        return '%s + %s' % (show(v[1]), show(v[2]))
    if k == 'sizes':
        return '(%s[a] for a in %s)' % (show(v[1]), show(v[2]))
    if k == 'phi':
        return ' | '.join(sorted(show(x) for x in v[1]))
    if k == 'select':
        return '%s[%s]' % (show(v[1]), show(v[2]))
    if k == 'frame':
        return v[1]
    if k == 'values':
        return show(v[1]) + '.values'
    if k == 'edges':
        return '[range(n+1) for n in %s]' % show(v[1])
    if k == 'edge':
        return 'range(%s+1)' % show(v[1])
    return '%s(%s)' % (k, ', '.join(show(x) for x in v[1:]))


class SeqExec(Structured):
    """env: name -> value.  self_val is the value of `self` ('dom','self') in Domain, ('ds','self') in Dataset."""

    def __init__(self, repo, fi, self_val, args=None, depth=0):
        super().__init__()
        self.repo, self.fi, self.self_val, self.depth = repo, fi, self_val, depth
        self.callargs = []       # (call node, value, arg values, kw values) of every evaluated call
        self.stores = []         # (stmt, target text, value)
        env = {}
        params = fi.params
        for i, p in enumerate(params):
            env[p] = ('p', p)
        if params and params[0] == 'self':
            env['self'] = self_val
        if args:
            env.update(args)
        self.env0 = env

    # ---- domain --------------------------------------------------------------------------------------
    def copy(self, st):
        return dict(st)

    def join(self, a, b):
        out = {}
        for k in set(a) | set(b):
            if k in a and k in b:
                out[k] = phi(a[k], b[k])
            else:
                out[k] = phi(a.get(k, ('undef',)), b.get(k, ('undef',)))
        return out

    def unsupported(self, st, stmt):
        return st

    def on_funcdef(self, st, node):
        return st

    def on_assign(self, st, s):
        if isinstance(s, ast.AnnAssign):
            if s.value is None:
                return st
            targets = [s.target]
        else:
            targets = s.targets
        v = self.ev(s.value, st)
        for t in targets:
            self.bind(st, t, v, s)
        return st

    def bind(self, st, t, v, s):
        if isinstance(t, ast.Name):
            st[t.id] = v
        elif isinstance(t, (ast.Tuple, ast.List)):
            for i, el in enumerate(t.elts):
                self.bind(st, el, ('item', v, i), s)
        else:
            self.stores.append((s, U(t), v))
            if isinstance(t, ast.Attribute):
                st[U(t)] = v

    def on_augassign(self, st, s):
        v = self.ev(ast.BinOp(left=s.target, op=s.op, right=s.value), st) if isinstance(s.target, ast.Name) else ('opaque', U(s))
        self.bind(st, s.target, v, s)
        return st

    def on_expr(self, st, e, s):
        if isinstance(s, ast.Expr):
            self.ev(e, st)
        return st

    def on_bind(self, st, target, it, s):
        self.bind(st, target, ('elem', iterview(self.ev(it, st))), s)
        return st

    def on_return(self, st, s):
        st['<return>'] = self.ev(s.value, st) if s.value is not None else ('none',)
        return st

    def result(self):
        """join of all returned values"""
        exits = self.exits(self.fi.body, dict(self.env0))
        out = None
        for stmt, st in exits:
            v = st.get('<return>', ('none',)) if stmt is not None else ('none',)
            out = v if out is None else phi(out, v)
        return out

    def return_values(self):
        exits = self.exits(self.fi.body, dict(self.env0))
        return [(stmt, st.get('<return>')) for stmt, st in exits if stmt is not None]

    # ---- expressions ---------------------------------------------------------------------------------
    def ev(self, e, st):
        m = getattr(self, 'ev_' + type(e).__name__, None)
        if m is None:
            return ('opaque', U(e))
        return m(e, st)

    def ev_Name(self, e, st):
        if e.id in st:
            return st[e.id]
        return ('opaque', e.id)

    def ev_Constant(self, e, st):
        return ('const', repr(e.value))

    def ev_IfExp(self, e, st):
        return phi(self.ev(e.body, st), self.ev(e.orelse, st))

    def ev_Starred(self, e, st):
        return ('opaque', U(e))

    def ev_List(self, e, st):
        if len(e.elts) == 1 and not isinstance(e.elts[0], ast.Starred):
            return ('wrap', self.ev(e.elts[0], st))
        return ('lit', tuple(self.ev(x, st) for x in e.elts))
    ev_Tuple = ev_List

    def ev_BinOp(self, e, st):
        a, b = self.ev(e.left, st), self.ev(e.right, st)
        if isinstance(e.op, ast.Sub) and a[0] == 'set':
            return ('setdiff', a[1], membership(b))
        if isinstance(e.op, ast.BitAnd) and a[0] == 'set':
            return ('setand', a[1], membership(b))
        if isinstance(e.op, ast.Add):
            if a[0] == 'const' and b[0] == 'const':
                return ('opaque', U(e))
            if b == ('const', '1'):
                return ('succ', a)
            if a == ('const', '1'):
                return ('succ', b)
            return ('concat', a, b)
        return ('opaque', U(e))

    def as_dom(self, v):
        """parameters and opaque names used as `.attrs`/`.shape`/`.project` receivers are domains"""
        if is_dom(v):
            return v
        if v[0] in ('p', 'opaque') and v[1].replace('.', '_').isidentifier():
            return ('dom', v[1])
        return None

    def ev_Attribute(self, e, st):
        t = U(e)
        if t in st:
            return st[t]
        base = self.ev(e.value, st)
        if base[0] == 'ds':
            if e.attr == 'df':
                return ('frame', 'self.df')
            if e.attr == 'domain':
                return ('dom', 'self.domain')
            if e.attr == 'weights':
                return ('weights', 'self')
        if e.attr == 'index' and base[0] in ('attrs', 'p'):
            return ('indexof', base)
        if e.attr in ('attrs', 'shape', 'config'):
            d = self.as_dom(base)
            if d is not None:
                return attrs_of(d) if e.attr == 'attrs' else shape_of(d) if e.attr == 'shape' else ('config', d)
        if base[0] in ('frame', 'select'):
            if e.attr == 'values':
                return ('values', base)
            if e.attr == 'loc':
                return ('loc', base)
            if e.attr == 'iloc':
                return ('iloc', base)
        return ('opaque', t)

    def ev_Subscript(self, e, st):
        base = self.ev(e.value, st)
        sl = e.slice
        if base[0] == 'loc' and isinstance(sl, ast.Tuple) and len(sl.elts) == 2 and U(sl.elts[0]) == ':':
            return ('select', base[1], iterview(self.ev(sl.elts[1], st)))
        if base[0] == 'iloc' and isinstance(sl, ast.Tuple) and len(sl.elts) == 2 and U(sl.elts[0]) == ':':
            # columns by POSITION: `F.iloc[:, D.axes(cols)]` - the positions of `cols` in D's order.  For the dataset's own frame and domain
            # that is the by-name selection (the constructor keeps self.df in the order of self.domain: column-order rule)
            ix = sl.elts[1]
            while isinstance(ix, ast.Call) and isinstance(ix.func, ast.Name) and ix.func.id in ('list', 'tuple') and len(ix.args) == 1:
                ix = ix.args[0]
            if isinstance(ix, ast.Call) and isinstance(ix.func, ast.Attribute) and ix.func.attr == 'axes' and len(ix.args) == 1 \
                    and U(ix.func.value) == 'self.domain' and base[1] == ('frame', 'self.df'):
                return ('select', base[1], iterview(self.ev(ix.args[0], st)))
            return ('opaque', U(e))
        if base[0] in ('frame', 'select') and not isinstance(sl, (ast.Tuple, ast.Slice)):
            return ('select', base, iterview(self.ev(sl, st)))
        if base[0] == 'config':
            return ('size', base[1], self.ev(sl, st))
        if is_dom(base) and not isinstance(sl, (ast.Tuple, ast.Slice)):
            return ('size', base, self.ev(sl, st))
        if isinstance(sl, ast.Constant) and isinstance(sl.value, int):
            return ('item', base, sl.value)
        if base[0] == 'attrs' and isinstance(sl, ast.Name):
            return ('at', base, self.ev(sl, st))
        return ('opaque', U(e))

    def comp(self, e, st):
        if len(e.generators) != 1 or e.generators[0].is_async:
            return ('opaque', U(e))
        g = e.generators[0]
        base = iterview(self.ev(g.iter, st))
        inner = dict(st)
        self.bind(inner, g.target, ('elem', base), e)
        elem = ('elem', base)
        out = base
        for t in g.ifs:
            neg = False
            while isinstance(t, ast.UnaryOp) and isinstance(t.op, ast.Not):
                t, neg = t.operand, not neg
            if not (isinstance(t, ast.Compare) and len(t.ops) == 1 and isinstance(t.ops[0], (ast.In, ast.NotIn))
                    and self.ev(t.left, inner) == elem):
                return ('opaque', U(e))
            if isinstance(t.ops[0], ast.NotIn):
                neg = not neg
            out = ('filter', out, neg, membership(self.ev(t.comparators[0], inner)))
        v = self.ev(e.elt, inner)
        if v == elem:
            return ('set', out) if isinstance(e, ast.SetComp) else out
        if v[0] == 'position' and v[2] == elem:
            # {A.index(a) for a in X if ..}: the positions in A of the selected elements; a set keeps each once, a list / generator
            # keeps repeats and the order of X
            return ('positions', v[1], out, isinstance(e, ast.SetComp))
        if v[0] == 'at' and v[2] == elem and base[0] == 'sortedpos' and base[1] == v[1] and out == base:
            # (A[i] for i in sorted(P)), P positions in A of the members of X: exactly the elements of A, in A's order, that are in X
            # - when P is a set.  From a sequence with repeats the repeats survive.
            A, X, isset = base[1], base[2], base[3]
            if not isset:
                return ('opaque', 'elements of %s at sorted positions with repeats kept (%s)' % (show(A), U(e)))
            if X[0] == 'filter' and not X[2] and X[3] == A:
                X = X[1]
            return ('filter', A, False, membership(X))
        if v[0] == 'size' and v[2] == elem:
            return sizes(v[1], out)
        if v[0] == 'edge' and v[1] == elem:
            return ('edges', out)
        if v[0] == 'lit' and len(v[1]) == 2 and v[1][0] == ('const', '0') and v[1][1] == elem:
            return ('ranges0', out)          # [(0, n) for n in shape]: with bins=shape the same edges 0..n
        return ('opaque', U(e))

    ev_ListComp = comp
    ev_GeneratorExp = comp
    ev_SetComp = comp

    def ev_Call(self, e, st):
        args = [self.ev(a, st) for a in e.args]
        kw = {k.arg: self.ev(k.value, st) for k in e.keywords if k.arg}
        v = self.call(e, st, args, kw)
        self.callargs.append((e, v, args, kw))
        return v

    def call(self, e, st, args, kw):
        f = e.func
        fn = U(f)
        if fn == 'set' and len(args) == 1:
            return ('set', iterview(args[0]))
        if fn == 'sorted' and len(args) == 1 and set(kw) == {'key'} and kw['key'][0] == 'indexof':
            # sorted(S, key=A.index) with S a sub-set of A: the elements of S in A's own order
            S = args[0]
            A = kw['key'][1]
            if S[0] == 'setdiff' and S[1] == A:
                return ('filter', A, True, S[2])
            if S[0] == 'setand' and S[1] == A:
                return ('filter', A, False, S[2])
            return ('opaque', U(e))
        if fn == 'sorted' and len(args) == 1 and not kw and args[0][0] == 'positions':
            return ('sortedpos',) + args[0][1:]
        if fn == 'zip' and len(args) == 2:
            return ('zip', args[0], args[1])
        if fn == 'dict' and len(args) == 1 and args[0][0] == 'zip':
            return ('dictzip', args[0][1], args[0][2])
        if fn in ('list', 'tuple') and len(args) == 1 and not kw:
            return iterview(args[0])
        if fn in ('range', 'np.arange', 'numpy.arange'):
            hi = args[0] if len(args) == 1 else args[1] if len(args) == 2 and args[0] == ('const', '0') else None
            if hi is not None and hi[0] == 'succ':
                return ('edge', hi[1])
            return ('opaque', U(e))
        if fn == 'Domain' and len(args) == 2:
            return ('Domain', args[0], args[1])
        if fn == 'Dataset':
            a = args + [None] * 3
            return ('Dataset', a[0] if a[0] is not None else kw.get('df'), a[1] if a[1] is not None else kw.get('domain'),
                    a[2] if a[2] is not None else kw.get('weights', ('none',)))
        if isinstance(f, ast.Attribute):
            recv = self.ev(f.value, st)
            if recv[0] in ('frame', 'select'):
                if f.attr == 'to_numpy' and not args:
                    return ('values', recv)
                if f.attr in ('reindex', 'filter'):
                    c = kw.get('columns', kw.get('items'))
                    if c is not None:
                        return ('select', recv, iterview(c))
            if f.attr in ('keys', 'values') and not args:
                return (f.attr, recv)
            if f.attr == 'index' and len(args) == 1 and not kw and recv[0] in ('attrs', 'filter', 'p'):
                return ('position', recv, args[0])
            if recv[0] == 'set' and f.attr in ('difference', 'intersection') and len(args) == 1:
                return ('setdiff' if f.attr == 'difference' else 'setand', recv[1], membership(args[0]))
            d = self.as_dom(recv)
            if recv[0] == 'ds':
                return self.method(e, 'src/mbi/dataset.py', 'Dataset', f.attr, recv, args, kw)
            if d is not None and (recv[0] != 'opaque'):
                if f.attr in PRIMITIVE and len(args) == 1:
                    return ('project', d, iterview(args[0]))
                return self.method(e, DOM_REL, 'Domain', f.attr, d, args, kw)
        return ('opaque', U(e))

    def method(self, e, rel, cls, name, recv, args, kw):
        """summary of a sibling method: evaluate its body with the receiver and the arguments bound"""
        ms = self.repo.nmethods(rel, cls)
        if name not in ms or self.depth >= MAXDEPTH:
            return ('call', name, recv) + tuple(args)
        callee = ms[name]
        if cls == 'Dataset':
            return ('call', name, recv) + tuple(args)
        ps = callee.params[1:]
        bound = {}
        for p, a in zip(ps, args):
            bound[p] = a
        for k, a in kw.items():
            if k in ps:
                bound[k] = a
        if len(bound) != len(ps):
            return ('call', name, recv) + tuple(args)
        sub = SeqExec(self.repo, callee, recv, bound, self.depth + 1)
        r = sub.result()
        return r if r is not None else ('opaque', U(e))


def membership(v):
    v = iterview(v)
    if isinstance(v, tuple) and v and v[0] == 'phi':
        alts = {membership(x) for x in v[1]}
        if len(alts) == 1:
            return alts.pop()            # `attrs if isinstance(attrs, str) else set(attrs)`: the same members either way
    if v[0] == 'set' and len(v) == 2:
        return iterview(v[1])
    if v[0] in ('config', 'keys') and len(v) == 2 and is_dom(v[1]):
        return attrs_of(v[1])            # the keys of D.config are D's attributes
    return v

"""Structural discovery of the estimator's setup method and solvers (no name matching on private helpers)."""
import ast

from ..srcmodel import AnalysisError, U, calls_in


def visible_methods(repo, rel, clsname):
    """normalised methods of the class; helpers that are not established (normalise.inventory) and are called from a
    sibling method are left out: they have been inlined into their callers"""
    from ..normalise import is_established
    ms = repo.nmethods(rel, clsname)
    called = set()
    for name, fi in repo.methods(rel, clsname).items():
        for c in calls_in(fi.node):
            if isinstance(c.func, ast.Attribute) and U(c.func.value) in ('self', clsname):
                called.add(c.func.attr)
    return {n: fi for n, fi in ms.items() if is_established(rel, fi.qualname) or n not in called}


def find_setup(repo, rel, clsname, attr='model'):
    """The setup method = the method that assigns self.<attr> (the per-call model)."""
    hits = []
    for name, fi in visible_methods(repo, rel, clsname).items():
        for n in ast.walk(fi.node):
            if isinstance(n, ast.Assign):
                for t in n.targets:
                    if U(t) == 'self.' + attr:
                        hits.append(fi)
    hits = list(dict.fromkeys(hits))
    if len(hits) != 1:
        raise AnalysisError('%s.%s: expected exactly one method assigning self.%s, found %s'
                            % (clsname, '?', attr, [h.qualname for h in hits]))
    return hits[0]


def find_solvers(repo, rel, clsname, setup):
    """Solvers = methods (other than setup) that call self.<setup>(...)."""
    out = []
    for name, fi in visible_methods(repo, rel, clsname).items():
        if fi is setup:
            continue
        if any(U(c.func) == 'self.' + setup.name for c in calls_in(fi.node)):
            out.append(fi)
    return out


def is_setup_call(call, setup):
    return U(call.func) == 'self.' + setup.name


def never_none_attrs(repo, rel, clsname):
    """self attributes whose every assignment in the class is a call (constructor) -> never None."""
    vals = {}
    for name, fi in visible_methods(repo, rel, clsname).items():
        for n in ast.walk(fi.node):
            if isinstance(n, ast.Assign):
                for t in n.targets:
                    if isinstance(t, ast.Attribute) and U(t.value) == 'self':
                        vals.setdefault(t.attr, []).append(n.value)
    return {a for a, vs in vals.items() if all(isinstance(v, ast.Call) for v in vs)}


def dispatch_tables(repo, rel, clsname):
    """class-level / module-level dict displays mapping constant names to classes (or tuples led by a class):
    {table name: {key: class name}}"""
    out = {}
    cdef = repo.cls(rel, clsname)
    mod = repo.module(rel)
    for body in (cdef.body, mod.tree.body):
        for st in body:
            if isinstance(st, ast.Assign) and len(st.targets) == 1 and isinstance(st.targets[0], ast.Name) and isinstance(st.value, ast.Dict):
                table = {}
                for k, v in zip(st.value.keys, st.value.values):
                    head = v.elts[0] if isinstance(v, ast.Tuple) and v.elts else v
                    if isinstance(k, ast.Constant) and isinstance(head, ast.Name) and head.id[:1].isupper():
                        table[k.value] = head.id
                if table and len(table) == len(st.value.keys):
                    out[st.targets[0].id] = table
    return out


def table_constructions(fi, tables):
    """calls in fi whose callee is a local bound from an element of a dispatch table:
    [(call node, table name, {key: class})]"""
    bound = {}
    for st in ast.walk(fi.node):
        if isinstance(st, ast.Assign) and len(st.targets) == 1 and isinstance(st.value, ast.Subscript):
            base = U(st.value.value)
            tname = base.split('.')[-1]
            if tname in tables and base in (tname, 'self.' + tname, 'type(self).' + tname) or \
                    (tname in tables and base.endswith('.' + tname)):
                t = st.targets[0]
                head = t.elts[0] if isinstance(t, (ast.Tuple, ast.List)) and t.elts else t
                if isinstance(head, ast.Name):
                    bound[head.id] = tname
    out = []
    for c in calls_in(fi.node):
        if isinstance(c.func, ast.Name) and c.func.id in bound:
            out.append((c, bound[c.func.id], tables[bound[c.func.id]]))
    return out

"""Symbolic constant propagation over a function body (E5 substrate).

Straight-line arithmetic assignments are folded into closed forms (symexpr.Alg); conditionals on declared
configuration flags are specialised per flag value; any other conditional executes both branches and keeps a
variable only if both agree (otherwise it becomes a fresh positive symbol named after the variable);
loop bodies are executed once with every variable they assign havocked before and after.  This is *not*
symbolic execution: no path conditions are collected and nothing is handed to a solver.
"""
import ast

from ..srcmodel import AnalysisError, U, target_names
from ..symexpr import SymEval, Atoms, Alg, Rat, sym, const


class Opaque:
    """a non-arithmetic value (array, object, ...) remembered by its defining expression"""
    __slots__ = ('expr', 'tag')

    def __init__(self, expr, tag=None):
        self.expr, self.tag = expr, tag

    def __repr__(self):
        return '<opaque %s>' % (U(self.expr)[:40] if isinstance(self.expr, ast.AST) else self.expr)


def membership_test_on(t, name):
    """`k in D` / `k not in D` / `not k in D` on the mapping `name` (the "already done" idiom)"""
    while isinstance(t, ast.UnaryOp) and isinstance(t.op, ast.Not):
        t = t.operand
    return isinstance(t, ast.Compare) and len(t.ops) == 1 and isinstance(t.ops[0], (ast.In, ast.NotIn)) and U(t.comparators[0]) == name


def empty_dict(v):
    e = getattr(v, 'expr', None)
    return getattr(v, 'tag', None) is None and ((isinstance(e, ast.Dict) and not e.keys) or (isinstance(e, ast.Call) and U(e.func) == 'dict' and not e.args))


class SymExec:
    def __init__(self, fi, flags=None, env=None, atoms=None, call_hook=None, stmt_hook=None, loop_hook=None, vectors=False):
        self.fi = fi
        self.flags = dict(flags or {})      # name / attribute text -> python value
        self.env = dict(env or {})          # name -> Alg | Opaque
        self.atoms = atoms or Atoms()
        self.call_hook = call_hook          # (call, self) -> Alg | Opaque | None
        self.stmt_hook = stmt_hook          # (stmt, self) -> None   (called before the statement executes)
        self.loop_hook = loop_hook          # (loop stmt, self, 'enter'|'exit')
        self.loops = []                     # stack of loop statements being executed
        self.returns = []                   # (stmt, value)
        self.dead = False
        self.vectors = vectors              # opaque values take part in arithmetic as symbols named after their variable
        self.defs = {}                      # name -> last assigned expression on the executed path
        self.def_history = {}

    # ---- expression evaluation ------------------------------------------------------------
    def evaluator(self):
        scalars = {k: v for k, v in self.env.items() if isinstance(v, Alg)}
        if self.vectors:
            for k, v in self.env.items():
                if isinstance(v, Opaque):
                    scalars[k] = sym(k)
        ev = SymEval(scalars, self.atoms, hook=self._hook)
        ev.ifexp = self.value
        return ev

    def _hook(self, call, ev):
        if self.call_hook is not None:
            r = self.call_hook(call, self)
            if isinstance(r, Alg):
                return r
        f = U(call.func)
        if f == 'len' and len(call.args) == 1:
            return sym('len(%s)' % U(call.args[0]))
        return None

    def value(self, e):
        """Alg if e is in the scalar dialect, else Opaque"""
        if isinstance(e, ast.IfExp):
            t = self.flag_test(e.test)
            if t is True:
                return self.value(e.body)
            if t is False:
                return self.value(e.orelse)
            a, b = self.value(e.body), self.value(e.orelse)
            if isinstance(a, Alg) and isinstance(b, Alg) and a.eq(b):
                return a
            return Opaque(e)
        if isinstance(e, ast.BoolOp) and isinstance(e.op, ast.Or) and len(e.values) == 2:
            # `a or b`: a if truthy else b -- decided only for flags
            t = self.flag_test(e.values[0])
            if t is True:
                return self.value(e.values[0])
            if t is False:
                return self.value(e.values[1])
            return Opaque(e)
        if isinstance(e, ast.Name) and isinstance(self.env.get(e.id), Opaque) and not self.vectors:
            return self.env[e.id]
        if isinstance(e, ast.Call) and self.call_hook is not None:
            r = self.call_hook(e, self)
            if r is not None:
                return r
        try:
            ev = self.evaluator()
            for n in ast.walk(e):
                if isinstance(n, ast.Name) and isinstance(self.env.get(n.id), Opaque) and not self.vectors:
                    raise AnalysisError('opaque operand')
            return ev.ev(e)
        except AnalysisError:
            return Opaque(e)

    def join_opaque(self, k, a, b):
        """value of `k` after a branch whose two sides left different untyped values"""
        return Opaque(k, 'join')

    def same_opaque(self, a, b):
        """two opaque values that carry the same tag (kind and quantitative content): either may stand for both"""
        ta, tb = a.tag, b.tag
        if ta is None or tb is None or isinstance(ta, str) or isinstance(tb, str):
            return False
        da, db = getattr(ta, '__dict__', None), getattr(tb, '__dict__', None)
        if da is None or db is None or set(da) != set(db):
            return False
        for k in da:
            x, y = da[k], db[k]
            if isinstance(x, Alg) and isinstance(y, Alg):
                if not x.eq(y):
                    return False
            elif x is not y and x != y:
                return False
        return True

    # ---- flags ------------------------------------------------------------------------------------
    def flag_test(self, t):
        """True / False when the test is decided by the flag valuation, else None"""
        if isinstance(t, ast.UnaryOp) and isinstance(t.op, ast.Not):
            r = self.flag_test(t.operand)
            return None if r is None else (not r)
        if isinstance(t, ast.BoolOp):
            rs = [self.flag_test(v) for v in t.values]
            if isinstance(t.op, ast.And):
                if any(r is False for r in rs):
                    return False
                return True if all(r is True for r in rs) else None
            if any(r is True for r in rs):
                return True
            return False if all(r is False for r in rs) else None
        key = U(t) if isinstance(t, (ast.Name, ast.Attribute)) else None
        if key is not None and key in self.flags:
            return bool(self.flags[key])
        if isinstance(t, ast.Compare) and len(t.ops) == 1:
            l, r, op = t.left, t.comparators[0], t.ops[0]
            lk = U(l) if isinstance(l, (ast.Name, ast.Attribute)) else None
            # `x is None` for an x that holds a number: decided
            if lk is not None and lk not in self.flags and isinstance(r, ast.Constant) and r.value is None and isinstance(self.env.get(lk), Alg) \
                    and isinstance(op, (ast.Is, ast.Eq, ast.IsNot, ast.NotEq)):
                return isinstance(op, (ast.IsNot, ast.NotEq))
            if lk in self.flags and isinstance(r, ast.Constant):
                v = self.flags[lk]
                if isinstance(op, (ast.Eq, ast.Is)):
                    return v == r.value if r.value is not None else v is None
                if isinstance(op, (ast.NotEq, ast.IsNot)):
                    return v != r.value if r.value is not None else v is not None
        if isinstance(t, ast.Call) and U(t.func) == 'isinstance' and len(t.args) == 2:
            k = 'isinstance(%s, %s)' % (U(t.args[0]), U(t.args[1]))
            if k in self.flags:
                return bool(self.flags[k])
        return None

    # ---- statements ---------------------------------------------------------------------------------
    ssa = False          # value-level engines set this: straight-line re-assignments / in-place updates of a local become versions

    def run(self, body=None):
        stmts = self.fi.body if body is None else body
        if self.ssa:
            from ..normalise import ssa_straightline
            stmts = ssa_straightline(stmts, params=tuple(self.fi.params))
        self.block(stmts)
        return self

    def block(self, stmts):
        for s in stmts:
            if self.dead:
                return
            self.stmt(s)

    def assigned_in(self, stmts):
        out = set()
        for s in stmts:
            for n in ast.walk(s):
                if isinstance(n, (ast.Assign, ast.AugAssign, ast.AnnAssign, ast.For)):
                    tg = n.targets if isinstance(n, ast.Assign) else [n.target]
                    for t in tg:
                        out |= set(target_names(t))
                        if isinstance(t, ast.Attribute):
                            out.add(U(t))
        return out

    def havoc(self, names, where):
        for n in names:
            if n in self.env:
                self.env[n] = Alg(Rat.sym('%s@%s' % (n, where))) if isinstance(self.env[n], Alg) else Opaque(n, 'havoc')

    def stmt(self, s):
        if self.stmt_hook is not None:
            self.stmt_hook(s, self)
        if isinstance(s, ast.Assign):
            v = self.value(s.value)
            for t in s.targets:
                self.bind(t, v, s.value)
            return
        if isinstance(s, ast.AnnAssign):
            if s.value is not None:
                self.bind(s.target, self.value(s.value), s.value)
            return
        if isinstance(s, ast.AugAssign):
            key = U(s.target) if isinstance(s.target, (ast.Name, ast.Attribute)) else None
            if key is None:
                return
            fake = ast.BinOp(left=s.target, op=s.op, right=s.value)
            ast.copy_location(fake, s)
            ast.fix_missing_locations(fake)
            cur = self.env.get(key)
            if cur is None and isinstance(s.target, ast.Name):
                self.env[key] = sym(key)
            self.env[key] = self.value(fake)
            if isinstance(s.target, ast.Name):
                # x op= e is, for the VALUE of x, the definition x = x op e (what else it does to storage is the alias analyses' business)
                self.defs[key] = fake
                self.def_history.setdefault(key, []).append(fake)
            return
        if isinstance(s, ast.If):
            t = self.flag_test(s.test)
            if t is True:
                return self.block(s.body)
            if t is False:
                return self.block(s.orelse)
            base = dict(self.env)
            self.block(s.body)
            env_a, dead_a = self.env, self.dead
            self.env, self.dead = dict(base), False
            self.block(s.orelse)
            env_b, dead_b = self.env, self.dead
            if dead_a and dead_b:
                self.dead = True
                return
            self.dead = False
            if dead_a:
                self.env = env_b
                return
            if dead_b:
                self.env = env_a
                return
            merged = {}
            for k in set(env_a) | set(env_b):
                a, b = env_a.get(k), env_b.get(k)
                if isinstance(a, Alg) and isinstance(b, Alg) and a.eq(b):
                    merged[k] = a
                elif a is b and a is not None:
                    merged[k] = a
                elif isinstance(a, Opaque) and isinstance(b, Opaque) and self.same_opaque(a, b):
                    merged[k] = a
                elif isinstance(a, Opaque) and isinstance(b, Opaque) and membership_test_on(s.test, k) and (
                        (getattr(a.tag, 'kind', None) == 'dictof' and empty_dict(b)) or (getattr(b.tag, 'kind', None) == 'dictof' and empty_dict(a))):
                    # a mapping that is still empty on one path: the element type of the other path
                    merged[k] = a if getattr(a.tag, 'kind', None) == 'dictof' else b
                elif isinstance(a, Alg) or isinstance(b, Alg):
                    merged[k] = Alg(Rat.sym('%s@%d' % (k, s.lineno)))
                else:
                    merged[k] = self.join_opaque(k, a, b)
            self.env = merged
            return
        if isinstance(s, (ast.For, ast.While)):
            names = self.assigned_in(s.body)
            self.havoc(names, 'L%d' % s.lineno)
            if isinstance(s, ast.For):
                for n in target_names(s.target):
                    self.env[n] = Opaque(s.iter, 'loopvar')
            if self.loop_hook:
                self.loop_hook(s, self, 'enter')
            self.loops.append(s)
            self.block(s.body)
            self.loops.pop()
            self.dead = False
            if self.loop_hook:
                self.loop_hook(s, self, 'exit')
            self.havoc(names, 'after%d' % s.lineno)
            return
        if isinstance(s, ast.Return):
            self.returns.append((s, self.value(s.value) if s.value is not None else None))
            if not self.loops:
                self.dead = True
            return
        if isinstance(s, ast.Raise):
            if not self.loops:
                self.dead = True          # the path ends here without a result
            return
        if isinstance(s, ast.Expr):
            if isinstance(s.value, ast.Call) and self.call_hook is not None:
                self.call_hook(s.value, self)
            return
        if isinstance(s, (ast.Assert, ast.Pass, ast.Import, ast.ImportFrom, ast.FunctionDef, ast.Break, ast.Continue,
                          ast.Global, ast.Nonlocal, ast.ClassDef)):
            return
        if isinstance(s, ast.Try):
            self.block(s.body)
            return
        raise AnalysisError('%s:%d: unsupported statement %s in symbolic propagation'
                            % (self.fi.rel, s.lineno, type(s).__name__))

    def bind(self, target, value, expr):
        if isinstance(target, ast.Name):
            self.env[target.id] = value
            self.defs[target.id] = expr
            self.def_history.setdefault(target.id, []).append(expr)
        elif isinstance(target, ast.Attribute):
            self.env[U(target)] = value
        elif isinstance(target, (ast.Tuple, ast.List)):
            if isinstance(expr, (ast.Tuple, ast.List)) and len(expr.elts) == len(target.elts):
                vals = [self.value(e) for e in expr.elts]
                for t, v, e in zip(target.elts, vals, expr.elts):
                    self.bind(t, v, e)
            else:
                for n in target_names(target):
                    self.env[n] = Opaque(expr, 'unpack:' + n)

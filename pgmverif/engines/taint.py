"""E4 - inter-procedural taint / non-interference analysis of the mechanisms.

Abstract interpretation with inlining of repository callees (context = the abstract arguments), flow-sensitive,
with structured abstract values (tuples element-wise, dict keys / values, list elements, closures, Datasets).
Sources: the dataset parameter of an entry.  Declassifiers (the DP primitives): `T + noise(...)` and
`choice(n, p=T)`.  Everything that must be public is a sink: entry return values, branch / loop / comprehension
conditions, noise scales and sizes, the candidate count of a selection, arguments of the post-processing engine.
"""
import ast
import copy

from ..srcmodel import AnalysisError, U

NOISE_FUNCS = {'normal', 'laplace'}
NOISE_METHODS = {'gaussian_noise', 'laplace_noise'}
MUTATORS = {'add_edge', 'add_edges_from', 'add_nodes_from', 'add_node', 'union', 'append', 'extend', 'update', 'add',
            'insert', 'setdefault', 'find'}
POSTPROC_CTORS = {'FactoredInference', 'GraphicalModel', 'LocalInference', 'PublicInference'}
MAX_DEPTH = 14


class AV:
    """abstract value: t = value depends on private data; st = its shape/length does;
    count = the taint is exactly the record count (may be declassified under the bounded flag)"""
    __slots__ = ('t', 'st', 'kind', 'elems', 'k', 'v', 'dom', 'fn', 'env', 'mod', 'cls', 'frame', 'count', 'is_noise', 'why', 'undo')

    def __init__(self, t=False, st=False, kind='plain', **kw):
        self.t, self.st, self.kind = t, st, kind
        self.elems = kw.get('elems')
        self.k, self.v = kw.get('k'), kw.get('v')
        self.dom = kw.get('dom')
        self.fn, self.env, self.mod, self.cls = kw.get('fn'), kw.get('env'), kw.get('mod'), kw.get('cls')
        self.frame = kw.get('frame', False)
        self.count = kw.get('count', False)
        self.is_noise = kw.get('is_noise', False)
        self.why = kw.get('why')
        self.undo = kw.get('undo', False)

    def anyt(self):
        if self.kind == 'tuple':
            return self.t or any(e.anyt() for e in self.elems)
        if self.kind == 'dict':
            return self.t or self.k.anyt() or self.v.anyt()
        if self.kind == 'list':
            return self.t or self.v.anyt()
        return self.t

    def reason(self):
        if self.why:
            return self.why
        for sub in (self.elems or []) + [x for x in (self.k, self.v) if x is not None]:
            r = sub.reason()
            if r:
                return r
        return None

    def __repr__(self):
        return '<%s t=%s st=%s>' % (self.kind, self.anyt(), self.st)


def CLEAN():
    return AV()


def join(a, b):
    if a is None:
        return b
    if b is None:
        return a
    if a is b or a.kind == 'obj':
        return a
    if a.kind == b.kind == 'tuple' and len(a.elems) == len(b.elems):
        return AV(a.t or b.t, a.st or b.st, 'tuple', elems=[join(x, y) for x, y in zip(a.elems, b.elems)])
    if a.kind == b.kind == 'dict':
        return AV(a.t or b.t, a.st or b.st, 'dict', k=join(a.k, b.k), v=join(a.v, b.v))
    if a.kind == b.kind == 'list':
        return AV(a.t or b.t, a.st or b.st, 'list', v=join(a.v, b.v))
    if a.kind == b.kind == 'dataset':
        return AV(a.t or b.t, a.st or b.st, 'dataset', dom=join(a.dom, b.dom), undo=a.undo and b.undo)
    if a.kind == b.kind == 'func':
        return a
    if a.kind == b.kind == 'noisefn':
        return a
    if a.kind == b.kind:
        return AV(a.t or b.t, a.st or b.st, a.kind, frame=a.frame or b.frame, count=(a.count or not a.t) and (b.count or not b.t)
                  and (a.t or b.t), why=a.why or b.why, undo=a.undo and b.undo)
    return AV(a.anyt() or b.anyt(), a.st or b.st, why=a.reason() or b.reason())


def deep(a):
    if a is None:
        return None
    if isinstance(a, dict):
        return ('views', tuple(sorted(a.items())))
    if a.kind == 'tuple':
        return ('T', a.t, tuple(deep(e) for e in a.elems))
    if a.kind == 'dict':
        return ('D', a.t, deep(a.k), deep(a.v))
    if a.kind == 'list':
        return ('L', a.t, deep(a.v))
    if a.kind == 'dataset':
        return ('DS', a.t, deep(a.dom), a.undo)
    return (a.kind, a.t, a.st, a.frame, a.count)


def env_join(e1, e2):
    out = {k: join(e1.get(k), e2.get(k)) for k in (set(e1) | set(e2)) - {'__views__'}}
    v1, v2 = e1.get('__views__') or {}, e2.get('__views__') or {}
    out['__views__'] = ViewMap({k: b for k, b in v1.items() if v2.get(k) == b})       # a view relation must hold on both paths
    return out


def env_eq(e1, e2):
    return set(e1) == set(e2) and all(deep(e1[k]) == deep(e2[k]) for k in e1)


def inplace_noise_passes(fn_node):
    """{container name: line} for loops `for <targets> in X / X[..]:` whose body adds a noise draw IN PLACE (`t += <noise>`) to one of the loop's
    own targets"""
    out = {}
    for lp in ast.walk(fn_node):
        if not isinstance(lp, ast.For):
            continue
        it = lp.iter
        if isinstance(it, ast.Subscript):
            it = it.value
        if not isinstance(it, ast.Name):
            continue
        tnames = {n.id for n in ast.walk(lp.target) if isinstance(n, ast.Name)}
        for st in lp.body:
            if isinstance(st, ast.AugAssign) and isinstance(st.op, ast.Add) and isinstance(st.target, ast.Name) and st.target.id in tnames \
                    and any(isinstance(c, ast.Call) and U(c.func).split('.')[-1] in ('normal', 'laplace', 'gaussian_noise', 'laplace_noise')
                            for c in ast.walk(st.value)):
                out[it.id] = st.lineno
    return out


class Release:
    def __init__(self, kind, mod, func, node, data_expr, params):
        self.kind, self.mod, self.func, self.node, self.data_expr, self.params = kind, mod, func, node, data_expr, params
        self.stack = ()

    def key(self):
        return (self.mod.rel, self.node.lineno, self.node.col_offset)


class ViewMap(dict):
    """view name -> base name (numpy basic slices share memory); travels in the environment under '__views__'"""
    kind = 'views'
    t = st = False
    count = False

    def anyt(self):
        return False

    def reason(self):
        return None


def pure_binding_arms(st):
    """names bound by an if / elif / else whose arms consist only of `name = <expression without side effects>` statements (calls allowed only
    to numpy / scipy functions and methods of local values that do not mutate: no in-place methods, no stores, no returns); None otherwise"""
    names = set()

    def arm(block):
        for s_ in block:
            if isinstance(s_, ast.If):
                if not arm(s_.body) or not arm(s_.orelse):
                    return False
                continue
            if not (isinstance(s_, ast.Assign) and len(s_.targets) == 1 and isinstance(s_.targets[0], ast.Name)):
                return False
            for c in ast.walk(s_.value):
                if isinstance(c, ast.Call):
                    f = U(c.func)
                    last = f.split('.')[-1]
                    if not (f.split('.')[0] in ('np', 'numpy', 'scipy', 'math') or f in ('softmax', 'logsumexp', 'float', 'int', 'len', 'abs', 'min', 'max', 'sum')
                            or last in ('sum', 'max', 'min', 'mean', 'astype', 'copy', 'any', 'all')):
                        return False
                    if last in ('choice', 'normal', 'laplace', 'shuffle', 'permutation', 'multinomial', 'seed', 'random', 'rand', 'randn'):
                        return False
            names.add(s_.targets[0].id)
        return True
    if not st.orelse or not arm(st.body) or not arm(st.orelse):
        return None
    return names or None


def is_basic_slice(sl):
    if isinstance(sl, ast.Slice):
        return True
    if isinstance(sl, ast.Tuple):
        return all(isinstance(x, ast.Slice) or (isinstance(x, ast.Constant) and x.value is Ellipsis) for x in sl.elts) and \
            any(isinstance(x, ast.Slice) for x in sl.elts)
    return False


class Taint:
    def __init__(self, repo, files):
        self.repo = repo
        self.mods = {rel: repo.module(rel) for rel in files}
        self.violations = []      # (mod, func qualname, node, what, why)
        self.releases = {}
        self.notes = []
        self.sinks = {}           # (rel, line, col, what) -> bool tainted
        self.depth = 0
        self.stack = []           # function qualnames being interpreted
        self.rets = []
        self.accessors = set()

    # ------------------------------------------------------------------ bookkeeping
    def cur(self):
        return self.stack[-1] if self.stack else '<module>'

    def violation(self, node, mod, what, av=None):
        self.violations.append((mod, self.cur(), node, what, av.reason() if av is not None else None))

    def sink(self, av, node, mod, what):
        key = (mod.rel, getattr(node, 'lineno', 0), getattr(node, 'col_offset', 0), what)
        bad = av is not None and av.anyt()
        self.sinks[key] = self.sinks.get(key, False) or bad
        if bad:
            self.violation(node, mod, what, av)

    def tainted(self, t, st, why, **kw):
        return AV(t, st, why=why, **kw)

    # ------------------------------------------------------------------ expressions
    def ev(self, e, env, mod):
        m = getattr(self, 'ev_' + type(e).__name__, None)
        if m is None:
            raise AnalysisError('%s:%d: unsupported expression %s in taint analysis' % (mod.rel, getattr(e, 'lineno', 0), type(e).__name__))
        return m(e, env, mod)

    def ev_Constant(self, e, env, mod):
        return CLEAN()

    def ev_JoinedStr(self, e, env, mod):
        return CLEAN()

    def ev_Name(self, e, env, mod):
        if e.id in env:
            return env[e.id]
        if e.id in mod.funcs and '.' not in e.id:
            return AV(kind='func', fn=mod.funcs[e.id].node, env={}, mod=mod)
        return CLEAN()

    def ev_Tuple(self, e, env, mod):
        return AV(kind='tuple', elems=[self.ev(x, env, mod) for x in e.elts])

    def ev_List(self, e, env, mod):
        v = CLEAN()
        for x in e.elts:
            v = join(v, self.ev(x, env, mod))
        return AV(kind='list', v=v)

    ev_Set = ev_List

    def ev_Dict(self, e, env, mod):
        k, v = CLEAN(), CLEAN()
        for a, b in zip(e.keys, e.values):
            if a is not None:
                k = join(k, self.ev(a, env, mod))
            v = join(v, self.ev(b, env, mod))
        return AV(kind='dict', k=k, v=v)

    def flat(self, a):
        return AV(a.anyt(), a.st, frame=a.frame, count=a.count, why=a.reason())

    def ev_UnaryOp(self, e, env, mod):
        return self.flat(self.ev(e.operand, env, mod))

    def ev_BoolOp(self, e, env, mod):
        r = CLEAN()
        for x in e.values:
            r = join(r, self.flat(self.ev(x, env, mod)))
        return r

    def ev_Compare(self, e, env, mod):
        if len(e.ops) == 1 and isinstance(e.ops[0], (ast.In, ast.NotIn)):
            c = self.ev(e.comparators[0], env, mod)
            if c.kind == 'dict':
                # `k in D`: a fact about the KEYS of the mapping, whatever the values are
                return join(self.flat(self.ev(e.left, env, mod)), self.flat(c.k) if c.k is not None else CLEAN())
        r = self.flat(self.ev(e.left, env, mod))
        for x in e.comparators:
            r = join(r, self.flat(self.ev(x, env, mod)))
        if all(isinstance(o, (ast.Is, ast.IsNot)) for o in e.ops) and \
                any(isinstance(c, ast.Constant) and c.value is None for c in e.comparators):
            return CLEAN()          # `x is None` is a fact about the call signature
        r.count = False
        return r

    def is_bounded_flag(self, test, env=None):
        t = U(test)
        if t == 'bounded':
            return True
        if t == 'self.bounded':
            # only a flag that the constructor chain really binds to the adjacency parameter may declassify
            me = (env or {}).get('self')
            return me is not None and me.kind == 'obj' and self.genuine_bounded(me.cls)
        return False

    def genuine_bounded(self, cls):
        """every constructor from `cls` up to the class that stores self.bounded passes a `bounded` parameter or a
        boolean constant into the base's `bounded` parameter"""
        rel, cname = cls
        for _ in range(6):
            mod = self.mods[rel]
            init = mod.funcs.get('%s.__init__' % cname)
            cdef = mod.classes.get(cname)
            if init is None:
                return False
            for s in ast.walk(init.node):
                if isinstance(s, ast.Assign) and any(U(t) == 'self.bounded' for t in s.targets):
                    return U(s.value) == 'bounded' and 'bounded' in init.params
            # find the base class and the super().__init__ call
            bases = [U(b) for b in cdef.bases] if cdef is not None else []
            base = None
            for r2, m2 in self.mods.items():
                if bases and bases[0] in m2.classes:
                    base = (r2, bases[0])
            if base is None:
                return False
            binit = self.mods[base[0]].funcs.get('%s.__init__' % base[1])
            call = None
            for c in ast.walk(init.node):
                if isinstance(c, ast.Call) and isinstance(c.func, ast.Attribute) and c.func.attr == '__init__' and \
                        (U(c.func.value).startswith('super(') or U(c.func.value) == base[1]):
                    call = c
            if binit is None or call is None or 'bounded' not in binit.params:
                return False
            bparams = [p for p in binit.params if p != 'self']
            args = list(call.args)
            if U(call.func.value) == base[1] and args:
                args = args[1:]
            bound = None
            idx = bparams.index('bounded')
            if idx < len(args):
                bound = args[idx]
            for k in call.keywords:
                if k.arg == 'bounded':
                    bound = k.value
            if bound is None:
                d = binit.defaults().get('bounded')
                return isinstance(d, ast.Constant)
            if isinstance(bound, ast.Constant) and isinstance(bound.value, bool):
                return True
            if not (isinstance(bound, ast.Name) and bound.id == 'bounded' and 'bounded' in init.params):
                return False
            rel, cname = base
            # the base stores the flag: checked at the top of the next iteration
        return False

    def ev_IfExp(self, e, env, mod):
        test = self.ev(e.test, env, mod)
        a, b = self.ev(e.body, env, mod), self.ev(e.orelse, env, mod)
        if self.is_bounded_flag(e.test, env):
            # bounded adjacency: the record count is public (neighbours have equal size)
            if a.count:
                a = CLEAN()
            return join(a, b)
        self.sink(test, e.test, mod, 'private data decides a conditional expression')
        return join(a, b)

    def ev_Lambda(self, e, env, mod):
        return AV(kind='func', fn=e, env=dict(env), mod=mod)

    def ev_Starred(self, e, env, mod):
        return self.ev(e.value, env, mod)

    def ev_Slice(self, e, env, mod):
        r = CLEAN()
        for x in (e.lower, e.upper, e.step):
            if x is not None:
                r = join(r, self.flat(self.ev(x, env, mod)))
        return r

    def ev_BinOp(self, e, env, mod):
        l, r = self.ev(e.left, env, mod), self.ev(e.right, env, mod)
        if isinstance(e.op, ast.Add):
            for data, noise, dexpr, nexpr in ((l, r, e.left, e.right), (r, l, e.right, e.left)):
                if noise.is_noise:
                    rel = Release('noise', mod, self.cur(), e, dexpr, noise.env)
                    rel.stack = tuple(self.stack)
                    self.releases.setdefault(rel.key(), rel)
                    return AV(False, data.st)
            if l.kind == 'list' and r.kind == 'list':
                return join(l, r)
            if l.kind == 'tuple' and r.kind == 'tuple':
                return AV(kind='tuple', elems=list(l.elems) + list(r.elems))
        if isinstance(e.op, ast.Mult):
            # noise scaled by a public number is noise (of that many times the scale)
            for a_, b_, ae in ((l, r, e.left), (r, l, e.right)):
                if b_.is_noise and not a_.anyt() and isinstance(b_.env, dict) and b_.env.get('scale') is not None and \
                        not (isinstance(ae, ast.Constant) and ae.value == 0):
                    out = CLEAN()
                    out.is_noise = True
                    out.env = dict(b_.env)
                    out.env['scale'] = ast.BinOp(left=ae, op=ast.Mult(), right=b_.env['scale'])
                    return out
        if (l.is_noise or r.is_noise) and not isinstance(e.op, ast.Add):
            # noise * 0, noise - x ... : not the additive-noise primitive; the noise is just a public random value
            pass
        return AV(l.anyt() or r.anyt(), l.st or r.st, why=l.reason() or r.reason())

    def ev_Attribute(self, e, env, mod):
        if (mod.dotted(e) or '') in ('numpy.random',):
            return AV(kind='rng')
        b = self.ev(e.value, env, mod)
        if e.attr in NOISE_FUNCS and (b.kind == 'rng' or (mod.dotted(e) or '').startswith('numpy.random')):
            # a noise sampler taken as a value (`sample = np.random.laplace if ... else np.random.normal`)
            return AV(kind='noisefn', fn=e)
        if b.kind == 'dataset':
            if e.attr == 'domain':
                return b.dom or CLEAN()
            if b.t:
                self.accessors.add((mod.rel, e.lineno, e.col_offset, U(e)))
            if e.attr == 'records':
                return AV(b.t, count=b.t, why='the record count `%s`' % U(e) if b.t else None)
            if e.attr == 'df':
                return AV(b.t, b.t, frame=True, why='the private records `%s`' % U(e) if b.t else None)
            return AV(b.t, why='`%s` of the private dataset' % U(e) if b.t else None)
        if b.kind == 'obj':
            key = 'self.' + e.attr
            return (b.env or {}).get(e.attr, CLEAN())
        if e.attr == 'dtypes' and b.frame and b.t:
            # the dtypes pandas INFERRED for the private table: one record with an empty cell turns an integer column into a float column
            return AV(True, why='the column dtypes inferred from the private records (`%s`)' % U(e))
        if e.attr in ('dtype', 'dtypes'):
            return CLEAN()            # the schema is public
        if e.attr == 'columns' and b.frame:
            return CLEAN()            # the column labels of a dataset's frame are its schema
        if e.attr == 'empty' and b.frame and b.t:
            # DataFrame.empty is true when ANY axis has length 0: also for a table with columns but no records
            return AV(True, count=True, why='whether the private frame has no records (`%s`)' % U(e))
        if e.attr == 'shape' and b.frame and b.t and isinstance(e.value, ast.Attribute) and e.value.attr == 'df':
            # (rows, columns) of a dataset's frame: the number of records (private; public only under bounded adjacency) and the number
            # of attributes (the schema, public)
            return AV(kind='tuple', elems=[AV(True, count=True, why='the record count `%s[0]`' % U(e)), CLEAN()])
        if e.attr in ('size', 'shape', 'ndim'):
            t = b.st or (b.frame and b.t)
            return AV(t, why=('the shape of ' + (b.reason() or 'a private frame')) if t else None)
        if e.attr == 'T':
            return b
        return self.flat(b) if b.kind != 'func' else b

    def ev_Subscript(self, e, env, mod):
        b = self.ev(e.value, env, mod)
        i = self.ev(e.slice, env, mod)
        if b.kind == 'tuple' and isinstance(e.slice, ast.Constant) and isinstance(e.slice.value, int) \
                and -len(b.elems) <= e.slice.value < len(b.elems):
            return b.elems[e.slice.value]
        if b.kind == 'tuple':
            r = CLEAN()
            for x in b.elems:
                r = join(r, x)
            return r
        if b.kind in ('dict', 'list'):
            return join(b.v, AV(i.anyt(), why=i.reason()))
        if b.is_noise and not i.anyt():
            out = CLEAN()                       # a part of a buffer of noise draws is noise of the same scale
            out.is_noise = True
            out.env = b.env
            return out
        it = i.anyt()
        if it and not b.anyt() and isinstance(e.ctx, ast.Load) and b.kind not in ('dict', 'list', 'tuple', 'func') and not isinstance(e.slice, ast.Slice):
            # a PUBLIC table read at positions given by private values: a value outside the table (a code not in the domain, an empty cell)
            # raises, and whether it does is decided by the records themselves
            self.sink(i, e, mod, 'private values index a public table (`%s`): an out-of-range or missing value raises, so whether the run '
                      'continues is decided by the private records' % U(e)[:50])
        return AV(b.anyt() or it, b.st or it, frame=b.frame, why=b.reason() or i.reason())

    def comp(self, e, env, mod, elt):
        env = dict(env)
        for g in e.generators:
            it = self.ev(g.iter, env, mod)
            self.sink(AV(it.st, why=it.reason()), g.iter, mod, 'private data decides the length of a comprehension')
            self.bind(g.target, self.iter_elem(it), env, mod)
            for c in g.ifs:
                self.sink(self.ev(c, env, mod), c, mod, 'private data decides a comprehension filter')
        return elt(env)

    def ev_ListComp(self, e, env, mod):
        return self.comp(e, env, mod, lambda en: AV(kind='list', v=self.ev(e.elt, en, mod)))

    ev_GeneratorExp = ev_ListComp
    ev_SetComp = ev_ListComp

    def ev_DictComp(self, e, env, mod):
        return self.comp(e, env, mod, lambda en: AV(kind='dict', k=self.ev(e.key, en, mod), v=self.ev(e.value, en, mod)))

    def iter_elem(self, it):
        if it.kind == 'list':
            return it.v
        if it.kind == 'dict':
            return it.k
        if it.kind == 'tuple':
            r = None
            for x in it.elems:
                r = join(r, x)
            return r or CLEAN()
        if it.kind == 'dataset':
            return CLEAN()
        return AV(it.anyt(), why=it.reason())

    # ------------------------------------------------------------------ calls
    def ev_Call(self, e, env, mod):
        f = e.func
        fname = U(f)
        args = [self.ev(a, env, mod) for a in e.args]
        kws = {k.arg: self.ev(k.value, env, mod) for k in e.keywords if k.arg}
        allv = args + list(kws.values())
        anyt = any(a.anyt() for a in allv)
        anyst = any(a.st for a in allv)
        why = None
        for a in allv:
            why = why or a.reason()
        # ---- DP primitives: noise --------------------------------------------------------------------------
        if isinstance(f, ast.Name):
            fv = self.ev(f, env, mod)
            if fv.kind == 'noisefn':
                call2 = ast.copy_location(ast.Call(func=fv.fn, args=e.args, keywords=e.keywords), e)
                return self.ev_Call(call2, env, mod)
        if isinstance(f, ast.Attribute) and (f.attr in NOISE_FUNCS or f.attr in NOISE_METHODS):
            d = mod.dotted(f) or ''
            recv = U(f.value)
            rv = self.ev(f.value, env, mod)
            if d.startswith('numpy.random') or rv.kind == 'rng' or recv in ('prng', 'self.prng', 'self', 'np.random'):
                if f.attr in NOISE_METHODS:
                    scale = args[0] if args else kws.get('sigma', kws.get('b', CLEAN()))
                    size = args[1] if len(args) > 1 else kws.get('size', CLEAN())
                    scale_e = e.args[0] if e.args else None
                    size_e = e.args[1] if len(e.args) > 1 else None
                else:
                    scale = kws.get('scale', args[1] if len(args) > 1 else CLEAN())
                    size = kws.get('size', args[2] if len(args) > 2 else CLEAN())
                    scale_e = next((k.value for k in e.keywords if k.arg == 'scale'), e.args[1] if len(e.args) > 1 else None)
                    size_e = next((k.value for k in e.keywords if k.arg == 'size'), e.args[2] if len(e.args) > 2 else None)
                self.sink(scale, e, mod, 'noise scale depends on private data')
                self.sink(size, e, mod, 'number of noise draws depends on private data')
                r = CLEAN()
                r.is_noise = True
                r.env = {'dist': 'laplace' if 'laplace' in f.attr else 'gaussian', 'scale': scale_e, 'size': size_e, 'call': e}
                return r
        # ---- DP primitives: selection --------------------------------------------------------------------------
        if isinstance(f, ast.Attribute) and f.attr == 'choice' and 'p' in kws:
            self.sink(args[0] if args else CLEAN(), e, mod, 'number of selection candidates depends on private data')
            if kws['p'].anyt():
                rel = Release('selection', mod, self.cur(), e, next(k.value for k in e.keywords if k.arg == 'p'), {'call': e})
                rel.stack = tuple(self.stack)
                self.releases.setdefault(rel.key(), rel)
            return CLEAN()
        # ---- post-processing sinks --------------------------------------------------------------------------------
        if fname in POSTPROC_CTORS or (isinstance(f, ast.Attribute) and f.attr in ('estimate', 'infer')):
            # a container whose elements are perturbed IN PLACE by a separate pass (`for .., y, .. in X[k:]: y += noise`) holds the noisy arrays
            # afterwards - for the elements the pass covers.  Which elements those are is not decided here: no verdict either way.
            fn_ = mod.funcs.get(self.cur()) if hasattr(mod, 'funcs') else None
            if fn_ is not None:
                passes = inplace_noise_passes(fn_.node)
                for a_ in e.args:
                    if isinstance(a_, ast.Name) and a_.id in passes and any(v_ is not None and v_.anyt() for v_ in allv):
                        raise AnalysisError('%s:%d: `%s` receives exact answers that a later pass perturbs in place (line %d): whether that pass covers '
                                            'every exact answer in the container is not decided'
                                            % (mod.rel, getattr(e, 'lineno', 0), a_.id, passes[a_.id]))
            for a in allv:
                self.sink(a, e, mod, 'private value handed to post-processing `%s`' % fname)
            if isinstance(f, ast.Attribute):
                self.ev(f.value, env, mod)
            r = CLEAN()
            r.kind = 'model' if not fname in POSTPROC_CTORS else 'engine'
            if fname in POSTPROC_CTORS and e.args:
                r.dom = args[0]
                r.env = {'domain_expr': e.args[0]}
            return r
        if fname == 'print':
            if anyt:
                self.notes.append('%s:%d: print of a value derived from private data (diagnostic output; not a sink)' % (mod.rel, e.lineno))
            return CLEAN()
        if fname in ('isinstance', 'type', 'callable', 'hasattr'):
            return CLEAN()
        if fname == 'len':
            a = args[0]
            t = a.st or (a.frame and a.t)
            return AV(t, why=('the length of ' + (a.reason() or 'a private frame')) if t else None)
        if fname == 'Dataset':
            df = args[0]
            dom = args[1] if len(args) > 1 else kws.get('domain', CLEAN())
            return AV(df.anyt(), kind='dataset', dom=dom, why=df.reason())
        if fname == 'zip':
            return AV(kind='list', v=AV(kind='tuple', elems=[self.iter_elem(a) for a in args]))
        if fname == 'enumerate':
            return AV(kind='list', v=AV(kind='tuple', elems=[CLEAN(), self.iter_elem(args[0])]))
        if fname in ('list', 'tuple', 'sorted', 'set', 'reversed') and args:
            a = args[0]
            return a if a.kind == 'list' else AV(kind='list', v=self.iter_elem(a), st=a.st)
        if fname in ('max', 'min', 'sum', 'abs', 'float', 'int', 'round'):
            t = any(self.iter_elem(a).anyt() if a.kind in ('list', 'dict', 'tuple') else a.anyt() for a in allv)
            return AV(t, why=why if t else None, count=all(a.count for a in allv if a.anyt()) and t and fname in ('float', 'int'))
        if fname.split('.')[-1] == 'bincount' and fname.split('.')[0] in ('np', 'numpy') and args:
            # histogram of a private integer column: cell counts are private; the LENGTH is public only when a public minlength
            # fixes it (otherwise it is max(column)+1 - a function of the records)
            ml = kws.get('minlength', args[2] if len(args) > 2 else None)
            t = args[0].anyt() or (kws.get('weights') is not None and kws['weights'].anyt())
            shape_private = t and (ml is None or ml.anyt())
            if ml is not None and not ml.anyt() and t:
                # with a public minlength the length is still max(...)+1 when a value exceeds it; values are codes below the public size
                pass
            return AV(t, shape_private, why=('the exact marginal `%s`' % U(e)[:50]) if t else None)
        if fname in ('np.issubdtype', 'numpy.issubdtype'):
            return CLEAN()        # column dtypes are part of the public schema
        if fname == 'range':
            self.sink(AV(anyt, why=why), e, mod, 'private data decides a loop bound')
            return AV(kind='list', v=CLEAN())
        # ---- methods on abstract kinds -----------------------------------------------------------------------------------
        if isinstance(f, ast.Attribute):
            b = self.ev(f.value, env, mod)
            if b.kind == 'dataset':
                if b.t:
                    self.accessors.add((mod.rel, e.lineno, e.col_offset, U(e)[:60]))
                if f.attr in ('project', 'drop'):
                    return AV(b.t, kind='dataset', dom=CLEAN(), why=b.reason())
                if f.attr == 'datavector':
                    return AV(b.t, False, why='the exact marginal `%s`' % U(e)[:50] if b.t else None)
            if b.kind == 'dict':
                if f.attr == 'keys':
                    return AV(kind='list', v=b.k)
                if f.attr == 'values':
                    return AV(kind='list', v=b.v)
                if f.attr == 'items':
                    return AV(kind='list', v=AV(kind='tuple', elems=[b.k, b.v]))
                if f.attr == 'get':
                    return join(b.v, args[1] if len(args) > 1 else CLEAN())
                if f.attr == 'update':
                    b.v = join(b.v, self.flat(args[0]) if args else CLEAN())
                    return CLEAN()
            if b.kind == 'list' and f.attr in ('append', 'extend', 'insert'):
                b.v = join(b.v, args[-1] if f.attr != 'extend' else self.iter_elem(args[0]))
                return CLEAN()
            if b.kind == 'model' and f.attr == 'synthetic_data':
                # the number of generated rows (and anything else passed in) shows in the output
                given = [a for a in list(args) + [v for _, v in (kws.items() if isinstance(kws, dict) else kws)] if a is not None and a.anyt()]
                r = AV(bool(given), kind='dataset', dom=b.dom if b.dom is not None else CLEAN(),
                       why=('synthetic data generated with an argument derived from ' + (given[0].reason() or 'private data')) if given else None)
                r.env = b.env
                return r
            if b.kind == 'engine' and f.attr == 'model':
                return b
            # self.method(...) for classes in scope
            if isinstance(f.value, ast.Name) and f.value.id == 'self' and env.get('self') is not None and env['self'].kind == 'obj':
                m = self.find_method(env['self'].cls, f.attr)
                if m is not None:
                    return self.call(m[1], m[0], [env['self']] + args, kws, e, qual='%s.%s' % (m[2], f.attr))
            if isinstance(f.value, ast.Call) and U(f.value.func) == 'super':
                return CLEAN()
            # receiver absorption: an unmodelled mutator joins its arguments into the receiver
            if f.attr in MUTATORS and anyt and isinstance(f.value, ast.Name) and f.value.id in env:
                cur = env[f.value.id]
                env[f.value.id] = AV(True, cur.st, kind=cur.kind if cur.kind == 'plain' else 'plain', why=why)
        # ---- repository functions -------------------------------------------------------------------------------------------
        target = None
        if isinstance(f, ast.Name):
            if f.id in env and env[f.id].kind == 'func':
                target = env[f.id]
            elif f.id in mod.funcs:
                target = AV(kind='func', fn=mod.funcs[f.id].node, env={}, mod=mod)
        if target is not None:
            qual = getattr(target.fn, 'name', '<lambda>')
            r = self.call(target.fn, target.mod, args, kws, e, closure=target.env, qual=qual)
            return r
        # ---- library default: the result depends on everything that went in ------------------------------------------
        recv_t = recv_st = frame = False
        if isinstance(f, ast.Attribute):
            b = self.ev(f.value, env, mod)
            recv_t, recv_st, frame = b.anyt(), b.st, b.frame
            why = why or b.reason()
        t = anyt or recv_t
        return AV(t, anyst or recv_st, frame=frame, why=why if t else None)

    def find_method(self, cls, name):
        rel, cname = cls
        while True:
            mod = self.mods[rel]
            fi = mod.funcs.get('%s.%s' % (cname, name))
            if fi is not None:
                return (mod, fi.node, cname)
            cdef = mod.classes.get(cname)
            bases = [U(b) for b in cdef.bases] if cdef is not None else []
            found = None
            for r2, m2 in self.mods.items():
                if bases and bases[0] in m2.classes:
                    found = (r2, bases[0])
            if not found:
                return None
            rel, cname = found

    def call(self, fn, mod, args, kws, site, closure=None, qual=None):
        self.depth += 1
        if self.depth > MAX_DEPTH:
            self.depth -= 1
            raise AnalysisError('taint analysis: inlining depth exceeded at %s' % qual)
        env = dict(closure or {})
        a = fn.args
        params = [p.arg for p in a.args]
        defaults = [None] * (len(params) - len(a.defaults)) + list(a.defaults)
        for i, p in enumerate(params):
            if i < len(args):
                env[p] = args[i]
            elif p in kws:
                env[p] = kws[p]
            elif defaults[i] is not None:
                env[p] = self.ev(defaults[i], {}, mod)
            else:
                env[p] = CLEAN()
        if a.kwarg:
            env[a.kwarg.arg] = CLEAN()
        self.stack.append(qual or getattr(fn, 'name', '<lambda>'))
        if isinstance(fn, ast.Lambda):
            r = self.ev(fn.body, env, mod)
        else:
            self.rets.append(None)
            self.block(fn.body, env, mod)
            r = self.rets.pop() or CLEAN()
        self.stack.pop()
        self.depth -= 1
        return r

    # ------------------------------------------------------------------ statements
    def bind(self, tgt, val, env, mod):
        if isinstance(tgt, ast.Name):
            env[tgt.id] = val
        elif isinstance(tgt, (ast.Tuple, ast.List)):
            if val.kind == 'tuple' and len(val.elems) == len(tgt.elts):
                for t, v in zip(tgt.elts, val.elems):
                    self.bind(t, v, env, mod)
            else:
                ev = self.iter_elem(val) if val.kind in ('list', 'tuple') else AV(val.anyt(), val.st, why=val.reason())
                for t in tgt.elts:
                    self.bind(t, ev, env, mod)
        elif isinstance(tgt, ast.Starred):
            self.bind(tgt.value, val, env, mod)
        elif isinstance(tgt, ast.Subscript):
            b = self.ev(tgt.value, env, mod)
            i = self.ev(tgt.slice, env, mod)
            if b.kind == 'dict':
                b.k = join(b.k, self.flat(i) if i.kind != 'tuple' else i)
                b.v = join(b.v, val)
            elif b.kind == 'list':
                b.v = join(b.v, val)
            else:
                if val.anyt() or i.anyt():
                    b.t = True
                    b.why = b.why or val.reason() or i.reason()
                    if isinstance(tgt.value, ast.Attribute) and isinstance(tgt.value.value, ast.Name) and tgt.value.attr == 'loc':
                        base = env.get(tgt.value.value.id)
                        if base is not None:
                            base.t = True
                            base.why = base.why or val.reason() or i.reason()
        elif isinstance(tgt, ast.Attribute):
            b = self.ev(tgt.value, env, mod)
            if b.kind == 'obj':
                if b.env is None:
                    b.env = {}
                b.env[tgt.attr] = val
            elif val.anyt():
                b.t = True
                b.why = b.why or val.reason()

    def block(self, stmts, env, mod):
        for st in stmts:
            self.stmt(st, env, mod)

    def stmt(self, st, env, mod):
        if isinstance(st, ast.Assign):
            v = self.ev(st.value, env, mod)
            for t in st.targets:
                self.bind(t, v, env, mod)
            # numpy views: `n = b[lo:hi]` shares memory with b, so a later in-place `b += noise` is seen through n as well
            views = ViewMap(env.get('__views__') or {})
            for t in st.targets:
                for nm in ([t.id] if isinstance(t, ast.Name) else []):
                    views.pop(nm, None)
                    for k in [k for k, b_ in views.items() if b_ == nm]:
                        del views[k]
            if len(st.targets) == 1 and isinstance(st.targets[0], ast.Name) and isinstance(st.value, ast.Subscript) \
                    and isinstance(st.value.value, ast.Name) and is_basic_slice(st.value.slice):
                views[st.targets[0].id] = st.value.value.id
            env['__views__'] = views
        elif isinstance(st, ast.AnnAssign):
            if st.value is not None:
                self.bind(st.target, self.ev(st.value, env, mod), env, mod)
        elif isinstance(st, ast.AugAssign):
            fake = ast.BinOp(left=st.target, op=st.op, right=st.value)
            ast.copy_location(fake, st)
            v = self.ev(fake, env, mod)
            self.bind(st.target, v, env, mod)
            if isinstance(st.target, ast.Name):
                # in place on an array: every view of it holds the updated cells
                for k, b_ in (env.get('__views__') or {}).items():
                    if b_ == st.target.id:
                        env[k] = v
        elif isinstance(st, ast.Expr):
            self.ev(st.value, env, mod)
        elif isinstance(st, ast.Return):
            v = self.ev(st.value, env, mod) if st.value else CLEAN()
            self.rets[-1] = join(self.rets[-1], v)
        elif isinstance(st, ast.If):
            t = self.ev(st.test, env, mod)
            implicit = None
            if t.anyt() and not self.is_bounded_flag(st.test, env):
                # a branch whose arms only BIND local names to call-free values (an if / elif / else choosing how one quantity is computed): the
                # choice is a dependence of those names on the tested data - they become private - and nothing else observable happens
                implicit = pure_binding_arms(st)
            if not self.is_bounded_flag(st.test, env) and implicit is None:
                self.sink(t, st.test, mod, 'private data decides a branch')
            e1, e2 = copy.copy(env), copy.copy(env)
            self.block(st.body, e1, mod)
            if self.is_bounded_flag(st.test, env):
                # under bounded adjacency the record count is public
                for k, v in list(e1.items()):
                    if v is not None and v.count and v is not env.get(k):
                        e1[k] = CLEAN()
            self.block(st.orelse, e2, mod)
            env.clear()
            env.update(env_join(e1, e2))
            if implicit:
                for nm in implicit:
                    cur = env.get(nm)
                    env[nm] = join(cur, AV(True, False, why=t.reason())) if cur is not None else AV(True, False, why=t.reason())
        elif isinstance(st, (ast.For, ast.While)):
            for _ in range(8):
                before = dict(env)
                if isinstance(st, ast.For):
                    it = self.ev(st.iter, env, mod)
                    self.sink(AV(it.st, why=it.reason()), st.iter, mod, 'private data decides a loop bound')
                    self.bind(st.target, self.iter_elem(it), env, mod)
                else:
                    self.sink(self.ev(st.test, env, mod), st.test, mod, 'private data decides a loop condition')
                self.block(st.body, env, mod)
                j = env_join(before, env)
                if env_eq(j, before):
                    break
                env.clear()
                env.update(j)
            else:
                raise AnalysisError('%s:%d: taint fixpoint not reached' % (mod.rel, st.lineno))
        elif isinstance(st, ast.FunctionDef):
            env[st.name] = AV(kind='func', fn=st, env=env, mod=mod)
        elif isinstance(st, ast.Assert):
            self.sink(self.ev(st.test, env, mod), st.test, mod, 'private data decides an assertion')
        elif isinstance(st, ast.Raise):
            # an error raised on purpose: what it says may not carry private data; WHETHER it is raised is decided by the enclosing tests (sinks)
            if st.exc is not None:
                self.sink(self.ev(st.exc, env, mod), st.exc, mod, 'private data is put into an error message')
        elif isinstance(st, (ast.Pass, ast.Import, ast.ImportFrom, ast.Break, ast.Continue, ast.Global, ast.Nonlocal)):
            pass
        elif isinstance(st, ast.Try):
            self.block(st.body, env, mod)
            for h in st.handlers:
                self.block(h.body, env, mod)
        else:
            raise AnalysisError('%s:%d: unsupported statement %s in taint analysis' % (mod.rel, st.lineno, type(st).__name__))

"""Command line driver:  ./check <id>|all [--tier quick|thorough] ;  ./check explain <replay> ; ./check selftest [id]"""
import importlib
import json
import os
import sys
import time
import traceback

from .srcmodel import AnalysisError, Repo, U
from .report import Ctx, finish, write_evidence, VERIF_ROOT

CLAIMED = ['C11', 'C01', 'C02', 'C04', 'C05', 'C06', 'C07', 'C08', 'C09', 'C10', 'C12', 'C13',
           'C14', 'C15', 'C16', 'C18', 'C19', 'C20']


def available():
    out = []
    for p in CLAIMED:
        if os.path.isfile(os.path.join(VERIF_ROOT, 'pgmverif', 'rules', p + '.py')):
            out.append(p)
    return out


def analyse(prop, repo, tier='quick'):
    """Run the rules of one property; returns the Ctx (raises AnalysisError)."""
    mod = importlib.import_module('pgmverif.rules.' + prop)
    ctx = Ctx(prop, repo, tier)
    before = set(repo.__dict__.get('_norm_cache', {}))
    err = None
    try:
        mod.run(ctx)
    except AnalysisError as e:
        err = e
    # memo tables whose key does not determine the memoised value (found by the normalising front-end) in the functions this
    # property looked at: the value computed for one iteration is reused for another
    n_memo = 0
    cache = repo.__dict__.get('_norm_cache', {})
    for key, nf in cache.items():
        if not nf.memo_issues:
            continue
        looked_at = '%s:%s' % (nf.rel, nf.qualname) in ctx.functions
        if not looked_at and not (err is not None and key not in before):
            continue          # normalised while discovering methods, not analysed by this property
        seen_issue = set()
        for node, table, ktext, missing in nf.memo_issues:
            ik = (getattr(node, 'lineno', 0), getattr(node, 'col_offset', 0), table, ktext, repr(missing))
            if ik in seen_issue:
                continue          # the same table judged by two passes of the front-end
            seen_issue.add(ik)
            n_memo += 1
            if table == '!one-shot':
                ctx.ob('iterator-reuse', nf, node, False, missing[0][1:-1], construct='second walk of `%s`' % ktext)
                continue
            if missing and isinstance(missing[0], str) and missing[0].startswith('<') and missing[0].endswith('>'):
                ctx.ob('memo-key', nf, node, False, 'the remembered value `%s[%s]` is not the value the code would compute now: %s'
                       % (table, ktext, '; '.join(m[1:-1] for m in missing)))
                continue
            ctx.ob('memo-key', nf, node, False,
                   'the memo table `%s` is keyed by `%s`, which does not determine the memoised value: the value also depends on %s, so the '
                   'result computed for one iteration is silently reused for another' % (table, ktext, missing))
    # decorators of the functions this property looked at: a verdict on a body only carries over when the decorator is neutral
    from .engines import decorators
    for key in sorted(ctx.functions):
        rel, qual = key.split(':', 1)
        if not repo.exists(rel) or not repo.has_func(rel, qual):
            continue
        fi0 = repo.func(rel, qual)
        try:
            verdicts = decorators.judge(repo, fi0)
        except AnalysisError as e:
            if err is None:
                err = e
            continue
        for ok, node, msg in verdicts:
            if not ok:
                n_memo += 1
            ctx.ob('memo-key', fi0, node, ok, msg, construct='decorator of %s: %s' % (qual, U(node)[:60]))
    # an undecided remainder is reported as such unless a NEW definite finding stands on its own (known findings do not count: they are
    # there on the unchanged tree as well and must not hide an analysis error)
    from .report import load_known, match_known
    known = load_known()
    fresh = [o for o in ctx.violations() if match_known(prop, o, known, repo) is None]
    if err is not None and not n_memo and not fresh:
        raise err
    if err is not None:
        ctx.note('analysis stopped early (%s); the finding(s) established before that are reported on their own' % err)
    return ctx


def run_one(prop, tier, repo_root=None, out=print):
    t0 = time.time()
    seed = int(os.environ.get('VERIF_SEED', '0') or 0)
    repo = Repo(repo_root)
    ctx = Ctx(prop, repo, tier)
    try:
        ctx = analyse(prop, repo, tier)
        selfcheck_error = None
        if tier == 'thorough':
            from .selfcheck import runner
            try:
                runner.validate(prop, ctx, out=out)
            except AnalysisError as e:
                selfcheck_error = e
        rc = finish(ctx, t0, seed, out=out)
        if selfcheck_error is not None and rc == 0:
            raise selfcheck_error
        if selfcheck_error is not None:
            out('note: %s (the property verdict above stands)' % selfcheck_error)
        return rc
    except AnalysisError as e:
        out('ANALYSIS-ERROR property=%s %s' % (prop, e))
        ctx.explanation = ctx.explanation or 'analysis error: %s' % e
        ctx.note('ANALYSIS-ERROR: %s' % e)
        write_evidence(ctx, t0, seed, 0)
        return 2
    except Exception as e:  # tracebacks must never look like violations
        out('ANALYSIS-ERROR property=%s internal error: %s: %s' % (prop, type(e).__name__, e))
        traceback.print_exc()
        ctx.note('ANALYSIS-ERROR: internal %s' % e)
        ctx.explanation = ctx.explanation or 'internal error'
        try:
            write_evidence(ctx, t0, seed, 0)
        except Exception:
            pass
        return 2


def main(argv):
    if not argv:
        print(__doc__)
        return 2
    cmd = argv[0]
    tier = os.environ.get('VERIF_TIER', 'quick') or 'quick'
    repo_root = None
    args = argv[1:]
    i = 0
    rest = []
    while i < len(args):
        if args[i] == '--tier':
            tier = args[i + 1]; i += 2
        elif args[i] == '--repo':
            repo_root = args[i + 1]; i += 2
        else:
            rest.append(args[i]); i += 1
    if tier not in ('quick', 'thorough'):
        tier = 'quick'
    if cmd == 'explain':
        with open(rest[0]) as f:
            print(json.dumps(json.load(f), indent=1))
        return 0
    if cmd == 'selftest':
        from .selfcheck import runner
        return runner.main(rest, repo_root)
    if cmd == 'all':
        rc = 0
        for p in available():
            rc = max(rc, run_one(p, tier, repo_root))
        return rc
    if cmd not in CLAIMED:
        print('ANALYSIS-ERROR property=%s not a claimed property' % cmd)
        return 2
    return run_one(cmd, tier, repo_root)

"""Canonicalising front-end: makes the structural rules see through routine refactorings.

`normalised(repo, fi)` returns a FuncInfo-like object whose body is a rewritten copy of the function:
  * calls to *new* helpers - functions of the same module (module level, methods of the same class reached through
    `self.` / `ClassName.`, nested defs) that are not part of the repository's established function inventory
    (pgmverif/inventory.json) - are inlined, with early returns turned into if/else structure, parameters bound by
    substitution (simple arguments) or fresh temporaries, locals renamed apart, and calls of parameters bound to lambdas /
    operator.add / operator.mul beta-reduced;
  * a list comprehension whose element contains such a call is first unrolled into an explicit loop with `append`;
  * `x = a if c else b` / `return a if c else b` at statement level become if/else statements, tuple forms included;
  * a guard `if c: continue` followed by more statements becomes `if not c: <rest>`.
Nothing here decides a property; it only removes spelling differences before the rules look at the code.
`expand(expr, defs)` is copy propagation on demand: names with exactly one definition in the given block are replaced by
their defining expressions.
"""
import ast
import copy
import json
import os

from .srcmodel import clone, FuncInfo, U, strip_docstring, target_names, walk_shallow, AnalysisError

INVENTORY = os.path.join(os.path.dirname(os.path.abspath(__file__)), 'inventory.json')
_inv = None
MAX_HELPER_STMTS = 60
MAX_DEPTH = 4


def inventory():
    global _inv
    if _inv is None:
        with open(INVENTORY) as f:
            _inv = {k: set(v) for k, v in json.load(f).items()}
    return _inv


def is_established(rel, qualname):
    return qualname in inventory().get(rel, set())


# ------------------------------------------------------------------------------------------------ copy propagation
class Defs:
    """single-assignment definitions of simple names in a list of statements (not descending into nested functions)"""

    def __init__(self, stmts):
        self.defs = {}
        self.count = {}
        for s in stmts:
            for n in walk_shallow(s) if not isinstance(s, list) else []:
                self._visit(n)

    def _visit(self, n):
        if isinstance(n, ast.Assign):
            for t in n.targets:
                if isinstance(t, ast.Name):
                    self.count[t.id] = self.count.get(t.id, 0) + 1
                    self.defs[t.id] = n.value
                else:
                    for nm in target_names(t):
                        self.count[nm] = self.count.get(nm, 0) + 2
        elif isinstance(n, (ast.AugAssign, ast.AnnAssign)):
            for nm in target_names(n.target):
                self.count[nm] = self.count.get(nm, 0) + 2
        elif isinstance(n, (ast.For, ast.comprehension)):
            for nm in target_names(n.target):
                self.count[nm] = self.count.get(nm, 0) + 2

    def single(self, name):
        if self.count.get(name) == 1:
            v = self.defs.get(name)
            if v is not None and name not in {x.id for x in ast.walk(v) if isinstance(x, ast.Name)}:
                return v
        return None


def expand(expr, defs, depth=6, keep=(), comps=False):
    """replace names that have exactly one definition by their defining expression (recursively);
    comprehension-valued definitions are only inlined with comps=True"""
    if expr is None:
        return None
    skip = () if comps else (ast.Lambda, ast.ListComp, ast.DictComp, ast.GeneratorExp, ast.SetComp)

    class Sub(ast.NodeTransformer):
        def __init__(self, d):
            self.d = d

        def visit_Name(self, node):
            if isinstance(node.ctx, ast.Load) and node.id not in keep and self.d > 0:
                v = defs.single(node.id)
                if v is not None and not (skip and isinstance(v, skip)):
                    return Sub(self.d - 1).visit(clone(v))
            return node
    return Sub(depth).visit(clone(expr))


def expanded_text(expr, defs, keep=()):
    return U(expand(expr, defs, keep=keep)).replace(' ', '')


# ------------------------------------------------------------------------------------------------ helpers for the inliner
def contains_return(stmts):
    for s in stmts:
        for n in walk_shallow(s):
            if isinstance(n, ast.Return):
                return True
    return False


def loop_contains_return(stmts):
    for s in stmts:
        for n in walk_shallow(s):
            if isinstance(n, (ast.For, ast.While)) and contains_return(n.body + n.orelse):
                return True
    return False


def single_exit(stmts, result):
    """rewrite a helper body so that every `return E` becomes `result = E` with if/else structure; -> (stmts, falls_through)"""
    out = []
    for i, s in enumerate(stmts):
        if isinstance(s, ast.Return):
            val = s.value if s.value is not None else ast.Constant(value=None)
            out.append(ast.copy_location(ast.Assign(targets=[ast.Name(id=result, ctx=ast.Store())], value=val), s))
            return out, False
        if isinstance(s, ast.If) and contains_return([s]):
            rest = stmts[i + 1:]
            body, ft_b = single_exit(s.body, result)
            if ft_b:
                rb, ft_b = single_exit(clone(rest), result)
                body = body + rb
            orelse, ft_o = single_exit(s.orelse, result)
            if ft_o:
                ro, ft_o = single_exit(clone(rest), result)
                orelse = orelse + ro
            new = ast.copy_location(ast.If(test=s.test, body=body or [ast.Pass()], orelse=orelse), s)
            out.append(new)
            return out, (ft_b or ft_o)
        out.append(s)
    return out, True


class Renamer(ast.NodeTransformer):
    def __init__(self, mapping, exprs):
        self.mapping = mapping       # local name -> new name
        self.exprs = exprs           # param name -> expression to substitute

    def visit_Name(self, node):
        if node.id in self.exprs and isinstance(node.ctx, ast.Load):
            return clone(self.exprs[node.id])
        if node.id in self.mapping:
            return ast.copy_location(ast.Name(id=self.mapping[node.id], ctx=node.ctx), node)
        return node

    def visit_arg(self, node):
        return node

    def visit_Lambda(self, node):
        shadow = {a.arg for a in node.args.args}
        inner = Renamer({k: v for k, v in self.mapping.items() if k not in shadow},
                        {k: v for k, v in self.exprs.items() if k not in shadow})
        node.body = inner.visit(node.body)
        return node


class Beta(ast.NodeTransformer):
    """(lambda x, y: E)(a, b) -> E[a/x, b/y];  operator.add(a, b) -> a + b;  operator.mul(a, b) -> a * b"""

    def visit_Call(self, node):
        self.generic_visit(node)
        f = node.func
        if isinstance(f, ast.Lambda) and not node.keywords and len(f.args.args) == len(node.args) and \
                all(isinstance(a, (ast.Name, ast.Constant, ast.Attribute, ast.Subscript)) for a in node.args):
            m = {p.arg: a for p, a in zip(f.args.args, node.args)}
            return Renamer({}, m).visit(clone(f.body))
        if isinstance(f, ast.Attribute) and isinstance(f.value, ast.Name) and f.value.id == 'operator' and len(node.args) == 2 \
                and f.attr in ('add', 'mul', 'sub', 'truediv'):
            op = {'add': ast.Add, 'mul': ast.Mult, 'sub': ast.Sub, 'truediv': ast.Div}[f.attr]()
            return ast.copy_location(ast.BinOp(left=node.args[0], op=op, right=node.args[1]), node)
        return node


def cross_call_memos(fi):
    """attribute memo tables of a method (`if K not in self.X: self.X[K] = V`) and whether each is valid across calls:
    emptied unconditionally by the call, or emptied unless a stored snapshot equals the current value of everything V depends on
    besides the key.  -> {X: (valid, explanation)}"""
    out = {}
    defs = Defs(fi.body)
    for g in ast.walk(fi.node):
        if not isinstance(g, ast.If):
            continue
        for t in ast.walk(g.test):
            if not (isinstance(t, ast.Compare) and len(t.ops) == 1 and isinstance(t.ops[0], ast.NotIn) and isinstance(t.comparators[0], ast.Attribute)
                    and U(t.comparators[0].value) == 'self'):
                continue
            X = t.comparators[0].attr
            stores = [st for st in ast.walk(g) if isinstance(st, ast.Assign) and isinstance(st.targets[0], ast.Subscript)
                      and U(st.targets[0].value) == 'self.' + X]
            if not stores:
                continue
            V = expand(stores[0].value, defs, comps=True)
            K = expand(t.left, defs, comps=True)
            bound = {x.id for c in ast.walk(V) if isinstance(c, ast.comprehension) for x in ast.walk(c.target) if isinstance(x, ast.Name)}
            deps = {x.id for x in ast.walk(V) if isinstance(x, ast.Name)} - bound - {x.id for x in ast.walk(K) if isinstance(x, ast.Name)} \
                - {x.id for x in ast.walk(t.left) if isinstance(x, ast.Name)} - {'self', 'set', 'frozenset', 'tuple', 'next', 'None', 'len', 'sorted', 'list'}
            def assigns_attr(st, attr):
                """does the assignment bind self.<attr> (alone or as an element of a tuple target)?  -> the bound value or None"""
                if not isinstance(st, ast.Assign):
                    return None
                for tg in st.targets:
                    if U(tg) == 'self.' + attr:
                        return st.value
                    if isinstance(tg, (ast.Tuple, ast.List)) and isinstance(st.value, (ast.Tuple, ast.List)) and len(tg.elts) == len(st.value.elts):
                        for a_, b_ in zip(tg.elts, st.value.elts):
                            if U(a_) == 'self.' + attr:
                                return b_
                return None
            resets = [st for st in ast.walk(fi.node) if assigns_attr(st, X) is not None]
            id_keyed = any(isinstance(c, ast.Call) and U(c.func) == 'id' for c in ast.walk(K))
            verdict = (False, 'self.%s is never emptied: entries computed from `%s` in an earlier call answer for the current one%s'
                       % (X, sorted(deps), ' (the key is an id(): it names an object only while that object is alive and unchanged)' if id_keyed else ''))
            for r in resets:
                par = getattr(r, '_parent', None)
                if par is fi.node:
                    verdict = (True, 'emptied by every call')
                    break
                if isinstance(par, ast.If) and r in par.body and getattr(par, '_parent', None) is fi.node:
                    # `if not (A and SNAP == Y)` / `if SNAP != Y`
                    snaps = []
                    for c in ast.walk(par.test):
                        if isinstance(c, ast.Compare) and len(c.ops) == 1 and isinstance(c.ops[0], (ast.Eq, ast.NotEq, ast.Is, ast.IsNot)):
                            l, r_ = c.left, c.comparators[0]
                            for a, b in ((l, r_), (r_, l)):
                                sn = None
                                if isinstance(a, ast.Call) and U(a.func) == 'getattr' and len(a.args) >= 2 and U(a.args[0]) == 'self' \
                                        and isinstance(a.args[1], ast.Constant):
                                    sn = a.args[1].value
                                elif isinstance(a, ast.Attribute) and U(a.value) == 'self':
                                    sn = a.attr
                                if sn is not None and (isinstance(b, ast.Name) or (isinstance(b, ast.Attribute) and U(b.value) == 'self')) and U(b) != 'self.' + str(sn):
                                    snaps.append((sn, U(b)))
                    kept = [(sn, y) for sn, y in snaps
                            if any(assigns_attr(st, sn) is not None and U(assigns_attr(st, sn)) == y for st in ast.walk(fi.node))]
                    covered = {y for sn, y in kept}
                    if id_keyed and not any(y.startswith('self.') for y in covered):
                        kept = []          # an id()-keyed table is only meaningful while the per-call objects it was built for are alive
                    if kept and deps <= covered | {y for y in deps if False}:
                        verdict = (True, 'emptied unless the stored snapshot `self.%s` equals the current `%s`, which is all the entries depend on besides the key'
                                   % (kept[0][0], kept[0][1]), [sn for sn, y in kept])
                    else:
                        verdict = (False, 'self.%s is emptied only when `%s` holds; its entries depend on %s, of which no snapshot is compared: a later call '
                                   'with other cliques reuses stale entries' % (X, U(par.test)[:80], sorted(deps)))
            out[X] = verdict
    return out



_tables_cache = {}


def class_tables(repo, module, clsname):
    """attributes of a class that are precomputed lookup tables: `self.T = {}` and ONE store site `self.T[K] = V` (K a name or a
    tuple of loop variables) in the same method, where V depends only on the variables of K and on `self`; no other mutation of
    self.T anywhere in the class.  -> {T: (key variable names, value expression with loop-body locals expanded, defining method)}"""
    ck = (id(repo), module.rel, clsname)
    if ck in _tables_cache:
        return _tables_cache[ck]
    out = {}
    methods = {q: fi for q, fi in module.funcs.items() if fi.cls is not None and fi.cls.name == clsname and q.count('.') == 1}
    inits, stores, other = {}, {}, set()
    for q, fi in methods.items():
        for n in ast.walk(fi.node):
            if isinstance(n, ast.Assign) and len(n.targets) == 1:
                t = n.targets[0]
                if isinstance(t, ast.Attribute) and U(t.value) == 'self':
                    if (isinstance(n.value, ast.Dict) and not n.value.keys) or (isinstance(n.value, ast.Call) and U(n.value.func) == 'dict' and not n.value.args):
                        inits.setdefault(t.attr, []).append((q, n))
                    else:
                        other.add(t.attr)
                if isinstance(t, ast.Subscript) and isinstance(t.value, ast.Attribute) and U(t.value.value) == 'self':
                    stores.setdefault(t.value.attr, []).append((q, n))
            elif isinstance(n, (ast.AugAssign, ast.Delete)):
                for x in ast.walk(n):
                    if isinstance(x, ast.Attribute) and U(x.value) == 'self' and isinstance(getattr(x, 'ctx', None), (ast.Store, ast.Del)):
                        other.add(x.attr)
            elif isinstance(n, ast.Call) and isinstance(n.func, ast.Attribute) and isinstance(n.func.value, ast.Attribute) \
                    and U(n.func.value.value) == 'self' and n.func.attr in ('update', 'pop', 'clear', 'setdefault', 'popitem'):
                other.add(n.func.value.attr)
    for T_, ini in inits.items():
        if len(ini) != 1 or T_ in other or len(stores.get(T_, [])) != 1:
            continue
        q, st = stores[T_][0]
        if q != ini[0][0]:
            continue
        fi = methods[q]
        key = st.targets[0].slice
        kelts = key.elts if isinstance(key, ast.Tuple) else [key]
        if not all(isinstance(k, ast.Name) for k in kelts):
            continue
        keyvars = [k.id for k in kelts]
        # the enclosing loop body: expand its single-definition locals into the value
        loop = None
        for lp in ast.walk(fi.node):
            if isinstance(lp, ast.For) and st in lp.body:
                loop = lp
        if loop is None or not set(keyvars) <= set(target_names(loop.target)):
            continue
        value = expand(st.value, Defs(loop.body), comps=True)
        comp_bound = {x.id for c in ast.walk(value) if isinstance(c, ast.comprehension) for x in ast.walk(c.target) if isinstance(x, ast.Name)}
        free = {x.id for x in ast.walk(value) if isinstance(x, ast.Name)} - comp_bound - set(keyvars) - {'self', 'set', 'tuple', 'list', 'len', 'sorted', 'frozenset'}
        if free:
            continue             # depends on something the key does not name (e.g. the position in the loop)
        out[T_] = (keyvars, value, fi.qualname)
    _tables_cache[ck] = out
    return out


class InjectiveKey:
    undecided = []


class Normaliser:
    def __init__(self, repo, fi):
        self.repo, self.fi = repo, fi
        self.module = fi.module
        self.counter = 0
        self.inlined = []
        self.keep_calls = set()         # names of module-level helpers that are NOT inlined (the rule analyses them as functions)

    # ---- helper resolution ---------------------------------------------------------------------------
    def resolve(self, call, local_funcs, stack):
        f = call.func
        target = None
        bound_self = None
        if isinstance(f, ast.Name):
            if f.id in self.keep_calls:
                return None
            if f.id in local_funcs:
                target = local_funcs[f.id]
            elif f.id in self.module.funcs and '.' not in f.id:
                target = self.module.funcs[f.id]
        elif isinstance(f, ast.Attribute) and isinstance(f.value, ast.Name):
            cls = self.fi.cls.name if self.fi.cls is not None else None
            if f.value.id == 'self' and cls and ('%s.%s' % (cls, f.attr)) in self.module.funcs:
                target = self.module.funcs['%s.%s' % (cls, f.attr)]
                bound_self = f.value
            elif f.value.id in self.module.classes and ('%s.%s' % (f.value.id, f.attr)) in self.module.funcs:
                target = self.module.funcs['%s.%s' % (f.value.id, f.attr)]
        recv = None
        if target is None and isinstance(f, ast.Attribute) and not (isinstance(f.value, ast.Name) and f.value.id in ('self', 'np', 'numpy', 'math', 'nx', 'pd')):
            # a NEW method (in no inventory) defined by exactly one class of the repository, called on some other object:
            # there is only one body it can run
            hits = []
            established_somewhere = any(q.split('.')[-1] == f.attr for quals in inventory().values() for q in quals)
            if not established_somewhere and not f.attr.startswith('__'):
                for rel in inventory():
                    if not rel.startswith('src/mbi/') or rel.endswith('torch_factor.py') or not self.repo.exists(rel):
                        continue
                    try:
                        mod = self.repo.module(rel)
                    except Exception:
                        continue
                    for q, fi_ in mod.funcs.items():
                        if fi_.cls is not None and q.split('.')[-1] == f.attr and q.count('.') == 1:
                            hits.append(fi_)
            if len(hits) == 1 and not hits[0].is_static() and hits[0].params and hits[0].params[0] == 'self':
                target = hits[0]
                recv = f.value
        if target is None:
            return None
        node = target.node if isinstance(target, FuncInfo) else target
        qual = target.qualname if isinstance(target, FuncInfo) else ('%s.<locals>.%s' % (self.fi.qualname, node.name))
        if isinstance(target, FuncInfo) and is_established(self.fi.rel, qual):
            return None
        if not isinstance(target, FuncInfo) and is_established(self.fi.rel, qual):
            return None
        if qual in stack or len(stack) >= MAX_DEPTH:
            return None
        body = strip_docstring(node.body)
        if len(list(ast.walk(ast.Module(body=body, type_ignores=[])))) > 1500 or loop_contains_return(body):
            return None
        if isinstance(target, FuncInfo) and target.cls is None and '.' not in qual:
            w = self.memo_wrapper(target, call)
            if w is not None:
                node = w
                body = w.body
        if any(isinstance(n, (ast.Yield, ast.YieldFrom, ast.Global, ast.Nonlocal)) for s in body for n in ast.walk(s)):
            return None
        if node.args.vararg or node.args.kwarg or any(isinstance(a, ast.Starred) for a in call.args) or \
                any(k.arg is None for k in call.keywords):
            return None
        if recv is not None:
            # call it as a plain function of (self, ...): the receiver becomes the first argument
            call.args = [recv] + list(call.args)
            return node, qual, None, True
        return node, qual, bound_self, (isinstance(target, FuncInfo) and target.is_static())

    # ---- memoising wrappers around one call, with a module-level table -------------------------------------------------------
    def memo_wrapper(self, target, call):
        """F(params): a remembered G(args).  -> a synthetic `def F(params): return G(args)` when the remembered value is the
        value for these very arguments (exact key, naming every parameter the call depends on; the table is touched nowhere else);
        records a memo issue (and returns None) when it is recognisably not; None when F is no such wrapper.
            global L; if L is None or L[:k] != (p1..pk): L = (p1..pk, G(..)); return L[k]          (most recent call)
            [key = K]; if key not in C: C[key] = G(..); return C[key]                              (dict)"""
        node = target.node
        mod = target.module
        body = [s for s in strip_docstring(node.body) if not isinstance(s, ast.Global)]
        params = [a.arg for a in node.args.posonlyargs + node.args.args]
        if node.args.vararg or node.args.kwarg or node.args.kwonlyargs:
            return None

        def names(e):
            return {x.id for x in ast.walk(e) if isinstance(x, ast.Name)}

        def module_only_here(G, inits):
            """G is assigned at module level only by one of `inits` and mentioned in no other function"""
            tops = [s for s in mod.tree.body if isinstance(s, ast.Assign) and any(isinstance(t, ast.Name) and t.id == G for t in s.targets)]
            if len(tops) != 1 or U(tops[0].value).replace(' ', '') not in inits:
                return False
            for q, other in mod.funcs.items():
                if other is target or q.startswith(target.qualname + '.'):
                    continue
                if any(isinstance(n, ast.Name) and n.id == G for n in ast.walk(other.node)):
                    return False
            for s in mod.tree.body:
                if s is tops[0] or isinstance(s, (ast.FunctionDef, ast.ClassDef)):
                    continue
                if any(isinstance(n, ast.Name) and n.id == G for n in ast.walk(s)):
                    return False
            return True

        def synth(value):
            fn = ast.FunctionDef(name=node.name, args=clone(node.args), body=[ast.Return(value=clone(value))], decorator_list=[], returns=None,
                                 type_comment=None, type_params=[])
            ast.copy_location(fn, node)
            ast.fix_missing_locations(fn)
            return fn
        keydef = None
        if body and isinstance(body[0], ast.Assign) and len(body[0].targets) == 1 and isinstance(body[0].targets[0], ast.Name) and len(body) == 3:
            keydef = body[0]
            body = body[1:]
        if len(body) != 2 or not isinstance(body[0], ast.If) or not isinstance(body[1], ast.Return) or body[0].orelse or len(body[0].body) != 1 \
                or not isinstance(body[0].body[0], ast.Assign) or len(body[0].body[0].targets) != 1:
            return None
        test, store, ret = body[0].test, body[0].body[0], body[1].value
        # ---- dict form ----------------------------------------------------------------------------------------------------
        if isinstance(test, ast.Compare) and len(test.ops) == 1 and isinstance(test.ops[0], ast.NotIn) and isinstance(test.comparators[0], ast.Name) \
                and isinstance(store.targets[0], ast.Subscript) and isinstance(ret, ast.Subscript):
            C = test.comparators[0].id
            kt = U(test.left)
            if U(store.targets[0].value) != C or U(ret.value) != C or U(store.targets[0].slice) != kt or U(ret.slice) != kt:
                return None
            if not module_only_here(C, ('{}', 'dict()')):
                return None
            K = keydef.value if keydef is not None and keydef.targets[0].id == kt else test.left
            if keydef is not None and keydef.targets[0].id != kt:
                return None
            vdeps = names(store.value) & set(params)
            kdeps = names(K) & set(params)
            if vdeps <= kdeps and self.injective_key(K, {}, []):
                return synth(store.value)
            self.memo_issues.append((call, C, U(K), sorted(vdeps - kdeps) if not vdeps <= kdeps else ['<key not injective>']))
            return None
        # ---- most-recent-call form ---------------------------------------------------------------------------------------------
        if keydef is not None or not isinstance(store.targets[0], ast.Name) or not isinstance(store.value, ast.Tuple) or \
                not (isinstance(ret, ast.Subscript) and isinstance(ret.slice, ast.Constant) and isinstance(ret.slice.value, int)):
            return None
        L = store.targets[0].id
        if U(ret.value) != L or not module_only_here(L, ('None',)):
            return None
        if not (isinstance(test, ast.BoolOp) and isinstance(test.op, ast.Or) and len(test.values) == 2 and U(test.values[0]).replace(' ', '') == L + 'isNone'):
            return None
        stale = test.values[1]
        elts = store.value.elts
        idx = ret.slice.value
        if not (0 <= idx < len(elts)):
            return None
        value = elts[idx]
        vdeps = names(value) & set(params)
        # which parameters does the staleness test compare exactly?
        exact = None
        how = U(stale)
        if isinstance(stale, ast.Compare) and len(stale.ops) == 1 and isinstance(stale.ops[0], ast.NotEq) and isinstance(stale.comparators[0], ast.Tuple):
            l, r = stale.left, stale.comparators[0]
            k = len(r.elts)
            if isinstance(l, ast.Subscript) and U(l.value) == L and U(l.slice).replace(' ', '') == ':%d' % k and \
                    [U(e) for e in elts[:k]] == [U(e) for e in r.elts] and all(isinstance(e, ast.Name) for e in r.elts):
                exact = {e.id for e in r.elts}
        if exact is None:
            approx = any(isinstance(n, ast.Call) and U(n.func).split('.')[-1] in ('allclose', 'isclose', 'round', 'abs', 'fabs', 'array_equal') for n in ast.walk(stale))
            if approx and any(isinstance(n, ast.Name) and n.id == L for n in ast.walk(stale)):
                self.memo_issues.append((call, L, how, ['<`%s` is not an exact comparison of the arguments: a value remembered for nearby arguments '
                                                        'is returned>' % how]))
            return None
        if vdeps <= exact:
            return synth(value)
        self.memo_issues.append((call, L, how, sorted(vdeps - exact)))
        return None

    def fresh(self, base):
        self.counter += 1
        return '%s__i%d' % (base, self.counter)

    def inline(self, call, node, qual, bound_self, is_static, stack):
        """-> (prefix statements, replacement expression)"""
        params = [a.arg for a in node.args.posonlyargs + node.args.args]
        if bound_self is not None and params and params[0] == 'self':
            params = params[1:]
        elif not is_static and params and params[0] == 'self' and bound_self is None:
            return None
        defaults = {}
        pos = node.args.posonlyargs + node.args.args
        for p, d in zip(pos[len(pos) - len(node.args.defaults):], node.args.defaults):
            defaults[p.arg] = d
        for p, d in zip(node.args.kwonlyargs, node.args.kw_defaults):
            if d is not None:
                defaults[p.arg] = d
            params.append(p.arg)
        bound = {}
        for p, a in zip(params, call.args):
            bound[p] = a
        for k in call.keywords:
            if k.arg not in params or k.arg in bound:
                return None
            bound[k.arg] = k.value
        if len(call.args) > len(params):
            return None
        for p in params:
            if p not in bound:
                if p not in defaults:
                    return None
                bound[p] = defaults[p]
        body = clone(strip_docstring(node.body))
        assigned = set()
        for s in body:
            for n in walk_shallow(s):
                if isinstance(n, (ast.Assign, ast.AugAssign, ast.AnnAssign)):
                    for t in (n.targets if isinstance(n, ast.Assign) else [n.target]):
                        assigned |= set(target_names(t))
                elif isinstance(n, (ast.For, ast.comprehension)):
                    assigned |= set(target_names(n.target))
                elif isinstance(n, (ast.FunctionDef,)):
                    assigned.add(n.name)
        prefix = []
        exprs, mapping = {}, {}
        for p in params:
            a = bound[p]
            simple = isinstance(a, (ast.Name, ast.Constant, ast.Attribute, ast.Lambda)) or \
                (isinstance(a, ast.Subscript) and isinstance(a.value, ast.Name))
            if simple and p not in assigned:
                exprs[p] = a
            else:
                t = self.fresh(p)
                mapping[p] = t
                prefix.append(ast.copy_location(ast.Assign(targets=[ast.Name(id=t, ctx=ast.Store())], value=a), call))
        for loc in assigned:
            if loc not in mapping and loc not in params:
                mapping[loc] = self.fresh(loc)
        result = self.fresh('ret')
        body, ft = single_exit(body, result)
        if ft:
            body.append(ast.copy_location(ast.Assign(targets=[ast.Name(id=result, ctx=ast.Store())], value=ast.Constant(value=None)), call))
        ren = Renamer(mapping, exprs)
        body = [Beta().visit(ren.visit(s)) for s in body]
        for s in body:
            ast.fix_missing_locations(s)
        self.inlined.append(qual)
        body = self.block(body, {}, stack + (qual,))
        return prefix + body, ast.copy_location(ast.Name(id=result, ctx=ast.Load()), call)

    # ---- statement rewriting ------------------------------------------------------------------------------
    def rewrite_expr(self, expr, local_funcs, stack, prefix):
        """inline helper calls inside expr (innermost first); statements to run before go to `prefix`"""
        if expr is None:
            return None
        me = self

        class T(ast.NodeTransformer):
            def visit_Lambda(self, node):
                return node

            def visit_ListComp(self, node):
                return node

            visit_GeneratorExp = visit_SetComp = visit_DictComp = visit_ListComp

            def visit_IfExp(self, node):
                node.test = self.visit(node.test)
                return node     # branches are conditionally evaluated: do not hoist calls out of them

            def visit_BoolOp(self, node):
                node.values = [self.visit(node.values[0])] + node.values[1:]
                return node

            def visit_Subscript(self, node):
                self.generic_visit(node)
                # a read of a table the class precomputes: self.T[K]  ->  the value stored under that key
                if isinstance(node.ctx, ast.Load) and isinstance(node.value, ast.Attribute) and U(node.value.value) == 'self' \
                        and me.fi.cls is not None:
                    info = class_tables(me.repo, me.module, me.fi.cls.name).get(node.value.attr)
                    if info is not None and info[2] != me.fi.qualname:
                        keyvars, value, _ = info
                        ks = node.slice.elts if isinstance(node.slice, ast.Tuple) else [node.slice]
                        if len(ks) == len(keyvars):
                            return ast.copy_location(Renamer({}, dict(zip(keyvars, ks))).visit(clone(value)), node)
                return node

            def visit_Attribute(self, node):
                self.generic_visit(node)
                # a read of a NEW property of the own class: self.p  ->  the body of p
                if isinstance(node.ctx, ast.Load) and isinstance(node.value, ast.Name) and node.value.id == 'self' and me.fi.cls is not None:
                    q = '%s.%s' % (me.fi.cls.name, node.attr)
                    target = me.module.funcs.get(q)
                    if target is not None and target.is_property() and not is_established(me.fi.rel, q):
                        call = ast.copy_location(ast.Call(func=node, args=[], keywords=[]), node)
                        r = me.resolve(call, local_funcs, stack)
                        if r is not None:
                            res = me.inline(call, *r, stack)
                            if res is not None:
                                pre, repl = res
                                prefix.extend(pre)
                                return repl
                return node

            def visit_Call(self, node):
                self.generic_visit(node)
                r = me.resolve(node, local_funcs, stack)
                if r is None:
                    return node
                res = me.inline(node, *r, stack)
                if res is None:
                    return node
                pre, repl = res
                prefix.extend(pre)
                return repl
        return T().visit(expr)

    def unroll_comprehension(self, s, local_funcs, stack):
        """`X = [E for t in it]` / `return [E ...]` where E calls an inlinable helper -> explicit loop"""
        value = s.value if isinstance(s, (ast.Assign, ast.Return)) else None
        wrap = None
        comp = value
        if isinstance(value, ast.Call) and len(value.args) >= 1 and isinstance(value.args[0], ast.ListComp) and \
                U(value.func) in ('np.array', 'numpy.array', 'list', 'tuple', 'np.asarray'):
            wrap, comp = value, value.args[0]
        if isinstance(comp, ast.DictComp) and wrap is None and len(comp.generators) == 1 and not comp.generators[0].is_async and \
                any(isinstance(c, ast.Call) and self.resolve(c, local_funcs, stack) is not None
                    for part in (comp.key, comp.value) for c in ast.walk(part)):
            # X = {K: V for t in it if c}  ->  acc = {}; for t in it: if c: acc[K] = V; X = acc
            g = comp.generators[0]
            acc = self.fresh('acc')
            body = [ast.Assign(targets=[ast.Subscript(value=ast.Name(id=acc, ctx=ast.Load()), slice=comp.key, ctx=ast.Store())],
                               value=comp.value)]
            for cond in reversed(g.ifs):
                body = [ast.If(test=cond, body=body, orelse=[])]
            loop = ast.For(target=g.target, iter=g.iter, body=body, orelse=[])
            init = ast.Assign(targets=[ast.Name(id=acc, ctx=ast.Store())], value=ast.Dict(keys=[], values=[]))
            final_val = ast.Name(id=acc, ctx=ast.Load())
            last = ast.Return(value=final_val) if isinstance(s, ast.Return) else ast.Assign(targets=s.targets, value=final_val)
            out = [init, loop, last]
            for n in out:
                ast.copy_location(n, s)
                ast.fix_missing_locations(n)
            return out
        if not (isinstance(comp, ast.ListComp) and len(comp.generators) == 1 and not comp.generators[0].is_async):
            return None
        if not any(isinstance(c, ast.Call) and self.resolve(c, local_funcs, stack) is not None for c in ast.walk(comp.elt)):
            return None
        g = comp.generators[0]
        acc = self.fresh('acc')
        body = [ast.Expr(value=ast.Call(func=ast.Attribute(value=ast.Name(id=acc, ctx=ast.Load()), attr='append', ctx=ast.Load()),
                                        args=[comp.elt], keywords=[]))]
        for cond in reversed(g.ifs):
            body = [ast.If(test=cond, body=body, orelse=[])]
        loop = ast.For(target=g.target, iter=g.iter, body=body, orelse=[])
        init = ast.Assign(targets=[ast.Name(id=acc, ctx=ast.Store())], value=ast.List(elts=[], ctx=ast.Load()))
        final_val = ast.Name(id=acc, ctx=ast.Load())
        if wrap is not None:
            wrap = clone(wrap)
            wrap.args[0] = final_val
            final_val = wrap
        if isinstance(s, ast.Return):
            last = ast.Return(value=final_val)
        else:
            last = ast.Assign(targets=s.targets, value=final_val)
        out = [init, loop, last]
        for n in out:
            ast.copy_location(n, s)
            ast.fix_missing_locations(n)
        return out

    def block(self, stmts, local_funcs, stack):
        local_funcs = dict(local_funcs)
        out = []
        i = 0
        stmts = list(stmts)
        while i < len(stmts):
            s = stmts[i]
            i += 1
            if isinstance(s, (ast.FunctionDef, ast.AsyncFunctionDef)):
                # a default that is an expression over locals is evaluated HERE, when the `def` runs, not at the calls: keep that value in
                # a temporary of its own (the inliner binds an omitted argument to the default expression at the call site)
                for j_, d_ in enumerate(list(s.args.defaults)):
                    if any(isinstance(x, ast.Name) for x in ast.walk(d_)) and not isinstance(d_, ast.Lambda) \
                            and U(d_).split('.')[0] not in ('np', 'numpy', 'math', 'os', 'sys'):
                        tmp = self.fresh('dflt')
                        pre = ast.copy_location(ast.Assign(targets=[ast.Name(id=tmp, ctx=ast.Store())], value=d_), s)
                        ast.fix_missing_locations(pre)
                        out.append(pre)
                        s.args.defaults[j_] = ast.copy_location(ast.Name(id=tmp, ctx=ast.Load()), d_)
                s.body = self.block(s.body, local_funcs, stack)
                local_funcs[s.name] = s
                out.append(s)
                continue
            # guard clause: `if c: continue` + rest  ->  `if not c: rest`
            if isinstance(s, ast.If) and not s.orelse and s.body and isinstance(s.body[-1], ast.Continue) and stmts[i:]:
                rest = stmts[i:]
                neg = s.test.operand if isinstance(s.test, ast.UnaryOp) and isinstance(s.test.op, ast.Not) else \
                    ast.UnaryOp(op=ast.Not(), operand=s.test)
                new = ast.copy_location(ast.If(test=neg, body=rest, orelse=s.body[:-1]), s)
                ast.fix_missing_locations(new)
                stmts = [new]
                i = 0
                continue
            # statement-level conditional expressions
            if isinstance(s, (ast.Assign, ast.Return)) and isinstance(s.value, ast.IfExp):
                def mk(v):
                    return ast.Return(value=v) if isinstance(s, ast.Return) else ast.Assign(targets=clone(s.targets), value=v)
                def selfassign(v):
                    return isinstance(s, ast.Assign) and len(s.targets) == 1 and isinstance(s.targets[0], ast.Name) and \
                        isinstance(v, ast.Name) and v.id == s.targets[0].id
                if selfassign(s.value.body) and not selfassign(s.value.orelse):
                    # x = x if c else e   ->   if not c: x = e
                    new = ast.If(test=ast.UnaryOp(op=ast.Not(), operand=s.value.test), body=[mk(s.value.orelse)], orelse=[])
                elif selfassign(s.value.orelse):
                    new = ast.If(test=s.value.test, body=[mk(s.value.body)], orelse=[])
                else:
                    new = ast.If(test=s.value.test, body=[mk(s.value.body)], orelse=[mk(s.value.orelse)])
                ast.copy_location(new, s)
                for n in ast.walk(new):
                    ast.copy_location(n, s) if not hasattr(n, 'lineno') else None
                ast.fix_missing_locations(new)
                stmts.insert(i, new)
                continue
            # tuple assignment of a tuple display: split, dropping self-assignments
            if isinstance(s, ast.Assign) and len(s.targets) == 1 and isinstance(s.targets[0], ast.Tuple) and \
                    isinstance(s.value, ast.Tuple) and len(s.targets[0].elts) == len(s.value.elts) and \
                    all(isinstance(t, ast.Name) for t in s.targets[0].elts):
                names = [t.id for t in s.targets[0].elts]
                used = {n.id for v in s.value.elts for n in ast.walk(v) if isinstance(n, ast.Name)}
                pairs = [(t, v) for t, v in zip(s.targets[0].elts, s.value.elts) if not (isinstance(v, ast.Name) and v.id == t.id)]
                # safe to sequentialise when no assigned name is read by a *later* right-hand side
                safe = True
                for k, (t, v) in enumerate(pairs):
                    later = {n.id for (_, v2) in pairs[k + 1:] for n in ast.walk(v2) if isinstance(n, ast.Name)}
                    if t.id in later:
                        safe = False
                if safe:
                    new = [ast.copy_location(ast.Assign(targets=[t], value=v), s) for t, v in pairs] or [ast.copy_location(ast.Pass(), s)]
                    stmts[i:i] = new
                    continue
            unrolled = self.unroll_comprehension(s, local_funcs, stack) if isinstance(s, (ast.Assign, ast.Return)) else None
            if unrolled is not None:
                stmts[i:i] = unrolled
                continue
            prefix = []
            if isinstance(s, (ast.Assign, ast.AugAssign, ast.AnnAssign, ast.Return, ast.Expr)):
                if getattr(s, 'value', None) is not None:
                    s.value = self.rewrite_expr(s.value, local_funcs, stack, prefix)
            elif isinstance(s, ast.If):
                s.test = self.rewrite_expr(s.test, local_funcs, stack, prefix)
                s.body = self.block(s.body, local_funcs, stack)
                s.orelse = self.block(s.orelse, local_funcs, stack)
            elif isinstance(s, ast.For):
                s.iter = self.rewrite_expr(s.iter, local_funcs, stack, prefix)
                s.body = self.block(s.body, local_funcs, stack)
                s.orelse = self.block(s.orelse, local_funcs, stack)
            elif isinstance(s, ast.While):
                s.body = self.block(s.body, local_funcs, stack)
                s.orelse = self.block(s.orelse, local_funcs, stack)
            elif isinstance(s, ast.Try):
                s.body = self.block(s.body, local_funcs, stack)
                for h in s.handlers:
                    h.body = self.block(h.body, local_funcs, stack)
                s.orelse = self.block(s.orelse, local_funcs, stack)
                s.finalbody = self.block(s.finalbody, local_funcs, stack)
            elif isinstance(s, ast.With):
                s.body = self.block(s.body, local_funcs, stack)
            # a tuple display produced by the rewriting (e.g. a resolved table entry): bind component-wise
            if isinstance(s, ast.Assign) and len(s.targets) == 1 and isinstance(s.targets[0], ast.Tuple) and isinstance(s.value, ast.Tuple) \
                    and len(s.targets[0].elts) == len(s.value.elts) and all(isinstance(t, ast.Name) for t in s.targets[0].elts) \
                    and not getattr(s, '_requeued', False):
                s._requeued = True
                out.extend(prefix)
                stmts.insert(i, s)
                continue
            # `a, b = helper(...)` whose inlined helper returned a tuple display: bind component-wise
            if isinstance(s, ast.Assign) and len(s.targets) == 1 and isinstance(s.targets[0], ast.Tuple) and \
                    isinstance(s.value, ast.Name) and prefix and isinstance(prefix[-1], ast.Assign) and \
                    isinstance(prefix[-1].targets[0], ast.Name) and prefix[-1].targets[0].id == s.value.id and \
                    '__i' in s.value.id and isinstance(prefix[-1].value, ast.Tuple) and \
                    len(prefix[-1].value.elts) == len(s.targets[0].elts):
                s.value = prefix[-1].value
                out.extend(prefix[:-1])
                stmts.insert(i, s)
                continue
            out.extend(prefix)
            out.append(s)
        return out

    # ---- memoisation: `if K not in C: ...; C[K] = V` ... `C[K]` ----------------------------------------------------------
    def dememoise(self, node):
        """A local dict used as a memo table inside a loop is looked through when its key determines the memoised value (every
        loop variable the value depends on is named by the key): the guarded computation becomes unconditional and reads of
        C[K] become the value.  When the key does NOT determine the value the code is left alone and the fact is recorded in
        self.memo_issues - the memoised value of one iteration would be reused for another it does not belong to."""
        local_dicts = set()
        object_tables = set()
        if not getattr(self, '_object_memos_done', False):
            self._object_memos_done = True
            from .engines import memo
            try:
                object_tables = memo.judge(self, node)
            except AnalysisError:
                raise
        for n in ast.walk(node):
            if isinstance(n, ast.Assign) and len(n.targets) == 1 and isinstance(n.targets[0], ast.Name) and \
                    ((isinstance(n.value, ast.Dict) and not n.value.keys) or (isinstance(n.value, ast.Call) and U(n.value.func) == 'dict' and not n.value.args)):
                local_dicts.add(n.targets[0].id)
        # a memo table is only ever: initialised, tested by `K not in C`, stored under a guard, and read as C[K]
        for C in list(local_dicts):
            uses = sum(1 for n in ast.walk(node) if isinstance(n, (ast.Name, ast.Attribute)) and U(n) == C)
            ok_uses = 0
            for n in ast.walk(node):
                if isinstance(n, ast.Assign) and len(n.targets) == 1 and isinstance(n.targets[0], (ast.Name, ast.Attribute)) and U(n.targets[0]) == C:
                    ok_uses += 1
                elif isinstance(n, ast.If) and self.is_memo_guard(n, {C}):
                    ok_uses += 2          # the test and the guarded store
                elif isinstance(n, ast.Subscript) and isinstance(n.value, (ast.Name, ast.Attribute)) and U(n.value) == C and isinstance(n.ctx, ast.Load):
                    ok_uses += 1
            if uses != ok_uses:
                local_dicts.discard(C)
        # attribute tables kept between calls that are emptied whenever what their entries depend on changes are looked through
        # in the same way (an invalid one is left alone: rules/C13 reports it)
        class _FI:
            pass
        probe = _FI()
        probe.node, probe.body = node, node.body
        for n in ast.walk(node):
            for ch in ast.iter_child_nodes(n):
                ch._parent = n
        try:
            for X, verdict_ in cross_call_memos(probe).items():
                if verdict_[0]:
                    local_dicts.add('self.' + X)
            # tables judged valid in the (source) method that owns them - e.g. a helper that has been inlined here
            if self.fi.cls is not None:
                for q, other in self.module.funcs.items():
                    if other.cls is not None and other.cls.name == self.fi.cls.name and q.count('.') == 1:
                        for X, verdict_ in cross_call_memos(other).items():
                            if verdict_[0]:
                                local_dicts.add('self.' + X)
        except Exception:
            pass
        local_dicts |= object_tables
        if not local_dicts:
            return

        def names(e):
            return {x.id for x in ast.walk(e) if isinstance(x, ast.Name)}

        def process(body, loop_vars, loop_body):
            i = 0
            while i < len(body):
                s = body[i]
                if isinstance(s, (ast.For, ast.While)):
                    lv = set(loop_vars)
                    if isinstance(s, ast.For):
                        lv |= set(target_names(s.target))
                    process(s.body, lv, s.body)
                elif isinstance(s, ast.If) and loop_vars and self.is_memo_guard(s, local_dicts):
                    C = U(s.test.comparators[0])
                    K = s.test.left
                    store = s.body[-1]
                    # dependencies through the assignments of the loop body and of the guarded block
                    assigns = {}
                    for st in list(loop_body) + list(s.body):
                        for n in ast.walk(st):
                            if isinstance(n, ast.Assign):
                                for t in n.targets:
                                    for nm in target_names(t):
                                        assigns.setdefault(nm, set()).update(names(n.value))
                            elif isinstance(n, ast.AugAssign):
                                for nm in target_names(n.target):
                                    assigns.setdefault(nm, set()).update(names(n.value) | {nm})

                    def closure(start):
                        seen, todo = set(), list(start)
                        while todo:
                            x = todo.pop()
                            if x in seen:
                                continue
                            seen.add(x)
                            todo.extend(assigns.get(x, ()))
                        return seen
                    kdeps = closure(names(K)) & loop_vars
                    vnames = set()
                    for st in s.body:
                        vnames |= names(st)
                    vdeps = closure(vnames - {C}) & loop_vars
                    injective = self.injective_key(K, assigns, body[:i], vbody=s.body)
                    if injective and InjectiveKey.undecided:
                        i += 1        # an order-forgetting key and a value that reads the collection in a way not classified: left as it is
                        continue
                    if vdeps <= kdeps and injective:
                        tmp = self.fresh('memo')
                        new_body = list(s.body[:-1]) + [ast.copy_location(ast.Assign(targets=[ast.Name(id=tmp, ctx=ast.Store())], value=store.value), store)]
                        ktext = U(K)

                        class R(ast.NodeTransformer):
                            def visit_Subscript(self, n):
                                n = self.generic_visit(n)
                                if isinstance(n.value, (ast.Name, ast.Attribute)) and U(n.value) == C and U(n.slice) == ktext and isinstance(n.ctx, ast.Load):
                                    return ast.copy_location(ast.Name(id=tmp, ctx=ast.Load()), n)
                                return n
                        rest = [R().visit(x) for x in body[i + 1:]]
                        body[i:] = new_body + rest
                        for x in body:
                            ast.fix_missing_locations(x)
                        i += len(new_body)
                        continue
                    lossy = '<key not injective>'
                    if vdeps <= kdeps and self.injective_key(K, assigns, body[:i]):
                        lossy = ('<the key forgets the order of the collection it is built from (frozenset), but the remembered value is computed from '
                                 'that collection in the order given: the first ordering seen answers for every later one>')
                    self.memo_issues.append((s, C, U(K), sorted(vdeps - kdeps) if not vdeps <= kdeps else [lossy]))
                elif isinstance(s, ast.If):
                    process(s.body, loop_vars, loop_body)
                    process(s.orelse, loop_vars, loop_body)
                elif isinstance(s, (ast.With, ast.Try)):
                    process(s.body, loop_vars, loop_body)
                i += 1
        process(node.body, set(), node.body)

    @staticmethod
    def is_memo_guard(s, local_dicts):
        t = s.test
        if s.orelse or not s.body:
            return False
        if not (isinstance(t, ast.Compare) and len(t.ops) == 1 and isinstance(t.ops[0], ast.NotIn) and
                isinstance(t.comparators[0], (ast.Name, ast.Attribute)) and U(t.comparators[0]) in local_dicts):
            return False
        last = s.body[-1]
        return isinstance(last, ast.Assign) and len(last.targets) == 1 and isinstance(last.targets[0], ast.Subscript) and \
            U(last.targets[0].value) == U(t.comparators[0]) and U(last.targets[0].slice) == U(t.left)

    @staticmethod
    def injective_key(K, assigns, before, vbody=None):
        """keys built from names by identity-preserving wrappers: x, id(x), tuple(x), (x, y), [x] / (x,) for a bare string else tuple(x).
        With `vbody` (the statements that compute the remembered value): an ORDER-FORGETTING wrapper (frozenset / set / sorted) is
        accepted only when the value never reads the wrapped collection itself - otherwise the first ordering seen answers for all."""
        def arms_of(name):
            """name = A / name = B in the two arms of an `if` just before (the statement form of a conditional expression)"""
            for st in reversed(before):
                if isinstance(st, ast.If) and len(st.body) == 1 and len(st.orelse) == 1:
                    vals = []
                    for b in (st.body[0], st.orelse[0]):
                        if isinstance(b, ast.Assign) and len(b.targets) == 1 and isinstance(b.targets[0], ast.Name) and b.targets[0].id == name:
                            vals.append(b.value)
                    if len(vals) == 2:
                        return vals
                if any(isinstance(n, ast.Name) and n.id == name and isinstance(n.ctx, ast.Store) for n in ast.walk(st)):
                    return None
            return None

        undecided = []
        InjectiveKey.undecided = undecided

        def set_parents_(n0):
            for n in ast.walk(n0):
                for ch in ast.iter_child_nodes(n):
                    ch._nparent = n

        def ok(e, depth=0):
            if isinstance(e, ast.Name):
                # a local `key = id(Q)` defined just before
                for st in reversed(before):
                    if isinstance(st, ast.Assign) and len(st.targets) == 1 and isinstance(st.targets[0], ast.Name) and st.targets[0].id == e.id \
                            and depth < 3:
                        return ok(st.value, depth + 1)
                arms = arms_of(e.id) if depth < 3 else None
                if arms is not None:
                    return all(ok(a, depth + 1) for a in arms)
                return True
            if isinstance(e, ast.Call) and isinstance(e.func, ast.Name) and e.func.id in ('id', 'tuple', 'frozenset') and len(e.args) == 1:
                if e.func.id == 'frozenset' and vbody is not None:
                    inner = {x.id for x in ast.walk(e.args[0]) if isinstance(x, ast.Name)} - {'type', 'str', 'isinstance', 'tuple', 'list'}
                    ktext = U(e)
                    for st in vbody:
                        for x in ast.walk(st):
                            if isinstance(x, ast.Call) and U(x) == ktext:
                                for y in ast.walk(x):
                                    y._in_key = True
                        set_parents_(st)
                        for x in ast.walk(st):
                            if isinstance(x, ast.Name) and x.id in inner and isinstance(x.ctx, ast.Load) and not getattr(x, '_in_key', False):
                                par = getattr(x, '_nparent', None)
                                if isinstance(par, ast.Call) and x in par.args:
                                    fn = U(par.func).split('.')[-1]
                                    if fn in ('size', 'len', 'set', 'frozenset', 'sorted', 'issubset', 'issuperset', 'isdisjoint'):
                                        continue          # does not look at the order
                                    if fn in ('project', 'tuple', 'list', 'transpose', 'expand', 'canonical', 'axes', 'marginalize', 'enumerate'):
                                        return False      # keeps the order given
                                if isinstance(par, ast.Compare) and x in par.comparators and all(isinstance(o, (ast.In, ast.NotIn)) for o in par.ops):
                                    continue
                                if isinstance(par, (ast.For, ast.comprehension)) and par.iter is x:
                                    return False
                                undecided.append(U(par) if par is not None else x.id)
                return ok(e.args[0], depth)
            if isinstance(e, (ast.Tuple, ast.List)):
                return all(ok(x, depth) for x in e.elts)
            if isinstance(e, ast.IfExp):
                return ok(e.body, depth) and ok(e.orelse, depth)
            return False
        return ok(K)

    # ---- path splitting on a repeated test of never-assigned parameters --------------------------------------------------
    def split_paths(self, node):
        """if c: A else: B ; S... ; if c: C else: D ; T...   ->   if c: A; S...; C; T...  else: B; S...; D; T...
        when c only reads parameters that the function never assigns (so c has the same value at both tests).  Analyses that join
        at the end of the first `if` then keep the two cases apart (e.g. `axes = None if attrs is None else lookup`)."""
        params = {a.arg for a in node.args.args + node.args.kwonlyargs}
        assigned = set()
        for n in ast.walk(node):
            if isinstance(n, ast.Name) and isinstance(n.ctx, (ast.Store, ast.Del)):
                assigned.add(n.id)
        stable = params - assigned

        def pure_param_test(t):
            names = {x.id for x in ast.walk(t) if isinstance(x, ast.Name)}
            return bool(names) and names <= stable and not any(isinstance(x, ast.Call) for x in ast.walk(t))

        def specialise(stmts, text, truth):
            out = []
            for st in stmts:
                if isinstance(st, ast.If) and U(st.test) == text:
                    out.extend(specialise(st.body if truth else st.orelse, text, truth))
                elif isinstance(st, ast.If) and isinstance(st.test, ast.UnaryOp) and isinstance(st.test.op, ast.Not) and U(st.test.operand) == text:
                    out.extend(specialise(st.orelse if truth else st.body, text, truth))
                else:
                    out.append(st)
            return out

        def process(body):
            for i, st in enumerate(body):
                if isinstance(st, ast.If) and pure_param_test(st.test) and i + 1 < len(body):
                    text = U(st.test)
                    rest = body[i + 1:]
                    again = any(isinstance(r, ast.If) and (U(r.test) == text or (isinstance(r.test, ast.UnaryOp) and isinstance(r.test.op, ast.Not)
                                                                                 and U(r.test.operand) == text)) for r in rest)
                    ends = lambda blk: bool(blk) and isinstance(blk[-1], (ast.Return, ast.Raise, ast.Continue, ast.Break))
                    if again and not ends(st.body) and not ends(st.orelse):
                        st.body = list(st.body) + specialise(clone(rest), text, True)
                        st.orelse = list(st.orelse) + specialise(clone(rest), text, False)
                        del body[i + 1:]
                        process(st.body)
                        process(st.orelse)
                        return
            for st in body:
                for fld in ('body', 'orelse'):
                    sub = getattr(st, fld, None)
                    if isinstance(sub, list) and sub and isinstance(st, (ast.If, ast.For, ast.While)):
                        process(sub)
        process(node.body)

    # ---- per-item tables filled by one loop and consumed by the next ------------------------------------------------------
    def fuse_item_tables(self, node):
        """T = [] ; for P in S: <assigns>; T.append(E)        ; for P2, d in zip(S, T): BODY   ->  for P2 in S: <assigns>; d = E; BODY
        T = {} ; for P in S: <assigns>; T[KE] = E           ; for P2 in S: .. T[KE] ..       ->  for P2 in S: <assigns>; t = E; .. t ..
        The list form pairs by position and is always the item's own value.  The dict form is the item's own value only when the key
        determines it (every loop variable E depends on is named by an injective key); otherwise a later item with the same key has
        overwritten it, which is recorded in self.memo_issues.  Loop 1 may only assign names and fill T; what it reads may not be
        written by loop 2 (the computation is moved across loop 2's earlier iterations)."""
        def names(e):
            return {x.id for x in ast.walk(e) if isinstance(x, ast.Name)}

        def root(t):
            while isinstance(t, (ast.Subscript, ast.Attribute)):
                if isinstance(t, ast.Attribute) and isinstance(t.value, ast.Name) and t.value.id == 'self':
                    return 'self.' + t.attr
                t = t.value
            return t.id if isinstance(t, ast.Name) else None

        def mentions(st, T):
            return any(isinstance(n, (ast.Name, ast.Attribute)) and U(n) == T for n in ast.walk(st))

        def written_roots(stmts):
            out = set()
            for st in stmts:
                for n in ast.walk(st):
                    if isinstance(n, ast.Assign):
                        for t in n.targets:
                            for e in (t.elts if isinstance(t, (ast.Tuple, ast.List)) else [t]):
                                out.add(root(e))
                    elif isinstance(n, (ast.AugAssign, ast.AnnAssign)):
                        out.add(root(n.target))
                    elif isinstance(n, ast.For):
                        out |= set(target_names(n.target))
                    elif isinstance(n, ast.Call) and isinstance(n.func, ast.Attribute) and \
                            n.func.attr in ('append', 'extend', 'add', 'update', 'pop', 'clear', 'remove', 'insert', 'setdefault', 'sort'):
                        out.add(root(n.func.value))
            return out

        def read_roots(stmts):
            out = set()
            for st in stmts:
                for n in ast.walk(st):
                    if isinstance(n, ast.Name) and isinstance(n.ctx, ast.Load):
                        out.add(n.id)
                    elif isinstance(n, ast.Attribute) and isinstance(n.value, ast.Name) and n.value.id == 'self':
                        out.add('self.' + n.attr)
            return out

        def process(body):
            i = 0
            while i < len(body):
                st = body[i]
                for fld in ('body', 'orelse', 'finalbody'):
                    sub = getattr(st, fld, None)
                    if isinstance(sub, list) and sub and isinstance(sub[0], ast.stmt):
                        process(sub)
                i += 1
                if not (isinstance(st, ast.Assign) and len(st.targets) == 1 and isinstance(st.targets[0], (ast.Name, ast.Attribute))):
                    continue
                vt = U(st.value).replace(' ', '')
                if vt not in ('[]', 'list()', '{}', 'dict()'):
                    continue
                is_list = vt in ('[]', 'list()')
                T = U(st.targets[0])
                idx = body.index(st)
                users = [k for k in range(idx + 1, len(body)) if mentions(body[k], T)]
                if len(users) < 2 or users[1] != users[0] + 1:
                    continue
                l1, l2 = body[users[0]], body[users[1]]
                if not (isinstance(l1, ast.For) and isinstance(l2, ast.For)) or l1.orelse or l2.orelse or not l1.body:
                    continue
                if any(isinstance(n, (ast.Break, ast.Continue, ast.Return, ast.For, ast.While, ast.If, ast.Try)) for b in l1.body for n in ast.walk(b)):
                    continue
                store = l1.body[-1]
                pre = l1.body[:-1]
                if not all(isinstance(a, ast.Assign) and all(isinstance(t, ast.Name) for t in a.targets) for a in pre):
                    continue
                if any(mentions(a, T) for a in pre):
                    continue
                if is_list:
                    if not (isinstance(store, ast.Expr) and isinstance(store.value, ast.Call) and isinstance(store.value.func, ast.Attribute)
                            and store.value.func.attr == 'append' and U(store.value.func.value) == T and len(store.value.args) == 1):
                        continue
                    KE, E = None, store.value.args[0]
                    it = l2.iter
                    if not (isinstance(it, ast.Call) and U(it.func) == 'zip' and len(it.args) == 2 and U(it.args[0]) == U(l1.iter)
                            and U(it.args[1]) == T and isinstance(l2.target, ast.Tuple) and len(l2.target.elts) == 2
                            and isinstance(l2.target.elts[1], ast.Name)):
                        continue
                    P2, d = l2.target.elts
                    if any(mentions(b, T) for b in l2.body):
                        continue
                else:
                    if not (isinstance(store, ast.Assign) and len(store.targets) == 1 and isinstance(store.targets[0], ast.Subscript)
                            and U(store.targets[0].value) == T):
                        continue
                    KE, E = store.targets[0].slice, store.value
                    if U(l2.iter) != U(l1.iter):
                        continue
                    P2, d = l2.target, None
                if mentions(E, T):
                    continue
                # same shape of loop targets: rename loop-1 variables to loop-2's
                def flat(t):
                    if isinstance(t, ast.Name):
                        return [t.id]
                    if isinstance(t, (ast.Tuple, ast.List)):
                        out = []
                        for e in t.elts:
                            f = flat(e)
                            if f is None:
                                return None
                            out.append(f)
                        return out
                    return None
                f1, f2 = flat(l1.target), flat(P2)

                def zipnames(a, b, m):
                    if isinstance(a, str) and isinstance(b, str):
                        m[a] = b
                        return True
                    if isinstance(a, list) and isinstance(b, list) and len(a) == len(b):
                        return all(zipnames(x, y, m) for x, y in zip(a, b))
                    return False
                ren = {}
                if f1 is None or f2 is None or not zipnames(f1[0] if isinstance(l1.target, ast.Name) else f1,
                                                            f2[0] if isinstance(P2, ast.Name) else f2, ren):
                    continue
                loopvars1 = set(ren)
                locals1 = set()
                for a in pre:
                    for t in a.targets:
                        locals1.add(t.id)
                after = body[users[1] + 1:]
                if any(nm in names(x) for x in after for nm in locals1 | loopvars1 if nm not in ren.values()):
                    continue
                # the moved computation may not read what loop 2 writes (nor may loop 2 rebind its own loop variables' sources)
                w2 = written_roots(l2.body) - {None}
                r1 = read_roots(l1.body) - loopvars1 - locals1
                if (w2 & r1) - {T}:
                    continue
                if root(l1.iter) in w2 or any(v in w2 for v in ren.values()):
                    continue
                for nm in locals1:
                    ren[nm] = self.fresh(nm)
                mapping = {k: ast.Name(id=v, ctx=ast.Load()) for k, v in ren.items()}

                def sub(e):
                    class S(ast.NodeTransformer):
                        def visit_Name(self, n):
                            return ast.copy_location(ast.Name(id=ren[n.id], ctx=n.ctx), n) if n.id in ren else n
                    return S().visit(clone(e))
                if not is_list:
                    # does the key determine the value?
                    assigns = {}
                    for a in pre:
                        for t in a.targets:
                            assigns.setdefault(t.id, set()).update(names(a.value))

                    def closure(start):
                        seen, todo = set(), list(start)
                        while todo:
                            x = todo.pop()
                            if x in seen:
                                continue
                            seen.add(x)
                            todo.extend(assigns.get(x, ()))
                        return seen
                    kdeps = closure(names(KE)) & loopvars1
                    vdeps = closure(names(E)) & loopvars1
                    if not (vdeps <= kdeps and self.injective_key(KE, {}, pre)):
                        self.memo_issues.append((store, T, U(KE), sorted(vdeps - kdeps) if not vdeps <= kdeps else ['<key not injective>']))
                        continue
                    ktext = U(sub(KE))
                    reads = [n for b in l2.body for n in ast.walk(b) if isinstance(n, (ast.Name, ast.Attribute)) and U(n) == T]
                    good = [n for b in l2.body for n in ast.walk(b) if isinstance(n, ast.Subscript) and U(n.value) == T
                            and isinstance(n.ctx, ast.Load) and U(n.slice) == ktext]
                    if len(reads) != len(good):
                        continue
                    dname = self.fresh('item')

                    class R(ast.NodeTransformer):
                        def visit_Subscript(self, n):
                            n = self.generic_visit(n)
                            if U(n.value) == T and isinstance(n.ctx, ast.Load) and U(n.slice) == ktext:
                                return ast.copy_location(ast.Name(id=dname, ctx=ast.Load()), n)
                            return n
                    l2.body = [R().visit(b) for b in l2.body]
                else:
                    dname = d.id
                head = [ast.copy_location(ast.Assign(targets=[sub(t) for t in a.targets], value=sub(a.value)), a) for a in pre]
                head.append(ast.copy_location(ast.Assign(targets=[ast.Name(id=dname, ctx=ast.Store())], value=sub(E)), store))
                if isinstance(st.targets[0], ast.Attribute):
                    # the table outlives the call: keep filling it
                    if is_list:
                        keep_ = ast.Expr(value=ast.Call(func=ast.Attribute(value=clone(st.targets[0]), attr='append', ctx=ast.Load()),
                                                        args=[ast.Name(id=dname, ctx=ast.Load())], keywords=[]))
                        keep_.value.func.value.ctx = ast.Load()
                    else:
                        tgt = ast.Subscript(value=clone(st.targets[0]), slice=sub(KE), ctx=ast.Store())
                        tgt.value.ctx = ast.Load()
                        keep_ = ast.Assign(targets=[tgt], value=ast.Name(id=dname, ctx=ast.Load()))
                    head.append(ast.copy_location(keep_, store))
                l2.target = P2
                l2.iter = clone(l1.iter)
                l2.body = head + l2.body
                body.remove(l1)
                if not isinstance(st.targets[0], ast.Attribute):
                    body.remove(st)
                for x in body:
                    ast.fix_missing_locations(x)
                i = 0
        process(node.body)

    # ---- small value-level simplifications after de-memoisation ----------------------------------------------------------------
    def simplify_options(self, node):
        """T = (e0, e1); x = T[1]           ->  x = e1                       (T a fresh single-assignment name used only as T[const])
        x = E if C else None; if x is not None: S   ->  if C: x = E; S       (the "optional value" idiom)"""
        def process(body):
            changed = True
            while changed:
                changed = False
                for i, st in enumerate(body):
                    # if C: r = E else: r = None   ->   r = E if C else None        (what an inlined helper with an early `return None` leaves)
                    if isinstance(st, ast.If) and len(st.body) == 1 and len(st.orelse) == 1 and all(
                            isinstance(b_, ast.Assign) and len(b_.targets) == 1 and isinstance(b_.targets[0], ast.Name) for b_ in (st.body[0], st.orelse[0])) \
                            and st.body[0].targets[0].id == st.orelse[0].targets[0].id and '__i' in st.body[0].targets[0].id:
                        a_, b_ = st.body[0].value, st.orelse[0].value
                        none_a = isinstance(a_, ast.Constant) and a_.value is None
                        none_b = isinstance(b_, ast.Constant) and b_.value is None
                        if none_a != none_b:
                            test_ = st.test if none_b else ast.UnaryOp(op=ast.Not(), operand=st.test)
                            body[i] = ast.copy_location(ast.Assign(targets=[ast.Name(id=st.body[0].targets[0].id, ctx=ast.Store())],
                                                                   value=ast.IfExp(test=test_, body=a_ if none_b else b_, orelse=ast.Constant(value=None))), st)
                            changed = True
                            break
                    # r = <option>; x = r   (r an inlining temporary not used again)   ->   x = <option>
                    if isinstance(st, ast.Assign) and len(st.targets) == 1 and isinstance(st.targets[0], ast.Name) and '__i' in st.targets[0].id \
                            and isinstance(st.value, ast.IfExp) and i + 1 < len(body) and isinstance(body[i + 1], ast.Assign) and len(body[i + 1].targets) == 1 \
                            and isinstance(body[i + 1].targets[0], ast.Name) and isinstance(body[i + 1].value, ast.Name) and body[i + 1].value.id == st.targets[0].id \
                            and not any(isinstance(n, ast.Name) and n.id == st.targets[0].id for r in body[i + 2:] for n in ast.walk(r)):
                        body[i + 1].value = st.value
                        del body[i]
                        changed = True
                        break
                    if isinstance(st, ast.Assign) and len(st.targets) == 1 and isinstance(st.targets[0], ast.Name) and isinstance(st.value, ast.Tuple) \
                            and ('__i' in st.targets[0].id or getattr(st, '_from_option', False)):
                        T = st.targets[0].id
                        uses = [n for r in body[i + 1:] for n in ast.walk(r) if isinstance(n, ast.Name) and n.id == T]
                        subs = [n for r in body[i + 1:] for n in ast.walk(r) if isinstance(n, ast.Subscript) and isinstance(n.value, ast.Name) and n.value.id == T
                                and isinstance(n.slice, ast.Constant) and isinstance(n.slice.value, int) and 0 <= n.slice.value < len(st.value.elts)
                                and isinstance(n.ctx, ast.Load)]
                        stores = [n for r in body[i + 1:] for n in ast.walk(r) if isinstance(n, ast.Name) and n.id == T and isinstance(n.ctx, ast.Store)]
                        if uses and len(uses) == len(subs) and not stores:
                            elts = st.value.elts

                            class R(ast.NodeTransformer):
                                def visit_Subscript(self, n):
                                    n = self.generic_visit(n)
                                    if isinstance(n.value, ast.Name) and n.value.id == T and isinstance(n.slice, ast.Constant) and isinstance(n.ctx, ast.Load):
                                        return ast.copy_location(clone(elts[n.slice.value]), n)
                                    return n
                            body[i + 1:] = [R().visit(r) for r in body[i + 1:]]
                            del body[i]
                            changed = True
                            break
                    if isinstance(st, ast.Assign) and len(st.targets) == 1 and isinstance(st.targets[0], ast.Name) and isinstance(st.value, ast.IfExp) \
                            and isinstance(st.value.orelse, ast.Constant) and st.value.orelse.value is None and i + 1 < len(body):
                        x = st.targets[0].id
                        nxt = body[i + 1]
                        if isinstance(nxt, ast.If) and U(nxt.test).replace(' ', '') in ('%sisnotNone' % x, '%s!=None' % x) \
                                and not any(isinstance(n, ast.Name) and n.id == x for n in ast.walk(st.value.test)) \
                                and not any(isinstance(n, ast.Name) and n.id == x for r in body[i + 2:] for n in ast.walk(r)):
                            first = [] if U(st.value.body) == x else [ast.copy_location(ast.Assign(targets=[ast.Name(id=x, ctx=ast.Store())], value=st.value.body), st)]
                            for f_ in first:
                                f_._from_option = True          # a tuple bound here and read by constant index is taken apart (first rule)
                            new_if = ast.copy_location(ast.If(test=st.value.test, body=first + nxt.body, orelse=nxt.orelse), nxt)
                            body[i:i + 2] = [new_if]
                            changed = True
                            break
            for st in body:
                for f in ('body', 'orelse', 'finalbody'):
                    sub = getattr(st, f, None)
                    if isinstance(sub, list) and sub and isinstance(sub[0], ast.stmt):
                        process(sub)
        process(node.body)
        for x in node.body:
            ast.fix_missing_locations(x)

    # ---- dispatch through a local table of constants --------------------------------------------------------------------------
    def unroll_table_dispatch(self, node):
        """D = {'k1': v1, 'k2': v2}            (a local display with constant keys, used only in the test and as D[X])
        if [type(X) is str and] X in D: BODY(D[X]) else: ELSE
          ->  if X == 'k1': BODY(v1) elif X == 'k2': BODY(v2) else: ELSE
        `a, b = D[X]` with tuple entries binds a, b to the components, which are then substituted through BODY when they are not
        rebound there.  X itself is replaced by the attribute it was read from (`X = self.attr` just before)."""
        def names(e):
            return {x.id for x in ast.walk(e) if isinstance(x, ast.Name)}

        def process(body):
            i = 0
            while i < len(body):
                st = body[i]
                for f in ('body', 'orelse', 'finalbody'):
                    sub = getattr(st, f, None)
                    if isinstance(sub, list) and sub and isinstance(sub[0], ast.stmt):
                        process(sub)
                i += 1
                if not isinstance(st, ast.If):
                    continue
                t = st.test
                conj = t.values if isinstance(t, ast.BoolOp) and isinstance(t.op, ast.And) else [t]
                member = [c for c in conj if isinstance(c, ast.Compare) and len(c.ops) == 1 and isinstance(c.ops[0], ast.In)
                          and isinstance(c.left, ast.Name) and isinstance(c.comparators[0], ast.Name)]
                if len(member) != 1:
                    continue
                X, D = member[0].left.id, member[0].comparators[0].id
                idx = body.index(st)
                ddefs = [s_ for s_ in body[:idx] if isinstance(s_, ast.Assign) and len(s_.targets) == 1 and isinstance(s_.targets[0], ast.Name)
                         and s_.targets[0].id == D]
                if len(ddefs) != 1 or not isinstance(ddefs[0].value, ast.Dict) or not ddefs[0].value.keys:
                    continue
                disp = ddefs[0].value
                if not all(isinstance(k, ast.Constant) and isinstance(k.value, str) for k in disp.keys):
                    continue
                rest = [c for c in conj if c is not member[0]]
                if any(U(c).replace(' ', '') not in ('type(%s)isstr' % X, 'isinstance(%s,str)' % X) for c in rest):
                    continue
                # D is used nowhere else than in the test and as D[X] inside the body
                uses = [n for s_ in body for n in ast.walk(s_) if isinstance(n, ast.Name) and n.id == D]
                reads = [n for b_ in st.body for n in ast.walk(b_) if isinstance(n, ast.Subscript) and isinstance(n.value, ast.Name) and n.value.id == D
                         and U(n.slice) == X]
                if len(uses) != 2 + len(reads):
                    continue
                # X read from an attribute just before?
                xdefs = [s_ for s_ in body[:idx] if isinstance(s_, ast.Assign) and len(s_.targets) == 1 and isinstance(s_.targets[0], ast.Name)
                         and s_.targets[0].id == X]
                xsrc = xdefs[-1].value if xdefs and isinstance(xdefs[-1].value, ast.Attribute) and U(xdefs[-1].value.value) == 'self' else None
                subject = clone(xsrc) if xsrc is not None else ast.Name(id=X, ctx=ast.Load())
                chain = None
                for k, v in reversed(list(zip(disp.keys, disp.values))):
                    br = [clone(b_) for b_ in st.body]

                    class R(ast.NodeTransformer):
                        def visit_Subscript(self, n):
                            n = self.generic_visit(n)
                            if isinstance(n.value, ast.Name) and n.value.id == D and U(n.slice) == X and isinstance(n.ctx, ast.Load):
                                return ast.copy_location(clone(v), n)
                            return n
                    br = [R().visit(b_) for b_ in br]
                    # a, b = (c1, c2): substitute the components
                    out = []
                    binds = {}
                    for b_ in br:
                        if isinstance(b_, ast.Assign) and len(b_.targets) == 1 and isinstance(b_.targets[0], ast.Tuple) and isinstance(b_.value, ast.Tuple) \
                                and len(b_.targets[0].elts) == len(b_.value.elts) and all(isinstance(e_, ast.Name) for e_ in b_.targets[0].elts) \
                                and all(isinstance(e_, (ast.Name, ast.Constant)) for e_ in b_.value.elts) and not out:
                            for a_, c_ in zip(b_.targets[0].elts, b_.value.elts):
                                binds[a_.id] = c_
                            continue
                        out.append(b_)
                    rebound = {n.id for b_ in out for n in ast.walk(b_) if isinstance(n, ast.Name) and isinstance(n.ctx, ast.Store)}
                    if binds and not (set(binds) & rebound):
                        class S2(ast.NodeTransformer):
                            def visit_Name(self, n):
                                return ast.copy_location(clone(binds[n.id]), n) if n.id in binds and isinstance(n.ctx, ast.Load) else n
                        out = [S2().visit(b_) for b_ in out]
                    elif binds:
                        out = [ast.copy_location(ast.Assign(targets=[ast.Name(id=a_, ctx=ast.Store())], value=c_), st) for a_, c_ in binds.items()] + out
                    test = ast.Compare(left=clone(subject), ops=[ast.Eq()], comparators=[clone(k)])
                    new_if = ast.copy_location(ast.If(test=test, body=out, orelse=([chain] if chain is not None else [clone(x_) for x_ in st.orelse])), st)
                    chain = new_if
                body[idx] = chain
                body.remove(ddefs[0])
                for x_ in body:
                    ast.fix_missing_locations(x_)
        process(node.body)

    # ---- a value returned through a one-use temporary ------------------------------------------------------------------------
    def fold_return_temps(self, node):
        """t = E; return t   ->   return E      (t assigned right before the return and used nowhere else)"""
        counts = {}
        for n in ast.walk(node):
            if isinstance(n, ast.Name):
                counts[n.id] = counts.get(n.id, 0) + 1

        def process(body):
            for st in body:
                for f in ('body', 'orelse', 'finalbody'):
                    sub = getattr(st, f, None)
                    if isinstance(sub, list) and sub and isinstance(sub[0], ast.stmt):
                        process(sub)
            i = 0
            while i + 1 < len(body):
                a, r = body[i], body[i + 1]
                if isinstance(a, ast.Assign) and len(a.targets) == 1 and isinstance(a.targets[0], ast.Name) and isinstance(r, ast.Return) \
                        and isinstance(r.value, ast.Name) and r.value.id == a.targets[0].id and counts.get(r.value.id, 0) == 2:
                    body[i:i + 2] = [ast.copy_location(ast.Return(value=a.value), r)]
                    continue
                i += 1
        process(node.body)

    # ---- `if not c: A else: B` -------------------------------------------------------------------------------------------------
    def positive_tests(self, node):
        """if not c: A else: B  ->  if c: B else: A      (both branches present; an elif chain is left alone)"""
        for n in ast.walk(node):
            if isinstance(n, ast.If) and n.body and n.orelse and isinstance(n.test, ast.UnaryOp) and isinstance(n.test.op, ast.Not) \
                    and not (len(n.orelse) == 1 and isinstance(n.orelse[0], ast.If)) and not (len(n.body) == 1 and isinstance(n.body[0], ast.If)):
                n.test = n.test.operand
                n.body, n.orelse = n.orelse, n.body

    # ---- one-use temporaries feeding the very next statement -----------------------------------------------------------------
    def inline_single_use_temps(self, node):
        """t = CALL(..); S(t)   ->   S(CALL(..))     when t is a local assigned exactly once, read exactly once, in the statement that
        follows its definition (not inside a loop header, lambda, comprehension or the test of a compound statement)"""
        stores, loads = {}, {}
        for n in ast.walk(node):
            if isinstance(n, ast.Name):
                d = stores if isinstance(n.ctx, (ast.Store, ast.Del)) else loads
                d[n.id] = d.get(n.id, 0) + 1
        params = {a.arg for a in node.args.posonlyargs + node.args.args + node.args.kwonlyargs}

        def process(body):
            for st in body:
                for f in ('body', 'orelse', 'finalbody'):
                    sub = getattr(st, f, None)
                    if isinstance(sub, list) and sub and isinstance(sub[0], ast.stmt):
                        process(sub)
            i = 0
            while i + 1 < len(body):
                a, nxt = body[i], body[i + 1]
                if isinstance(a, ast.Assign) and len(a.targets) == 1 and isinstance(a.targets[0], ast.Name) and isinstance(a.value, ast.Call) \
                        and isinstance(nxt, (ast.Assign, ast.Expr, ast.Return, ast.AugAssign)):
                    t = a.targets[0].id
                    if stores.get(t) == 1 and loads.get(t) == 1 and t not in params:
                        uses = [n for n in ast.walk(nxt) if isinstance(n, ast.Name) and n.id == t and isinstance(n.ctx, ast.Load)]
                        guarded = any(isinstance(n, (ast.Lambda, ast.ListComp, ast.SetComp, ast.DictComp, ast.GeneratorExp, ast.IfExp, ast.BoolOp))
                                      and any(u in list(ast.walk(n)) for u in uses) for n in ast.walk(nxt))
                        # only the exact inverse of hoisting the first argument of the statement's outermost call
                        outer = nxt.value if isinstance(nxt, (ast.Assign, ast.Expr, ast.Return, ast.AugAssign)) else None
                        first_arg = isinstance(outer, ast.Call) and outer.args and uses and outer.args[0] is uses[0]
                        if len(uses) == 1 and not guarded and first_arg:
                            val = a.value

                            class R(ast.NodeTransformer):
                                def visit_Name(self, n):
                                    return ast.copy_location(val, n) if n.id == t and isinstance(n.ctx, ast.Load) else n
                            body[i:i + 2] = [R().visit(nxt)]
                            continue
                i += 1
        process(node.body)

    # ---- branches that cannot be taken for a positive total ---------------------------------------------------------------------
    def assume_positive_total(self, node):
        """every property quantifies over positive totals: `if self.total > 0: A else: B` is A (and `<= 0` is B).  A guard that is not
        implied by positivity (`>= 1`) is left alone."""
        from .srcmodel import canon_compare

        def verdict(t):
            if not (isinstance(t, ast.Compare) and len(t.ops) == 1):
                return None
            c = canon_compare(t)
            l_, r_, op_ = U(c.left), U(c.comparators[0]), type(c.ops[0])
            if r_ in ('0', '0.0') and l_.endswith('.total') and l_.count('.') == 1:
                if op_ in (ast.Gt, ast.NotEq):
                    return True
                if op_ in (ast.LtE, ast.Eq, ast.Lt):
                    return False
            return None

        def process(body):
            i = 0
            while i < len(body):
                st = body[i]
                if isinstance(st, ast.If):
                    v = verdict(st.test)
                    if v is not None:
                        taken = st.body if v else st.orelse
                        body[i:i + 1] = taken
                        continue
                for f in ('body', 'orelse', 'finalbody'):
                    sub = getattr(st, f, None)
                    if isinstance(sub, list) and sub and isinstance(sub[0], ast.stmt):
                        process(sub)
                i += 1
        process(node.body)

    # ---- setdefault with a default that belongs to one item ------------------------------------------------------------------
    def setdefault_defaults(self, node):
        """inside a loop, `D.setdefault(K, V)` stores V only the first time K is seen: a V that depends on loop variables K does not name
        (the first item's noise level, say) is silently shared by every later item with the same key"""
        def names(e):
            return {x.id for x in ast.walk(e) if isinstance(x, ast.Name)}

        def walk(stmts, loop_vars, assigns):
            for st in stmts:
                if isinstance(st, ast.For):
                    lv = loop_vars | set(target_names(st.target))
                    local = dict(assigns)
                    for n in ast.walk(st):
                        if isinstance(n, ast.Assign):
                            for t in n.targets:
                                for nm in target_names(t):
                                    local.setdefault(nm, set()).update(names(n.value))
                    walk(st.body, lv, local)
                    continue
                if loop_vars:
                    for c in ast.walk(st):
                        if isinstance(c, ast.Call) and isinstance(c.func, ast.Attribute) and c.func.attr == 'setdefault' and len(c.args) == 2:
                            def closure(start):
                                seen, todo = set(), list(start)
                                while todo:
                                    x = todo.pop()
                                    if x in seen:
                                        continue
                                    seen.add(x)
                                    todo.extend(assigns.get(x, ()))
                                return seen
                            kdeps = closure(names(c.args[0])) & loop_vars
                            vdeps = closure(names(c.args[1])) & loop_vars
                            if not vdeps <= kdeps:
                                self.memo_issues.append((st, U(c.func.value), U(c.args[0]),
                                                         ['<`%s` keeps the default built for the FIRST item seen under a key; that default contains %s, which the '
                                                          'key `%s` does not name, so later items with the same key inherit the first one\'s value>'
                                                          % (U(c)[:70], sorted(vdeps - kdeps), U(c.args[0]))]))
                for f in ('body', 'orelse', 'finalbody'):
                    sub = getattr(st, f, None)
                    if isinstance(sub, list) and sub and isinstance(sub[0], ast.stmt) and not isinstance(st, ast.For):
                        walk(sub, loop_vars, assigns)
        walk(node.body, set(), {})

    def one_shot_iterators(self, node):
        """A generator expression (or map / filter / zip object) bound to a local can be walked ONCE.  When a loop without `break` (or
        list / sum / sorted ...) has walked it, a later walk of the same name sees nothing - recorded as an issue.  Independently:
        `tuple(<generator>)` / `list(<generator>)` are read as the list comprehension they build, and `sum(1 for v in S)` over a
        list / tuple local as len(S)."""
        ONE_SHOT_CALLS = ('map', 'filter', 'zip', 'iter', 'reversed', 'enumerate')
        EXHAUST = ('list', 'tuple', 'sorted', 'sum', 'set', 'dict', 'max', 'min', 'any', 'all', 'frozenset')
        own = list(walk_shallow(node))
        stores = {}
        for n in own:
            if isinstance(n, ast.Assign):
                for t in n.targets:
                    for nm in target_names(t):
                        stores.setdefault(nm, []).append(n)
            elif isinstance(n, (ast.AugAssign, ast.AnnAssign, ast.For)):
                for nm in target_names(n.target):
                    stores.setdefault(nm, []).append(n)
        params = set(self.fi.params)

        def single(nm):
            if nm in params or len(stores.get(nm, [])) != 1:
                return None
            st = stores[nm][0]
            if isinstance(st, ast.Assign) and len(st.targets) == 1 and isinstance(st.targets[0], ast.Name):
                return st
            return None
        # 1. list(gen) -> [..]   (tuple(gen) is left as it is: recognisers of axis tuples read it that way; `single` treats it as sized)
        for n in []:
            for f, v in ast.iter_fields(n):
                items = v if isinstance(v, list) else [v]
                for i, x in enumerate(items):
                    if isinstance(x, ast.Call) and isinstance(x.func, ast.Name) and x.func.id in ('tuple', 'list') and len(x.args) == 1 \
                            and not x.keywords and isinstance(x.args[0], ast.GeneratorExp):
                        new = ast.copy_location(ast.ListComp(elt=x.args[0].elt, generators=x.args[0].generators), x)
                        if x.func.id == 'tuple':
                            # still a tuple (numpy treats a tuple of axes and a list of axes differently): only the generator is materialised
                            x.args[0] = new
                            continue
                        if isinstance(v, list):
                            v[i] = new
                        else:
                            setattr(n, f, new)
        # 2. one-shot iterators walked twice
        for nm in sorted(stores):
            st = single(nm)
            if st is None:
                continue
            v = st.value
            if not (isinstance(v, ast.GeneratorExp) or (isinstance(v, ast.Call) and isinstance(v.func, ast.Name) and v.func.id in ONE_SHOT_CALLS)):
                continue
            par = getattr(st, '_parent', None)
            block = next((b for b in (getattr(par, 'body', None), getattr(par, 'orelse', None)) if isinstance(b, list) and st in b), None) \
                if par is not None else None
            if block is None:
                block = node.body if st in node.body else None
            if block is None:
                continue
            walks = []          # (statement in block, exhaustive?, inside an inner loop?)
            unknown = False
            for s2 in block[block.index(st) + 1:]:
                for u in ast.walk(s2):
                    if not (isinstance(u, ast.Name) and u.id == nm and isinstance(u.ctx, ast.Load)):
                        continue
                    up = getattr(u, '_parent', None)
                    if isinstance(up, ast.For) and up.iter is u:
                        exhaustive = not any(isinstance(b, (ast.Break, ast.Return)) for b in ast.walk(up)) and not up.orelse
                        inner = up is not s2
                        walks.append((s2, exhaustive, inner, up))
                    elif isinstance(up, ast.comprehension) and up.iter is u:
                        walks.append((s2, True, False, up))
                    elif isinstance(up, ast.Call) and isinstance(up.func, ast.Name) and up.func.id in EXHAUST and up.args and up.args[0] is u:
                        walks.append((s2, True, False, up))
                    else:
                        unknown = True
            if unknown or len(walks) < 2:
                continue
            first, second = walks[0], walks[1]
            if first[1] and not first[2] and first[0] is not second[0]:
                self.memo_issues.append((second[3] if hasattr(second[3], 'lineno') else second[0], '!one-shot', nm,
                                         ['<`%s` is a one-shot iterator (`%s`); `%s` has walked it to the end, so `%s` sees no element>'
                                          % (nm, U(v)[:60], U(first[0]).split('\n')[0][:50], U(second[0]).split('\n')[0][:60])]))
        # 3. sum(1 for v in S) over a sized local -> len(S)
        SIZED = (ast.ListComp, ast.List, ast.Tuple, ast.SetComp, ast.DictComp, ast.Dict, ast.Set)
        for n in own:
            for f, v in ast.iter_fields(n):
                items = v if isinstance(v, list) else [v]
                for i, x in enumerate(items):
                    if isinstance(x, ast.Call) and isinstance(x.func, ast.Name) and x.func.id == 'sum' and len(x.args) == 1 and not x.keywords \
                            and isinstance(x.args[0], ast.GeneratorExp) and len(x.args[0].generators) == 1 and not x.args[0].generators[0].ifs \
                            and isinstance(x.args[0].elt, ast.Constant) and x.args[0].elt.value == 1 \
                            and isinstance(x.args[0].generators[0].iter, ast.Name):
                        st = single(x.args[0].generators[0].iter.id)
                        if st is None:
                            continue
                        sv = st.value
                        sized = isinstance(sv, SIZED) or (isinstance(sv, ast.Call) and isinstance(sv.func, ast.Name)
                                                          and sv.func.id in ('list', 'tuple', 'sorted', 'set', 'frozenset'))
                        if sized:
                            new = ast.copy_location(ast.Call(func=ast.Name(id='len', ctx=ast.Load()), args=[x.args[0].generators[0].iter], keywords=[]), x)
                            if isinstance(v, list):
                                v[i] = new
                            else:
                                setattr(n, f, new)

    def split_tuple_accumulators(self, node):
        """S = [] ; .. S.append((e0, e1)) .. ; a, b = np.array(S).T      (a list of k-tuples read back column by column)
        is read as k parallel accumulators: S__0 = np.append(S__0, e0) .. ; a = S__0 ; b = S__1 ; len(S) is S__0.size.
        Applied when every use of S is one of these forms."""
        own = list(walk_shallow(node))
        inits = {}
        for n in own:
            if isinstance(n, ast.Assign) and len(n.targets) == 1 and isinstance(n.targets[0], ast.Name) and isinstance(n.value, ast.List) and not n.value.elts:
                inits.setdefault(n.targets[0].id, []).append(n)
        for S, ini in inits.items():
            if len(ini) != 1:
                continue
            uses = [x for x in own if isinstance(x, ast.Name) and x.id == S and x is not ini[0].targets[0]]
            appends, lens, cols = [], [], []
            ok = True
            for u in uses:
                par = getattr(u, '_parent', None)
                gp = getattr(par, '_parent', None)
                if isinstance(par, ast.Attribute) and par.attr == 'append' and isinstance(gp, ast.Call) and len(gp.args) == 1 \
                        and isinstance(gp.args[0], ast.Tuple) and isinstance(getattr(gp, '_parent', None), ast.Expr):
                    appends.append(gp)
                elif isinstance(par, ast.Call) and U(par.func) == 'len' and len(par.args) == 1:
                    lens.append(par)
                elif isinstance(par, ast.Call) and U(par.func) in ('np.array', 'numpy.array', 'np.asarray') and len(par.args) == 1 and not par.keywords \
                        and isinstance(gp, ast.Attribute) and gp.attr == 'T' and isinstance(getattr(gp, '_parent', None), ast.Assign) \
                        and gp._parent.value is gp and len(gp._parent.targets) == 1 and isinstance(gp._parent.targets[0], ast.Tuple) \
                        and all(isinstance(e_, ast.Name) for e_ in gp._parent.targets[0].elts):
                    cols.append(gp._parent)
                else:
                    ok = False
            ks = {len(a.args[0].elts) for a in appends}
            if not ok or not appends or len(cols) != 1 or len(ks) != 1 or len(cols[0].targets[0].elts) != ks.pop():
                continue
            k = len(cols[0].targets[0].elts)
            names = ['%s__c%d' % (S, j) for j in range(k)]

            def rewrite(block):
                out = []
                for st in block:
                    if st is ini[0]:
                        for nm in names:
                            out.append(ast.copy_location(ast.Assign(targets=[ast.Name(id=nm, ctx=ast.Store())],
                                       value=ast.Call(func=ast.Attribute(value=ast.Name(id='np', ctx=ast.Load()), attr='array', ctx=ast.Load()),
                                                      args=[ast.List(elts=[], ctx=ast.Load())], keywords=[])), st))
                        continue
                    if isinstance(st, ast.Expr) and st.value in appends:
                        for nm, e_ in zip(names, st.value.args[0].elts):
                            out.append(ast.copy_location(ast.Assign(targets=[ast.Name(id=nm, ctx=ast.Store())],
                                       value=ast.Call(func=ast.Attribute(value=ast.Name(id='np', ctx=ast.Load()), attr='append', ctx=ast.Load()),
                                                      args=[ast.Name(id=nm, ctx=ast.Load()), e_], keywords=[])), st))
                        continue
                    if st is cols[0]:
                        for t_, nm in zip(st.targets[0].elts, names):
                            out.append(ast.copy_location(ast.Assign(targets=[ast.Name(id=t_.id, ctx=ast.Store())], value=ast.Name(id=nm, ctx=ast.Load())), st))
                        continue
                    for f in ('body', 'orelse', 'finalbody'):
                        sub = getattr(st, f, None)
                        if isinstance(sub, list) and sub and isinstance(sub[0], ast.stmt):
                            setattr(st, f, rewrite(sub))
                    out.append(st)
                return out
            node.body = rewrite(node.body)
            for l_ in lens:
                new = ast.Attribute(value=ast.Name(id=names[0], ctx=ast.Load()), attr='size', ctx=ast.Load())
                par = l_._parent
                for f, v in ast.iter_fields(par):
                    if v is l_:
                        setattr(par, f, new)
                    elif isinstance(v, list) and l_ in v:
                        v[v.index(l_)] = new
            ast.fix_missing_locations(node)
            for n_ in ast.walk(node):
                for ch_ in ast.iter_child_nodes(n_):
                    ch_._parent = n_

    def inline_deferred_scatter(self, node):
        """I, V = [], [] ; loop: .. I.append(i); V.append(v) .. ; E = np.zeros(N); np.add.at(E, I, V)
        is the accumulation `E[i] += v` done inside the loop (numpy.add.at sums repeated positions, in order): read that way when the two
        lists are used for nothing else."""
        body = node.body
        for k, st in enumerate(body):
            if not (isinstance(st, ast.Expr) and isinstance(st.value, ast.Call) and U(st.value.func) in ('np.add.at', 'numpy.add.at')
                    and len(st.value.args) == 3 and all(isinstance(a, ast.Name) for a in st.value.args)):
                continue
            E, I, V = [a.id for a in st.value.args]
            zeros = [(j, s2) for j, s2 in enumerate(body[:k]) if isinstance(s2, ast.Assign) and len(s2.targets) == 1 and U(s2.targets[0]) == E]
            if len(zeros) != 1 or not (isinstance(zeros[0][1].value, ast.Call) and U(zeros[0][1].value.func) in ('np.zeros', 'numpy.zeros')):
                continue
            jz, zst = zeros[0]
            loops = [(j, s2) for j, s2 in enumerate(body[:k]) if isinstance(s2, (ast.For, ast.While))
                     and any(isinstance(c, ast.Call) and isinstance(c.func, ast.Attribute) and c.func.attr == 'append' and U(c.func.value) in (I, V)
                             for c in ast.walk(s2))]
            if len(loops) != 1:
                continue
            jl, loop = loops[0]
            if jz < jl and any(isinstance(x, ast.Name) and x.id == E for s2 in body[jz + 1:k] for x in ast.walk(s2)):
                continue
            # the two lists: initialised empty before the loop, appended once each in one block, read nowhere else
            uses = [x for s2 in body for x in ast.walk(s2) if isinstance(x, ast.Name) and x.id in (I, V)]
            site = None

            def find(block):
                nonlocal site
                for idx in range(len(block) - 1):
                    a, b = block[idx], block[idx + 1]
                    def app(s_, nm):
                        return isinstance(s_, ast.Expr) and isinstance(s_.value, ast.Call) and isinstance(s_.value.func, ast.Attribute) \
                            and s_.value.func.attr == 'append' and U(s_.value.func.value) == nm and len(s_.value.args) == 1
                    if app(a, I) and app(b, V):
                        site = (block, idx, a.value.args[0], b.value.args[0])
                    elif app(a, V) and app(b, I):
                        site = (block, idx, b.value.args[0], a.value.args[0])
                for s_ in block:
                    for f in ('body', 'orelse'):
                        sub = getattr(s_, f, None)
                        if isinstance(sub, list) and sub and isinstance(sub[0], ast.stmt):
                            find(sub)
            find(loop.body)
            if site is None:
                continue
            inits = [s2 for s2 in body[:jl] if isinstance(s2, ast.Assign) and any(nm in target_names(t) for t in s2.targets for nm in (I, V))]
            n_init_uses = sum(1 for s2 in inits for x in ast.walk(s2) if isinstance(x, ast.Name) and x.id in (I, V))
            if len(uses) != n_init_uses + 2 + 2:          # inits + two appends + the two arguments of add.at
                continue
            ok_inits = all(isinstance(s2.value, (ast.List, ast.Tuple)) for s2 in inits) and \
                all(not (v_.elts if isinstance(v_, ast.List) else True) for s2 in inits
                    for v_ in ([s2.value] if isinstance(s2.value, ast.List) else s2.value.elts))
            if not inits or not ok_inits:
                continue
            blk, idx, i_expr, v_expr = site
            acc = ast.copy_location(ast.AugAssign(target=ast.Subscript(value=ast.Name(id=E, ctx=ast.Load()), slice=i_expr, ctx=ast.Store()),
                                                  op=ast.Add(), value=v_expr), blk[idx])
            blk[idx:idx + 2] = [acc]
            new_body = [s2 for s2 in body if s2 is not st and s2 not in inits and s2 is not zst]
            new_body.insert(new_body.index(loop), zst)
            node.body = new_body
            ast.fix_missing_locations(node)
            return

    def completed_permutations(self, node):
        """dest = list(AX) + [k for k in range(N) if k not in AX];  X = X.transpose(np.argsort(dest))     ->   X = np.moveaxis(X, range(len(AX)), AX)
        (the inverse of "own axes to AX, the others fill the remaining slots in order" is exactly what moveaxis builds), and
            if AX != tuple(range(len(AX))): X = np.moveaxis(X, range(len(AX)), AX)                      ->   the assignment alone
        (where the test fails the move is the identity).  Any other guard is left in place."""
        def blocks_of(n0):
            for n in ast.walk(n0):
                for fld in ('body', 'orelse'):
                    b = getattr(n, fld, None)
                    if isinstance(b, list):
                        yield b
        for blk in list(blocks_of(node)):
            i = 0
            while i + 1 < len(blk):
                a, b = blk[i], blk[i + 1]
                if isinstance(a, ast.Assign) and len(a.targets) == 1 and isinstance(a.targets[0], ast.Name) and isinstance(a.value, ast.BinOp) and isinstance(a.value.op, ast.Add) \
                        and isinstance(b, ast.Assign) and len(b.targets) == 1 and isinstance(b.targets[0], ast.Name):
                    d = a.targets[0].id
                    L, R = a.value.left, a.value.right
                    AX = L.args[0] if isinstance(L, ast.Call) and U(L.func) in ('list', 'tuple') and len(L.args) == 1 else None
                    okR = isinstance(R, ast.ListComp) and len(R.generators) == 1 and isinstance(R.generators[0].target, ast.Name) and U(R.elt) == R.generators[0].target.id \
                        and isinstance(R.generators[0].iter, ast.Call) and U(R.generators[0].iter.func) == 'range' and len(R.generators[0].iter.args) == 1 \
                        and len(R.generators[0].ifs) == 1 and AX is not None and U(R.generators[0].ifs[0]).replace(' ', '') == '%snotin%s' % (R.generators[0].target.id, U(AX))
                    v = b.value
                    okT = isinstance(v, ast.Call) and isinstance(v.func, ast.Attribute) and v.func.attr == 'transpose' and len(v.args) == 1 and U(v.func.value) == b.targets[0].id \
                        and U(v.args[0]).replace(' ', '') in ('np.argsort(%s)' % d, 'tuple(np.argsort(%s))' % d)
                    used_later = any(isinstance(n, ast.Name) and n.id == d for st in blk[i + 2:] for n in ast.walk(st))
                    if okR and okT and not used_later and isinstance(AX, ast.Name):
                        newv = ast.parse('np.moveaxis(%s, range(len(%s)), %s)' % (b.targets[0].id, AX.id, AX.id), mode='eval').body
                        nb = ast.copy_location(ast.Assign(targets=b.targets, value=newv), b)
                        ast.fix_missing_locations(nb)
                        blk[i:i + 2] = [nb]
                        continue
                i += 1
        for blk in list(blocks_of(node)):
            for i, st in enumerate(blk):
                if isinstance(st, ast.If) and not st.orelse and len(st.body) == 1 and isinstance(st.body[0], ast.Assign) and isinstance(st.body[0].value, ast.Call) \
                        and U(st.body[0].value.func) in ('np.moveaxis', 'numpy.moveaxis') and len(st.body[0].value.args) == 3 and not st.body[0].value.keywords:
                    X, src, dst = st.body[0].value.args
                    ax = U(dst)
                    if U(st.body[0].targets[0]) == U(X) and U(src).replace(' ', '') == 'range(len(%s))' % ax and \
                            U(st.test).replace(' ', '') in ('%s!=tuple(range(len(%s)))' % (ax, ax), 'tuple(%s)!=tuple(range(len(%s)))' % (ax, ax), 'list(%s)!=list(range(len(%s)))' % (ax, ax)):
                        blk[i] = st.body[0]

    def inline_hoisted_tests(self, node):
        """f = (p == 'k')   (a comparison of parameters / attributes of self / constants, bound once at the top level of the function, none of
        whose names is re-bound afterwards) ... if f: ..        ->   if p == 'k': ..
        A test hoisted out of a loop reads the same values wherever it is evaluated."""
        body = node.body
        for i, st in enumerate(list(body)):
            if not (isinstance(st, ast.Assign) and len(st.targets) == 1 and isinstance(st.targets[0], ast.Name) and isinstance(st.value, (ast.Compare, ast.BoolOp))):
                continue
            f = st.targets[0].id
            if sum(1 for n in ast.walk(node) if isinstance(n, ast.Name) and n.id == f and isinstance(n.ctx, ast.Store)) != 1:
                continue
            if any(not isinstance(n, (ast.Name, ast.Attribute, ast.Constant, ast.Compare, ast.BoolOp, ast.cmpop, ast.boolop, ast.expr_context, ast.UnaryOp, ast.unaryop))
                   for n in ast.walk(st.value)):
                continue
            names = {n.id for n in ast.walk(st.value) if isinstance(n, ast.Name)}
            attrs = {U(n) for n in ast.walk(st.value) if isinstance(n, ast.Attribute)}
            later = body[body.index(st) + 1:]
            rebound = any(isinstance(n, ast.Name) and n.id in names and isinstance(n.ctx, ast.Store) for r in later for n in ast.walk(r)) or \
                any(isinstance(n, ast.Attribute) and U(n) in attrs and isinstance(n.ctx, ast.Store) for r in later for n in ast.walk(r))
            if rebound or any(isinstance(n, ast.Call) for r in later for n in ast.walk(r) if False):
                continue
            loads = [n for r in later for n in ast.walk(r) if isinstance(n, ast.Name) and n.id == f]
            tests = [t for r in later for t in ast.walk(r) if isinstance(t, (ast.If, ast.IfExp, ast.While)) and isinstance(t.test, ast.Name) and t.test.id == f]
            nots = [t for r in later for t in ast.walk(r) if isinstance(t, (ast.If, ast.IfExp, ast.While)) and isinstance(t.test, ast.UnaryOp)
                    and isinstance(t.test.op, ast.Not) and isinstance(t.test.operand, ast.Name) and t.test.operand.id == f]
            if not loads or len(loads) != len(tests) + len(nots):
                continue
            for t in tests:
                t.test = clone(st.value)
            for t in nots:
                t.test.operand = clone(st.value)
            body.remove(st)
        ast.fix_missing_locations(node)

    def argmin_scans(self, node):
        """best = None
           for c in X:  if COND(c) and (best is None or K[c] < K[best]): best = c
           if best is not None: BODY(best)
        with K = {c: F(c) for c in X}: the FIRST element of X with COND and minimal F - what the first match in the stable `sorted(X, key=F)` is:
           for c in sorted(X, key=F):  if COND(c): BODY(c); break
        With `<=` the LAST minimal element is taken: the first match in `sorted(X[::-1], key=F)`."""
        def process(block):
            i = 0
            while i + 2 < len(block) + 0 and i + 2 <= len(block) - 1:
                s0, s1, s2 = block[i], block[i + 1], block[i + 2]
                new = self._argmin_scan(node, s0, s1, s2, block[i + 3:])
                if new is not None:
                    block[i:i + 3] = [new]
                    # the key table, when nothing reads it any more
                    K = getattr(new, '_key_table', None)
                    if K and not any(isinstance(n, ast.Name) and n.id == K and isinstance(n.ctx, ast.Load) for n in ast.walk(node)):
                        for blk in [node.body] + [getattr(st, f) for st in ast.walk(node) for f in ('body', 'orelse') if isinstance(getattr(st, f, None), list)]:
                            for st in list(blk):
                                if isinstance(st, ast.Assign) and len(st.targets) == 1 and U(st.targets[0]) == K:
                                    blk.remove(st)
                i += 1
            for st in block:
                for f in ('body', 'orelse', 'finalbody'):
                    sub = getattr(st, f, None)
                    if isinstance(sub, list) and sub and isinstance(sub[0], ast.stmt):
                        process(sub)
        process(node.body)
        ast.fix_missing_locations(node)

    def _argmin_scan(self, node, s0, s1, s2, rest):
        if not (isinstance(s0, ast.Assign) and len(s0.targets) == 1 and isinstance(s0.targets[0], ast.Name) and U(s0.value) == 'None'):
            return None
        best = s0.targets[0].id
        if not (isinstance(s1, ast.For) and isinstance(s1.target, ast.Name) and not s1.orelse and len(s1.body) == 1 and isinstance(s1.body[0], ast.If)
                and not s1.body[0].orelse and len(s1.body[0].body) == 1):
            return None
        c = s1.target.id
        upd = s1.body[0].body[0]
        if not (isinstance(upd, ast.Assign) and len(upd.targets) == 1 and U(upd.targets[0]) == best and U(upd.value) == c):
            return None
        t = s1.body[0].test
        parts = list(t.values) if isinstance(t, ast.BoolOp) and isinstance(t.op, ast.And) else [t]
        sel = [p_ for p_ in parts if isinstance(p_, ast.BoolOp) and isinstance(p_.op, ast.Or) and len(p_.values) == 2
               and U(p_.values[0]).replace(' ', '') == '%sisNone' % best]
        if len(sel) != 1 or len(parts) < 2:
            return None
        cmp_ = sel[0].values[1]
        if not (isinstance(cmp_, ast.Compare) and len(cmp_.ops) == 1 and isinstance(cmp_.ops[0], (ast.Lt, ast.LtE))):
            return None
        l_, r_ = cmp_.left, cmp_.comparators[0]
        if not (isinstance(l_, ast.Subscript) and isinstance(r_, ast.Subscript) and U(l_.value) == U(r_.value) and isinstance(l_.value, ast.Name)
                and U(l_.slice) == c and U(r_.slice) == best):
            return None
        K = l_.value.id
        kdefs = [a for a in ast.walk(node) if isinstance(a, ast.Assign) and len(a.targets) == 1 and U(a.targets[0]) == K]
        if len(kdefs) != 1 or not isinstance(kdefs[0].value, ast.DictComp):
            return None
        dc = kdefs[0].value
        if not (len(dc.generators) == 1 and not dc.generators[0].ifs and isinstance(dc.generators[0].target, ast.Name) and U(dc.key) == dc.generators[0].target.id
                and U(dc.generators[0].iter) == U(s1.iter) and isinstance(dc.value, ast.Call) and len(dc.value.args) == 1 and not dc.value.keywords
                and U(dc.value.args[0]) == dc.generators[0].target.id):
            return None
        F = dc.value.func
        if not (isinstance(s2, ast.If) and not s2.orelse and U(s2.test).replace(' ', '') in ('%sisnotNone' % best, '%s!=None' % best)):
            return None
        if any(isinstance(n, ast.Name) and n.id == best for st in rest for n in ast.walk(st)):
            return None
        if any(isinstance(n, ast.Name) and n.id == best and isinstance(n.ctx, ast.Store) for st in s2.body for n in ast.walk(st)):
            return None
        cond = [p_ for p_ in parts if p_ is not sel[0]]

        class R(ast.NodeTransformer):
            def visit_Subscript(self, n):
                n = self.generic_visit(n)
                if isinstance(n.value, ast.Name) and n.value.id == K and isinstance(n.slice, ast.Name) and n.slice.id == c and isinstance(n.ctx, ast.Load):
                    return ast.copy_location(ast.Call(func=clone(F), args=[ast.Name(id=c, ctx=ast.Load())], keywords=[]), n)
                return n

            def visit_Name(self, n):
                if n.id == best:
                    return ast.copy_location(ast.Name(id=c, ctx=n.ctx), n)
                return n
        body = [R().visit(clone(st)) for st in s2.body] + [ast.Break()]
        src = clone(s1.iter)
        if isinstance(cmp_.ops[0], ast.LtE):
            src = ast.Subscript(value=src, slice=ast.Slice(lower=None, upper=None, step=ast.UnaryOp(op=ast.USub(), operand=ast.Constant(value=1))), ctx=ast.Load())
        it = ast.Call(func=ast.Name(id='sorted', ctx=ast.Load()), args=[src], keywords=[ast.keyword(arg='key', value=clone(F))])
        test = cond[0] if len(cond) == 1 else ast.BoolOp(op=ast.And(), values=cond)
        new = ast.For(target=ast.Name(id=c, ctx=ast.Store()), iter=it, body=[ast.If(test=test, body=body, orelse=[])], orelse=[])
        new = ast.fix_missing_locations(ast.copy_location(new, s1))
        new._key_table = K
        return new

    def fuse_pipelines(self, node):
        """A chain of list comprehensions over one source - `A = [e1 for t1 in S]; B = [e2 for t2 in A if c]; X = np.array([e3 for t3 in B])`
        - is read as the single loop it describes: `for t1 in S: t2 = e1; if c: t3 = e2; X = np.append(X, e3)`.  Applied to runs of
        consecutive top-level statements whose intermediate lists are used by later stages only (no other reads), so that the
        element-by-element reading is exact for side-effect-free element expressions."""
        def stage_of(st):
            if not (isinstance(st, ast.Assign) and len(st.targets) == 1 and isinstance(st.targets[0], ast.Name)):
                return None
            v = st.value
            kind = 'list'
            if isinstance(v, ast.Call) and U(v.func) in ('np.array', 'numpy.array', 'np.asarray') and len(v.args) == 1 and not v.keywords:
                v, kind = v.args[0], 'array'
            if isinstance(v, ast.ListComp) and len(v.generators) == 1 and not v.generators[0].is_async:
                g = v.generators[0]
                return dict(name=st.targets[0].id, kind=kind, elt=v.elt, target=g.target, iter=g.iter, ifs=g.ifs, stmt=st)
            return None
        body = node.body
        i = 0
        while i < len(body):
            run_ = []
            j = i
            while j < len(body):
                sg = stage_of(body[j])
                if sg is None:
                    break
                run_.append(sg)
                j += 1
            if len(run_) < 2:
                i = j + 1 if j == i else j
                continue
            names = {sg['name'] for sg in run_}
            if len(names) != len(run_):
                i = j
                continue
            # sources: a stage iterates a plain name (an earlier stage) or the root
            def src(sg):
                return sg['iter'].id if isinstance(sg['iter'], ast.Name) and sg['iter'].id in names else None
            roots = [sg for sg in run_ if src(sg) is None]
            if len(roots) != 1 or roots[0] is not run_[0]:
                i = j
                continue
            # every stage but the root reads an EARLIER stage
            order = {sg['name']: k for k, sg in enumerate(run_)}
            if any(src(sg) is None or order[src(sg)] >= order[sg['name']] for sg in run_[1:]):
                i = j
                continue
            # an intermediate list may be read by later stages only (as their source); a final one by no stage
            consumers = {}
            for sg in run_[1:]:
                consumers.setdefault(src(sg), []).append(sg)
            ok = True
            finals = []
            rest = body[j:]
            for sg in run_:
                reads_in_run = [x for s2 in run_ for x in ast.walk(s2['stmt'].value) if isinstance(x, ast.Name) and x.id == sg['name']]
                reads_after = [x for s2 in rest for x in ast.walk(s2) if isinstance(x, ast.Name) and x.id == sg['name'] and isinstance(x.ctx, ast.Load)]
                if sg['name'] in consumers:
                    if len(reads_in_run) != len(consumers[sg['name']]) or reads_after or sg['kind'] != 'list':
                        ok = False
                else:
                    if reads_in_run:
                        ok = False
                    finals.append(sg)
            if not ok or not finals:
                i = j
                continue

            def emit(sg):
                """statements executed for one element of sg's source, with sg['target'] bound"""
                inner = []
                if sg['name'] in consumers:
                    for c in consumers[sg['name']]:
                        bind = ast.Assign(targets=[clone(c['target'])], value=clone(sg['elt']))
                        for x in ast.walk(bind.targets[0]):
                            if hasattr(x, 'ctx'):
                                x.ctx = ast.Store()
                        inner.append(ast.copy_location(bind, c['stmt']))
                        inner.extend(emit(c))
                else:
                    nm = sg['name']
                    if sg['kind'] == 'array':
                        acc = ast.Assign(targets=[ast.Name(id=nm, ctx=ast.Store())],
                                         value=ast.Call(func=ast.Attribute(value=ast.Name(id='np', ctx=ast.Load()), attr='append', ctx=ast.Load()),
                                                        args=[ast.Name(id=nm, ctx=ast.Load()), clone(sg['elt'])], keywords=[]))
                    else:
                        acc = ast.Expr(value=ast.Call(func=ast.Attribute(value=ast.Name(id=nm, ctx=ast.Load()), attr='append', ctx=ast.Load()),
                                                      args=[clone(sg['elt'])], keywords=[]))
                    inner.append(ast.copy_location(acc, sg['stmt']))
                for c_ in reversed(sg['ifs']):
                    inner = [ast.copy_location(ast.If(test=clone(c_), body=inner, orelse=[]), sg['stmt'])]
                return inner
            root = run_[0]
            inits = []
            for sg in finals:
                init_v = ast.Call(func=ast.Attribute(value=ast.Name(id='np', ctx=ast.Load()), attr='array', ctx=ast.Load()),
                                  args=[ast.List(elts=[], ctx=ast.Load())], keywords=[]) if sg['kind'] == 'array' else ast.List(elts=[], ctx=ast.Load())
                inits.append(ast.copy_location(ast.Assign(targets=[ast.Name(id=sg['name'], ctx=ast.Store())], value=init_v), sg['stmt']))
            loop = ast.copy_location(ast.For(target=clone(root['target']), iter=clone(root['iter']), body=emit(root), orelse=[]), root['stmt'])
            for x in ast.walk(loop.target):
                if hasattr(x, 'ctx'):
                    x.ctx = ast.Store()
            body[i:j] = inits + [loop]
            ast.fix_missing_locations(node)
            i += len(inits) + 1

    def run(self):
        node = clone(self.fi.node)
        self.memo_issues = []
        for n_ in ast.walk(node):
            for ch_ in ast.iter_child_nodes(n_):
                ch_._parent = n_
        self.completed_permutations(node)
        self.one_shot_iterators(node)
        self.fuse_pipelines(node)
        self.argmin_scans(node)
        self.inline_hoisted_tests(node)
        self.inline_deferred_scatter(node)
        self.split_tuple_accumulators(node)
        self.dememoise(node)
        node.body = self.block(node.body, {}, (self.fi.qualname,))
        self.dememoise(node)          # memo tables that came in with inlined helpers
        self.setdefault_defaults(node)
        self.fuse_item_tables(node)
        self.simplify_options(node)
        self.unroll_table_dispatch(node)
        self.assume_positive_total(node)
        self.fold_return_temps(node)
        self.positive_tests(node)
        self.inline_single_use_temps(node)
        self.split_paths(node)
        ast.fix_missing_locations(node)
        for n in ast.walk(node):
            for ch in ast.iter_child_nodes(n):
                ch._parent = n
        node._parent = getattr(self.fi.node, '_parent', None)
        return node


class NormFunc(FuncInfo):
    """a FuncInfo whose node is the normalised copy; .original is the source FuncInfo"""

    def __init__(self, fi, node, inlined, memo_issues=()):
        FuncInfo.__init__(self, fi.module, node, fi.qualname, fi.cls, fi.parent)
        self.original = fi
        self.inlined = inlined
        self.memo_issues = list(memo_issues)


def normalised(repo, fi):
    if isinstance(fi, NormFunc):
        return fi
    cache = repo.__dict__.setdefault('_norm_cache', {})
    key = (fi.rel, fi.qualname)
    if key not in cache or cache[key].original is not fi:
        nz = Normaliser(repo, fi)
        node = nz.run()
        cache[key] = NormFunc(fi, node, nz.inlined, nz.memo_issues)
    return cache[key]


def nfunc(repo, rel, qualname):
    return normalised(repo, repo.func(rel, qualname))


def at_defaults(fi, established):
    """fi with its NEW optional parameters (not in `established`, constant default) fixed at their defaults: `p is None` tests are
    decided, other reads of a non-None default are replaced by the constant.  -> (NormFunc, {param: default node}).  What an explicit
    argument means is judged at the call sites that pass one."""
    defaults = fi.defaults()
    extra = {p: d for p, d in defaults.items() if p not in established and p != 'self' and isinstance(d, ast.Constant)}
    if not extra:
        return fi, {}
    node = clone(fi.node)

    def decide(t):
        if isinstance(t, ast.Compare) and len(t.ops) == 1 and isinstance(t.left, ast.Name) and t.left.id in extra \
                and isinstance(t.comparators[0], ast.Constant) and t.comparators[0].value is None and isinstance(t.ops[0], (ast.Is, ast.IsNot, ast.Eq, ast.NotEq)):
            is_none = extra[t.left.id].value is None
            return is_none == isinstance(t.ops[0], (ast.Is, ast.Eq))
        if isinstance(t, ast.UnaryOp) and isinstance(t.op, ast.Not):
            d = decide(t.operand)
            return None if d is None else not d
        return None

    def fold(stmts, assigned):
        out = []
        for st in stmts:
            if isinstance(st, ast.If):
                d = decide(st.test) if not ({n.id for n in ast.walk(st.test) if isinstance(n, ast.Name)} & assigned) else None
                if d is not None:
                    out.extend(fold(st.body if d else st.orelse, assigned))
                    continue
                st.body = fold(st.body, assigned)
                st.orelse = fold(st.orelse, assigned)
            elif isinstance(st, (ast.For, ast.While, ast.With, ast.Try)):
                for f in ('body', 'orelse', 'finalbody'):
                    if getattr(st, f, None):
                        setattr(st, f, fold(getattr(st, f), assigned))
            else:
                class X(ast.NodeTransformer):
                    def visit_IfExp(self, n):
                        n = self.generic_visit(n)
                        d = decide(n.test) if not ({x.id for x in ast.walk(n.test) if isinstance(x, ast.Name)} & assigned) else None
                        return n if d is None else (n.body if d else n.orelse)

                    def visit_Name(self, n):
                        if isinstance(n.ctx, ast.Load) and n.id in extra and n.id not in assigned and extra[n.id].value is not None:
                            return ast.copy_location(clone(extra[n.id]), n)
                        return n
                st = X().visit(st)
            for n in ast.walk(st):
                if isinstance(n, ast.Name) and isinstance(n.ctx, ast.Store) and n.id in extra:
                    assigned.add(n.id)
            out.append(st)
        return out
    node.body = fold(node.body, set())
    ast.fix_missing_locations(node)
    for n in ast.walk(node):
        for ch in ast.iter_child_nodes(n):
            ch._parent = n
    node._parent = getattr(fi.node, '_parent', None)
    nf = NormFunc(getattr(fi, 'original', fi), node, getattr(fi, 'inlined', []), getattr(fi, 'memo_issues', ()))
    return nf, extra


def ssa_straightline(stmts, params=()):
    """Value-level view of a statement list: a local that is (re)assigned several times by TOP-LEVEL statements - plain assignment,
    `x op= e`, or an in-place numpy call `np.f(x, .., out=x)` - gets one name per assignment (`x__v1`, `x__v2`, .., the last one keeps
    the name), so that every name has one definition and definitions can be substituted into uses.  Only names all of whose stores
    are top-level statements, that are not parameters and are not referenced from a nested function / lambda are renamed.  This view
    says what VALUE a name holds; which storage an in-place operation writes is decided on the original statements by the alias
    analyses.  Returns a cloned list."""
    return _ssa(stmts, params, probe=True)


def _ssa(stmts, params, probe):
    if not probe:
        stmts = [clone(s_) for s_ in stmts]
    top_stores = {}
    for i, s_ in enumerate(stmts):
        if isinstance(s_, ast.Assign) and len(s_.targets) == 1 and isinstance(s_.targets[0], ast.Name):
            top_stores.setdefault(s_.targets[0].id, []).append(i)
        elif isinstance(s_, ast.AugAssign) and isinstance(s_.target, ast.Name):
            top_stores.setdefault(s_.target.id, []).append(i)
        elif isinstance(s_, ast.Expr) and isinstance(s_.value, ast.Call):
            out = [k for k in s_.value.keywords if k.arg == 'out']
            if out and isinstance(out[0].value, ast.Name) and s_.value.args and U(s_.value.args[0]) == out[0].value.id:
                top_stores.setdefault(out[0].value.id, []).append(i)
    all_stores = {}
    for s_ in stmts:
        for n in ast.walk(s_):
            if isinstance(n, ast.Name) and isinstance(n.ctx, (ast.Store, ast.Del)):
                all_stores[n.id] = all_stores.get(n.id, 0) + 1
    captured = {n.id for s_ in stmts for f in ast.walk(s_) if isinstance(f, (ast.Lambda, ast.FunctionDef)) for n in ast.walk(f) if isinstance(n, ast.Name)}
    todo = {}
    for nm, idx in top_stores.items():
        n_aug_out = sum(1 for i in idx if not isinstance(stmts[i], ast.Assign))
        if len(idx) < 2 or nm in params or nm in captured or all_stores.get(nm, 0) != len(idx) - sum(1 for i in idx if isinstance(stmts[i], ast.Expr)):
            continue
        todo[nm] = idx
    # only chains that contain an in-place step need the value-level view (plain re-assignments are handled by the engines themselves)
    todo = {nm: idx for nm, idx in todo.items() if any(not isinstance(stmts[i], ast.Assign) for i in idx)}
    if not todo:
        return stmts
    if probe:
        return _ssa(stmts, params, probe=False)         # something to do: work on a copy (the statements of the function stay as they are)
    cur = {}        # name -> current version name

    def rename_loads(node):
        for n in ast.walk(node):
            if isinstance(n, ast.Name) and isinstance(n.ctx, ast.Load) and n.id in cur:
                n.id = cur[n.id]
    out_stmts = []
    for i, s_ in enumerate(stmts):
        hit = [nm for nm, idx in todo.items() if i in idx]
        if not hit:
            rename_loads(s_)
            out_stmts.append(s_)
            continue
        nm = hit[0]
        k = todo[nm].index(i)
        new = nm if k == len(todo[nm]) - 1 else '%s__v%d' % (nm, k + 1)
        if isinstance(s_, ast.Assign):
            rename_loads(s_.value)
            s_.targets[0].id = new
            ns = s_
        elif isinstance(s_, ast.AugAssign):
            rename_loads(s_.value)
            left = ast.Name(id=cur.get(nm, nm), ctx=ast.Load())
            ns = ast.copy_location(ast.Assign(targets=[ast.Name(id=new, ctx=ast.Store())], value=ast.BinOp(left=left, op=s_.op, right=s_.value)), s_)
        else:
            call = s_.value
            rename_loads(call)
            call.keywords = [k_ for k_ in call.keywords if k_.arg != 'out']
            ns = ast.copy_location(ast.Assign(targets=[ast.Name(id=new, ctx=ast.Store())], value=call), s_)
        cur[nm] = new
        out_stmts.append(ns)
    # in-place calls used as values: np.f(x, out=x) denotes np.f(x)
    for s_ in out_stmts:
        for c in ast.walk(s_):
            if isinstance(c, ast.Call) and c.args and any(k_.arg == 'out' and U(k_.value) == U(c.args[0]) for k_ in c.keywords):
                c.keywords = [k_ for k_ in c.keywords if k_.arg != 'out']
    for s_ in out_stmts:
        ast.fix_missing_locations(s_)
    return out_stmts


def normalised_keeping(repo, fi, names):
    """normal form of fi in which calls of the module-level helpers `names` stay calls (not cached)"""
    nz = Normaliser(repo, fi)
    nz.keep_calls = set(names)
    node = nz.run()
    return NormFunc(fi, node, nz.inlined, nz.memo_issues)


def write_inventory(repo, files):
    inv = {}
    for rel in files:
        if repo.exists(rel):
            inv[rel] = sorted(repo.module(rel).funcs)
    with open(INVENTORY, 'w') as f:
        json.dump(inv, f, indent=1)
    return inv

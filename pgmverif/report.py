"""Obligation bookkeeping, verdict lines, evidence and replay files."""
import ast
import json
import os
import time

from .srcmodel import AnalysisError, FuncInfo, U, header

VERIF_ROOT = os.path.dirname(os.path.dirname(os.path.abspath(__file__)))
KNOWN_FILE = os.path.join(VERIF_ROOT, 'known_findings.json')


def squash(text):
    return ' '.join(text.split())


class Obligation:
    __slots__ = ('rule', 'file', 'function', 'line', 'construct', 'ok', 'detail', 'known')

    def __init__(self, rule, file, function, line, construct, ok, detail):
        self.rule, self.file, self.function, self.line = rule, file, function, line
        self.construct, self.ok, self.detail = squash(construct), bool(ok), detail
        self.known = None

    def key(self):
        return (self.rule, self.file, self.function, self.construct)

    def as_dict(self):
        return {'rule': self.rule, 'file': self.file, 'function': self.function, 'line': self.line,
                'construct': self.construct, 'verdict': 'ok' if self.ok else 'violation',
                'detail': self.detail}


class Ctx:
    """Everything one property check accumulates."""

    def __init__(self, prop, repo, tier='quick'):
        self.prop = prop
        self.repo = repo
        self.tier = tier
        self.obligations = []
        self.notes = []
        self.assumptions = []
        self.functions = set()
        self.counters = {}
        self.floors = []
        self.explanation = ''
        self.rule_text = ''
        self.trusted = []

    # --- recording ---------------------------------------------------------
    def analysed(self, fi):
        self.functions.add('%s:%s' % (fi.rel, fi.qualname))

    def ob(self, rule, where, node, ok, detail='', construct=None):
        """Record one discharged / failed obligation.
        where: FuncInfo or (file, function)."""
        if isinstance(where, FuncInfo):
            self.analysed(where)
            file, function = where.rel, where.qualname
        else:
            file, function = where
        if construct is None:
            construct = header(node) if isinstance(node, ast.AST) else str(node)
        line = getattr(node, 'lineno', 0) if isinstance(node, ast.AST) else 0
        o = Obligation(rule, file, function, line, construct, ok, detail)
        self.obligations.append(o)
        return o

    def note(self, text):
        self.notes.append(text)

    def assume(self, text):
        if text not in self.assumptions:
            self.assumptions.append(text)

    def count(self, name, n=1):
        self.counters[name] = self.counters.get(name, 0) + n

    def floor(self, name, have, need):
        """Instance-count floor: below it the run is an analysis error."""
        self.floors.append({'name': name, 'have': have, 'need': need})
        if have < need:
            raise AnalysisError('floor not met: %s: %d < %d (a rule matching too few sites passes vacuously)'
                                % (name, have, need))

    # --- finishing ------------------------------------------------------------
    def violations(self):
        return [o for o in self.obligations if not o.ok]


def load_known():
    if not os.path.isfile(KNOWN_FILE):
        return []
    with open(KNOWN_FILE) as f:
        return json.load(f).get('findings', [])


def expanded_construct(repo, file, function, construct):
    """the construct with every single-assignment local of its function replaced by its definition (and an assignment's own target by
    `_`): the same text whatever the locals are called.  None when the construct is not an expression / simple statement."""
    try:
        from .normalise import Defs, expand
        tree = ast.parse(construct)
        if len(tree.body) != 1:
            return None
        fi = repo.func(file, function)
        defs = Defs(fi.body)
        st = tree.body[0]
        stored = {n.id for n in ast.walk(fi.node) if isinstance(n, ast.Name) and isinstance(n.ctx, ast.Store)} - set(fi.params)

        def canon(e):
            e = expand(e, defs, depth=8, comps=True)
            order = {}
            for n in ast.walk(e):          # remaining locals (assigned more than once): numbered by first appearance
                if isinstance(n, ast.Name) and n.id in stored:
                    n.id = order.setdefault(n.id, '$%d' % (len(order) + 1))
            return U(e)
        if isinstance(st, ast.Expr):
            return squash(canon(st.value))
        if isinstance(st, (ast.Assign, ast.AugAssign)):
            tg = st.targets[0] if isinstance(st, ast.Assign) else st.target
            t_ = '_' if isinstance(tg, ast.Name) else U(tg)
            return squash('%s %s %s' % (t_, '=' if isinstance(st, ast.Assign) else 'op=', canon(st.value)))
    except Exception:
        return None
    return None


def match_known(prop, o, known, repo=None):
    for k in known:
        if k.get('status') != 'known' or k.get('property') != prop:
            continue
        if k.get('rule') == o.rule and k.get('function') == o.function:
            if squash(k.get('construct', '')) == o.construct:
                return k
            # the same construct after the locals were renamed: compared with every local replaced by its definition
            if repo is not None and k.get('construct_expanded'):
                if expanded_construct(repo, o.file, o.function, o.construct) == squash(k['construct_expanded']):
                    return k
    return None


def safe_print(*a):
    try:
        print(*a)
    except BrokenPipeError:
        pass


def finish(ctx, t0, seed=0, out=safe_print):
    """Print verdict lines, write evidence (+ replay on violation); return exit code."""
    known = load_known()
    viol = ctx.violations()
    new = []
    for o in viol:
        k = match_known(ctx.prop, o, known, ctx.repo)
        if k is not None:
            o.known = k
            out('KNOWN-FINDING: property=%s rule=%s %s:%s `%s` -- %s'
                % (ctx.prop, o.rule, o.file, o.function, o.construct, k.get('what_fails', '')))
        else:
            new.append(o)
    replay_paths = []
    if new:
        os.makedirs(os.path.join(VERIF_ROOT, 'replay'), exist_ok=True)
        for i, o in enumerate(new):
            path = os.path.join(VERIF_ROOT, 'replay', '%s-%d.json' % (ctx.prop, i))
            with open(path, 'w') as f:
                json.dump({'property': ctx.prop, 'finding': o.as_dict(),
                           'how_to_reproduce': './check %s --tier %s' % (ctx.prop, ctx.tier)}, f, indent=1)
            replay_paths.append(path)
            out('%s:%d: [%s/%s] in %s: `%s` -- %s' % (o.file, o.line, ctx.prop, o.rule, o.function,
                                                      o.construct, o.detail))
            out('VIOLATION property=%s replay=%s' % (ctx.prop, path))
    write_evidence(ctx, t0, seed, len(new))
    n_ok = sum(1 for o in ctx.obligations if o.ok)
    out('%s: %d obligations, %d discharged, %d known finding(s), %d new violation(s); %d functions analysed'
        % (ctx.prop, len(ctx.obligations), n_ok, len(viol) - len(new), len(new), len(ctx.functions)))
    return 1 if new else 0


def write_evidence(ctx, t0, seed, n_new):
    if os.environ.get('VERIF_NO_EVIDENCE'):
        return          # matrix tools analysing patched scratch copies: the evidence files describe /repo only
    obs = ctx.obligations
    distinct = {o.key() for o in obs}
    by_rule = {}
    for o in obs:
        r = by_rule.setdefault(o.rule, {'obligations': 0, 'discharged': 0})
        r['obligations'] += 1
        r['discharged'] += int(o.ok)
    # samples: every violation, plus up to 3 per rule of the discharged ones
    samples, per_rule = [], {}
    for o in obs:
        if not o.ok:
            d = o.as_dict()
            if o.known is not None:
                d['known_finding'] = o.known.get('id', True)
            samples.append(d)
    for o in obs:
        if o.ok and per_rule.get(o.rule, 0) < 3:
            per_rule[o.rule] = per_rule.get(o.rule, 0) + 1
            samples.append(o.as_dict())
    ev = {
        'property_id': ctx.prop,
        'tier': ctx.tier,
        'seed': int(seed),
        'level': 'other',
        'coverage': {
            'explanation': ctx.explanation,
            'rule': ctx.rule_text,
            'obligations': len(obs),
            'discharged': sum(1 for o in obs if o.ok),
            'evaluations': max(1, len(obs)),
            'distinct_nontrivial': len(distinct),
            'known_findings': sum(1 for o in obs if o.known is not None),
            'per_rule': by_rule,
            'samples': samples,
            'functions_analysed': sorted(ctx.functions),
            'counters': ctx.counters,
            'floors': ctx.floors,
            'notes': ctx.notes,
            'checker_cmd': './check %s --tier %s' % (ctx.prop, ctx.tier),
            'trusted_base': ctx.trusted,
            'exhaustive': True,
        },
        'assumptions': ctx.assumptions,
        'wall_s': round(time.time() - t0, 3),
        'violations': n_new,
    }
    os.makedirs(os.path.join(VERIF_ROOT, 'evidence'), exist_ok=True)
    with open(os.path.join(VERIF_ROOT, 'evidence', ctx.prop + '.json'), 'w') as f:
        json.dump(ev, f, indent=1, sort_keys=False)
        f.write('\n')

"""C01 - exact inference (structural clauses of belief propagation).

  exp-normalised / returned-normalised-to-total
                      the only exponentiation on the BP path acts on beliefs shifted by log(total) - logZ with logZ the full
                      logsumexp of a calibrated belief; every returned table is such an exponential (stays finite for potentials far
                      outside the range of exp, sums to the total)
  lse-primitive       log-sum-exp reductions use scipy's -inf-safe primitive or a sanitised shift (an all -inf slice gives -inf, not NaN)
  bp-on-copies        BP mutates only fresh copies of the caller's potentials (E2, restricted to belief_propagation)
  bp-equations        message(i->j) = logsumexp over (clique i minus separator) of [belief_i - message(j->i) if already sent];
                      belief_j += message(i->j);  the division goes through Factor.__sub__ (infinity aware), never through raw arrays
  inf-guard           Factor.__sub__ selects on infinities of the subtrahend
  elimination-fill-in when the triangulation eliminates a node, its neighbours are pairwise connected *in the working graph* before
                      the node is removed (later eliminations must see earlier fill-in edges)
  tree-connected      the clique graph handed to the spanning-tree routine links EVERY pair of maximal cliques (also attribute-disjoint
                      ones): BP normalises all beliefs by the logZ of one clique, which is only valid on a connected tree
  tree-state-unchanged
                      every in-place operation in the junction tree's search / construction methods acts on containers of the call, never
                      (through any alias) on containers stored on the object: the greedy search runs repeatedly on one object
Not decided: equality with brute-force marginals; independence of the elimination / message order; validity of the junction tree
for all graphs (C12, not applicable).
"""
import ast
import re

from . import _logrules as LR
from .C10 import check_inf_guard
from ..engines.alias import Scope
from ..srcmodel import AnalysisError, U, calls_in, walk_shallow, target_names

GM = 'src/mbi/graphical_model.py'
JT = 'src/mbi/junction_tree.py'


def run(ctx):
    repo = ctx.repo
    ctx.explanation = ('Log-space typestate (E3) and origin analysis (E2) restricted to GraphicalModel.belief_propagation, form rules '
                       'for the message equations and the infinity guard, an ordering rule on the elimination loop of the '
                       'triangulation. Exhaustive over the paths of these functions.')
    ctx.rule_text = 'one obligation per exp site / returned table / reduction primitive / mutation site in BP / message equation / elimination step'
    ctx.trusted = ['calibrated beliefs of all cliques share one logZ (the normaliser is taken from the first clique)',
                   'scipy.special.logsumexp; networkx graph primitives']
    bp = repo.nfunc(GM, 'GraphicalModel.belief_propagation')
    an, n = LR.L1(ctx, bp)
    ctx.floor('exp sites on the BP path', n, 1)
    k = LR.L2_container(ctx, bp, an, 'self.total')
    ctx.floor('returned-table constructions in BP', k, 1)
    # the normaliser must be a *full* logsumexp of a belief (after the message loop)
    LR.lse_primitive(ctx)
    check_copies(ctx, bp)
    check_equations(ctx, bp)
    check_inf_guard(ctx)
    check_fill_in(ctx)
    check_tree_connected(ctx)
    check_tree_state(ctx)


def check_tree_state(ctx):
    """The junction tree's search and construction methods are run many times on one object (an integer `elimination_order` runs the
    greedy search once per trial; maximal_cliques / mp_order / separator_axes are queried by every model): each works on containers of
    its own.  An in-place operation that reaches a container stored on the object (through any alias) changes what the next run sees."""
    scope = Scope(ctx.repo, [JT, 'src/mbi/domain.py'], {})
    scope.solve()
    n = 0
    seen = set()
    for (rel, q), summ in scope.summaries.items():
        if rel != JT or not q.startswith('JunctionTree.') or q == 'JunctionTree.__init__':
            continue
        fi = ctx.repo.nfunc(JT, q) if '<locals>' not in q else None
        if fi is None:
            continue
        for site in summ.sites:
            k = (q, getattr(site.node, 'lineno', 0), getattr(site.node, 'col_offset', 0), site.what)
            if k in seen:
                continue
            seen.add(k)
            n += 1
            bad = sorted(t for t in site.origins if t.startswith(('S:', 'P:', 'Pe:')) and not t.endswith(':self'))
            # memo tables on the object are bookkeeping, judged on their own by the memo engine (memo-key)
            from ..engines import memo as _memo
            info_ = _memo.ClassInfo(ctx.repo, fi.module, 'JunctionTree')
            bad = [t for t in bad if not (t.startswith('S:') and (_memo.is_table(info_, t[2:]) or t[2:].endswith('_stamp')))]
            ctx.ob('tree-state-unchanged', fi, site.node, not bad,
                   '%s acts on %s' % (site.what, 'containers of this call' if not bad else
                                      'state of the junction tree (%s): the next run of the search on the same object starts from the modified '
                                      'container' % ', '.join(bad)))
    ctx.floor('in-place sites in the junction-tree methods', n, 8)


def check_copies(ctx, bp):
    scope = Scope(ctx.repo, ['src/mbi/graphical_model.py', 'src/mbi/clique_vector.py', 'src/mbi/factor.py', 'src/mbi/domain.py'],
                  {'potentials': 'cv', 'marginals': 'cv'})
    scope.solve()
    s = scope.summaries[(GM, bp.qualname)]
    n = 0
    seen = set()
    for site in s.sites:
        k = (getattr(site.node, 'lineno', 0), getattr(site.node, 'col_offset', 0), site.what)
        if k in seen:
            continue
        seen.add(k)
        n += 1
        bad = sorted(t for t in site.origins if t not in ('F',) and not t.endswith(':self'))
        # working storage kept on the model (a private attribute that is neither the potentials nor the marginal cache): writing into it is
        # this method's own business as long as it never leaves the method - the return is checked for that below
        bad = [t for t in bad if not (t.startswith('S:_') and t[2:] not in ('potentials', 'marginals'))]
        ctx.ob('bp-on-copies', bp, site.node, not bad,
               '%s acts on %s' % (site.what, 'objects allocated in this call' if not bad else
                                  'the caller\'s potentials (%s): the parameters handed in are modified' % ', '.join(bad)))
    ctx.floor('in-place sites in BP', n, 3)
    pot = bp.params[1]
    # returned value must not alias the input either
    # (the tables inside the returned vector are judged as MAY-aliases by the origin analysis, which does not see that the final
    # normalisation loop replaces every one of them; a definite alias - no freshly built table among them - is reported)
    caller = {'P:' + pot, 'Pe:' + pot}
    ok = not (caller & set(s.ret.own)) and not (set(s.ret.elem) and set(s.ret.elem) <= caller)
    ctx.ob('bp-on-copies', bp, bp.node, ok, 'the returned marginals do not alias the caller\'s potentials', construct='return of belief_propagation')
    kept = sorted(t for t in (set(s.ret.own) | set(s.ret.elem)) if t.startswith('S:_'))
    ctx.ob('bp-on-copies', bp, bp.node, not kept,
           'the returned marginals are tables of their own%s' % ('' if not kept else
           ': they are (views of) working storage kept on the model (%s), which the next call of belief_propagation overwrites - the marginals '
           'returned by this call change with it' % ', '.join(kept)), construct='ownership of the returned marginals')


class BPTerms:
    """symbolic terms for the message loop: keys, beliefs, messages, separators (value-based, so renames / temporaries /
    conditional expressions / hoisting do not matter)"""

    def __init__(self, beliefs='beliefs', messages='messages'):
        self.B, self.M = beliefs, messages          # the locals that hold the beliefs / the messages (found by role, not by name)
        self.env = {}
        self.stores = []      # (stmt, key term, value term)
        self.absorbs = []     # (stmt, key term, value term)

    def term(self, e):
        if isinstance(e, ast.Name):
            return self.env.get(e.id, ('name', e.id))
        if isinstance(e, ast.Tuple) and len(e.elts) == 2:
            return ('key', self.term(e.elts[0]), self.term(e.elts[1]))
        if isinstance(e, ast.Subscript):
            base = U(e.value)
            k = self.term(e.slice)
            if base == self.B:
                return ('belief', k)
            if base == self.M:
                return ('msg', k)
            if base == 'self.sep_axes':
                return ('sepaxes', k)
            return ('index', base, k)
        if isinstance(e, ast.Attribute) and e.attr == 'domain':
            return ('dom', self.term(e.value))
        if isinstance(e, ast.Call) and isinstance(e.func, ast.Attribute):
            m = e.func.attr
            recv = self.term(e.func.value)
            if m == 'invert' and len(e.args) == 1:
                return ('invert', recv, self.term(e.args[0]))
            if m == 'logsumexp':
                if not e.args and not e.keywords:
                    return ('lse', recv, None)
                return ('lse', recv, ('over', self.term(e.args[0])))
            if m == 'project' and e.args and any(k.arg == 'agg' and isinstance(k.value, ast.Constant) and k.value.value == 'logsumexp'
                                                  for k in e.keywords):
                return ('lse', recv, ('onto', self.term(e.args[0])))
        if isinstance(e, ast.Call) and isinstance(e.func, ast.Name) and e.func.id in ('list', 'tuple') and len(e.args) == 1:
            return self.term(e.args[0])
        if isinstance(e, (ast.ListComp, ast.GeneratorExp)) and len(e.generators) == 1 and len(e.generators[0].ifs) == 1 \
                and isinstance(e.generators[0].target, ast.Name) and U(e.elt) == e.generators[0].target.id:
            # [a for a in i if a not in S]: the attributes of clique i (= the domain of beliefs[i]) outside S
            g = e.generators[0]
            t = g.ifs[0]
            neg = False
            if isinstance(t, ast.UnaryOp) and isinstance(t.op, ast.Not):
                t, neg = t.operand, True
            if isinstance(t, ast.Compare) and len(t.ops) == 1 and U(t.left) == g.target.id and isinstance(t.ops[0], (ast.In, ast.NotIn)):
                outside = isinstance(t.ops[0], ast.NotIn) != neg
                it = self.term(g.iter)
                if outside and it[0] == 'name':
                    return ('invert', ('dom', ('belief', it)), self.term(t.comparators[0]))
        if isinstance(e, ast.BinOp) and isinstance(e.op, ast.Sub):
            return ('sub', self.term(e.left), self.term(e.right))
        if isinstance(e, ast.IfExp):
            return self.cond(self.test(e.test), self.term(e.body), self.term(e.orelse))
        return ('expr', U(e))

    def test(self, t):
        if isinstance(t, ast.Compare) and len(t.ops) == 1 and U(t.comparators[0]) == self.M:
            k = self.term(t.left)
            return ('has', k) if isinstance(t.ops[0], ast.In) else ('hasnot', k) if isinstance(t.ops[0], ast.NotIn) else ('test', U(t))
        if isinstance(t, ast.UnaryOp) and isinstance(t.op, ast.Not):
            r = self.test(t.operand)
            return ('hasnot', r[1]) if r[0] == 'has' else ('has', r[1]) if r[0] == 'hasnot' else ('test', U(t))
        return ('test', U(t))

    @staticmethod
    def cond(test, a, b):
        if test[0] == 'hasnot':
            test, a, b = ('has', test[1]), b, a
        if a == b:
            return a
        return ('cond', test, a, b)

    def run(self, stmts):
        for s in stmts:
            if isinstance(s, ast.Assign) and len(s.targets) == 1:
                t = s.targets[0]
                v = self.term(s.value)
                if isinstance(t, ast.Name):
                    self.env[t.id] = v
                elif isinstance(t, ast.Subscript) and U(t.value) == self.M:
                    self.stores.append((s, self.term(t.slice), v))
                elif isinstance(t, ast.Subscript) and U(t.value) == self.B:
                    k = self.term(t.slice)
                    if isinstance(s.value, ast.BinOp) and isinstance(s.value.op, ast.Add) and self.term(s.value.left) == ('belief', k):
                        self.absorbs.append((s, k, self.term(s.value.right)))       # beliefs[k] = beliefs[k] + x  ==  beliefs[k] += x
                    elif isinstance(s.value, ast.BinOp) and isinstance(s.value.op, ast.Add) and self.term(s.value.right) == ('belief', k):
                        self.absorbs.append((s, k, self.term(s.value.left)))
                    else:
                        self.absorbs.append((s, k, ('assign', v)))
            elif isinstance(s, ast.AugAssign) and isinstance(s.target, ast.Subscript) and U(s.target.value) == self.B \
                    and isinstance(s.op, ast.Add):
                self.absorbs.append((s, self.term(s.target.slice), self.term(s.value)))
            elif isinstance(s, ast.If):
                t = self.test(s.test)
                saved = dict(self.env)
                self.run(s.body)
                a = self.env
                self.env = dict(saved)
                self.run(s.orelse)
                b = self.env
                merged = {}
                for k in set(a) | set(b):
                    if k in a and k in b:
                        merged[k] = self.cond(t, a[k], b[k])
                self.env = merged


def check_equations(ctx, bp):
    loops = [s for s in bp.body if isinstance(s, ast.For) and isinstance(s.target, ast.Tuple) and len(s.target.elts) == 2
             and U(s.iter) == 'self.message_order']
    if len(loops) != 1:
        raise AnalysisError('belief_propagation: message loop over self.message_order not found')
    loop = loops[0]
    i, j = [U(e) for e in loop.target.elts]
    I, J = ('name', i), ('name', j)
    KEY, REV = ('key', I, J), ('key', J, I)
    # roles: the container whose entry (i, j) is stored in the loop holds the messages; the one whose entry j absorbs holds the beliefs
    M_name = B_name = None
    for n in ast.walk(loop):
        if isinstance(n, ast.Assign) and len(n.targets) == 1 and isinstance(n.targets[0], ast.Subscript) and isinstance(n.targets[0].value, ast.Name):
            sl = n.targets[0].slice
            if isinstance(sl, ast.Tuple) and [U(e) for e in sl.elts] == [i, j]:
                M_name = n.targets[0].value.id
            elif U(sl) == j and B_name is None:
                B_name = n.targets[0].value.id
        if isinstance(n, ast.AugAssign) and isinstance(n.target, ast.Subscript) and isinstance(n.target.value, ast.Name) and U(n.target.slice) == j:
            B_name = n.target.value.id
    ex = BPTerms(B_name or 'beliefs', M_name or 'messages')
    ex.run(loop.body)
    raw = [n for n in ast.walk(loop) if isinstance(n, ast.Attribute) and n.attr == 'values']
    TAU = ('cond', ('has', REV), ('sub', ('belief', I), ('msg', REV)), ('belief', I))
    MSG = [('lse', TAU, ('over', ('invert', ('dom', ('belief', I)), ('sepaxes', KEY)))), ('lse', TAU, ('onto', ('sepaxes', KEY)))]
    st = [x for x in ex.stores if x[1] == KEY]
    where = st[0][0] if st else loop
    val = st[0][2] if st else None
    # the reverse message lives on the separator only (it was marginalised onto it), so dividing it out commutes with marginalising
    # over the rest of the clique:  lse_S(B - m) = lse_S(B) - m.  One normal form: the subtraction inside.
    if val is not None and val[0] == 'cond' and val[1] == ('has', REV) and val[3][0] == 'lse' and val[2] == ('sub', val[3], ('msg', REV)) \
            and val[3] in [('lse', ('belief', I), m_[2]) for m_ in MSG]:
        val = ('lse', ('cond', val[1], ('sub', val[3][1], ('msg', REV)), val[3][1]), val[3][2])
    tau_ok = val is not None and val[0] == 'lse' and val[1] == TAU
    ctx.ob('bp-equations', bp, where, tau_ok and not raw,
           'outgoing message must exclude what came from the receiver: it is computed from beliefs[%s] - messages[(%s, %s)] when that '
           'message exists (else beliefs[%s]), as a Factor subtraction (infinity aware)%s; source term: %s'
           % (i, j, i, i, '; raw .values arithmetic found' if raw else '', describe(val[1]) if val is not None and val[0] == 'lse' else describe(val)))
    ctx.ob('bp-equations', bp, where, val in MSG,
           'message(%s->%s) must be the logsumexp of that quantity over the attributes of clique %s outside the separator '
           '(beliefs[%s].domain.invert(self.sep_axes[(%s, %s)]), or projection onto the separator); source term: %s'
           % (i, j, i, i, i, j, describe(val)), construct='marginalisation in ' + (U(where)[:60] if st else 'message loop'))
    ab = [x for x in ex.absorbs if x[1] == J]
    ok_abs = len(ab) == 1 and (ab[0][2] in MSG or ab[0][2] == ('msg', KEY)) and len(ex.absorbs) == 1
    ctx.ob('bp-equations', bp, ab[0][0] if ab else (ex.absorbs[0][0] if ex.absorbs else loop), ok_abs,
           'the receiver absorbs the message: beliefs[%s] += message(%s->%s), and nothing else is absorbed' % (j, i, j))
    # every edge of the schedule carries its message: the store and the absorb happen on every pass (a branch is fine when both arms do it).
    # Also over an EMPTY separator - the scalar log-mass of the sending sub-tree: logZ is read off ONE clique and shared by all, so a component
    # that never received it is normalised with the wrong constant
    def is_store(n):
        return isinstance(n, ast.Assign) and len(n.targets) == 1 and isinstance(n.targets[0], ast.Subscript) and isinstance(n.targets[0].value, ast.Name) \
            and n.targets[0].value.id == (M_name or 'messages')

    def is_absorb(n):
        return isinstance(n, ast.AugAssign) and isinstance(n.target, ast.Subscript) and isinstance(n.target.value, ast.Name) and n.target.value.id == (B_name or 'beliefs') \
            and U(n.target.slice) == j
    for n in [x for x in ast.walk(loop) if is_store(x) or is_absorb(x)]:
        kind = is_store
        if is_absorb(n):
            kind = is_absorb
        cur = n
        while cur is not loop:
            par = getattr(cur, '_parent', None)
            if par is None:
                break
            if isinstance(par, ast.If):
                other = par.orelse if cur in par.body else par.body
                if not any(kind(y) for o in other for y in ast.walk(o)):
                    ctx.ob('bp-equations', bp, n, False,
                           'the message over an edge of the schedule is %s only when `%s%s`: on the other passes the receiver never gets the log-mass of the sending '
                           'sub-tree (for an empty separator: a scalar), and since one logZ is shared by all cliques its component is normalised with the wrong constant'
                           % ('stored' if kind is is_store else 'absorbed', '' if cur in par.body else 'not ', U(par.test)[:60]),
                           construct='message sent on every pass: `%s`' % U(n)[:50])
                    break
            cur = par
    # the normaliser is the full logsumexp of a clique belief, computed after the message loop
    after = bp.body[bp.body.index(loop) + 1:]
    ex2 = BPTerms(B_name or 'beliefs', M_name or 'messages')
    z = None
    for s in after:
        for n in ast.walk(s):
            if isinstance(n, ast.Call) and isinstance(n.func, ast.Attribute) and n.func.attr == 'logsumexp' and not n.args and not n.keywords:
                t = ex2.term(n)
                if t[0] == 'lse' and t[1][0] == 'belief':
                    z = n
    ctx.ob('bp-equations', bp, z if z is not None else bp.node, z is not None,
           'logZ must be the full logsumexp of a calibrated belief, taken after all messages were sent')
    # the logZ exit: what `belief_propagation(potentials, True)` hands back is that logsumexp ITSELF - the log partition function of the
    # potentials, which does not depend on self.total (krondot multiplies by self.total / exp(logZ) on its own)
    flag = bp.params[2] if len(bp.params) > 2 else None
    env = {}

    def subst(e):
        class S_(ast.NodeTransformer):
            def visit_Name(self, n):
                if isinstance(n.ctx, ast.Load) and n.id in env:
                    return clone(env[n.id])
                return n
        return S_().visit(clone(e))
    from ..srcmodel import clone
    n_exit = 0
    for s in after:
        if isinstance(s, ast.Assign) and len(s.targets) == 1 and isinstance(s.targets[0], ast.Name):
            env[s.targets[0].id] = subst(s.value)
        elif isinstance(s, ast.AugAssign) and isinstance(s.target, ast.Name) and s.target.id in env:
            env[s.target.id] = ast.BinOp(left=env[s.target.id], op=s.op, right=subst(s.value))
        elif isinstance(s, ast.If) and flag is not None and U(s.test) == flag and not s.orelse:
            for r in [x for x in s.body if isinstance(x, ast.Return) and x.value is not None]:
                v = subst(r.value)
                t = ex2.term(v) if isinstance(v, ast.Call) else None
                pure = isinstance(v, ast.Call) and isinstance(v.func, ast.Attribute) and v.func.attr == 'logsumexp' and not v.args and not v.keywords \
                    and t is not None and t[0] == 'lse' and t[1][0] == 'belief'
                has_lse = any(isinstance(n, ast.Call) and isinstance(n.func, ast.Attribute) and n.func.attr == 'logsumexp' for n in ast.walk(v))
                if not pure and not (has_lse and isinstance(v, (ast.BinOp, ast.UnaryOp))):
                    raise AnalysisError('belief_propagation: the value returned on the `%s` exit, `%s`, is in no recognised form' % (flag, U(v)[:80]))
                n_exit += 1
                ctx.ob('bp-equations', bp, r, pure,
                       'the `%s` exit returns the log partition function itself - the full logsumexp of a calibrated belief, nothing added or '
                       'subtracted (its caller krondot scales by self.total / exp(logZ) on its own); returns `%s`' % (flag, U(v)[:100]),
                       construct='value of the %s exit' % flag)
            break
        elif isinstance(s, (ast.For, ast.While, ast.If, ast.With, ast.Try)):
            break
    if flag is not None and not n_exit and any(isinstance(n, ast.Name) and n.id == flag and isinstance(n.ctx, ast.Load) for n in ast.walk(bp.node)):
        raise AnalysisError('belief_propagation: the `%s` exit was not found after the message loop' % flag)


def describe(t):
    if t is None:
        return 'none'
    if not isinstance(t, tuple):
        return str(t)
    k = t[0]
    if k == 'name':
        return t[1]
    if k == 'key':
        return '(%s, %s)' % (describe(t[1]), describe(t[2]))
    if k in ('belief', 'msg', 'sepaxes'):
        return {'belief': 'beliefs', 'msg': 'messages', 'sepaxes': 'sep_axes'}[k] + '[%s]' % describe(t[1])
    if k == 'sub':
        return '%s - %s' % (describe(t[1]), describe(t[2]))
    if k == 'cond':
        return '(%s if %s else %s)' % (describe(t[2]), describe(t[1]), describe(t[3]))
    if k == 'has':
        return '%s in messages' % describe(t[1])
    if k == 'lse':
        return 'logsumexp(%s%s)' % (describe(t[1]), '' if t[2] is None else ', %s %s' % (t[2][0], describe(t[2][1])))
    if k == 'invert':
        return '%s.invert(%s)' % (describe(t[1]), describe(t[2]))
    if k == 'dom':
        return describe(t[1]) + '.domain'
    return str(t[1]) if len(t) > 1 else k


def check_fill_in(ctx):
    """elimination game on ONE working graph: the neighbours of the eliminated node are read from the graph that receives the
    fill-in edges, and the node then leaves the game (removed from the graph, or recorded in a set the neighbour query filters by).
    Stated on the expanded loop body (engines/blockeval.py)."""
    from ..engines.builders import Builder, method_calls, strip_wrappers
    from ..engines.blockeval import BlockEval, T
    from ..normalise import single_exit
    from ..srcmodel import clone
    fi = ctx.repo.nfunc(JT, 'JunctionTree._triangulated')
    ctx.analysed(fi)
    order = fi.params[1]
    stmts, _ = single_exit(clone(fi.body), '__ret__')
    be = BlockEval(fi.qualname, loop_ok=lambda s_: True)
    be.run(stmts)
    loops = [l for l in be.loops_done if isinstance(l[0], ast.For) and isinstance(l[0].target, ast.Name)]
    if len(loops) != 1:
        raise AnalysisError('_triangulated: elimination loop not found')
    loop, entry, body_env, pc = loops[0]
    node = loop.target.id
    # a sweep that only runs under a condition: skipping it must leave the graph triangulated BY THE GIVEN ORDER (the order is stored and
    # used again, e.g. to factorise the model when records are generated), which chordality alone does not give
    for cond, pol in pc:
        names_ = {U(c.func).split('.')[-1] for c in ast.walk(cond) if isinstance(c, ast.Call)}
        text = U(cond)
        if 'is_chordal' in names_:
            ctx.ob('elimination-fill-in', fi, loop, False,
                   'the elimination sweep is skipped when the graph is chordal (`%s`): a chordal graph has SOME order without fill-in, not '
                   'necessarily the given `%s` - the returned graph is then not the triangulation produced by the stored elimination order'
                   % (U(cond), order), construct='condition of the elimination sweep')
            continue
        # every connected component complete (a vertex of a component c has degree len(c) - 1): no order adds an edge
        m = re.fullmatch(r"any\(\((\w+)\.degree\((\w+)\) != len\((\w+)\) - 1 for \3 in (?:nx|networkx)\.connected_components\(\1\) for \2 in \3\)\)", text)
        if m and pol:
            ctx.ob('elimination-fill-in', fi, loop, True, 'the sweep is only skipped when every connected component is complete (no order adds '
                   'an edge then): `%s`' % U(cond), construct='condition of the elimination sweep')
            continue
        raise AnalysisError('_triangulated: the elimination sweep only runs under `%s%s`; whether skipping it leaves the triangulation of the '
                            'given order is not decided' % ('' if pol else 'not ', U(cond)[:100]))
    ctx.ob('elimination-fill-in', fi, loop, T(loop.iter) == order, 'nodes are eliminated in the given order `%s`' % order,
           construct='elimination order')
    adds = [(s_, c) for s_, c, pc_, lp in be.calls if lp and isinstance(c.func, ast.Attribute) and c.func.attr == 'add_edges_from' and c.args]
    if not adds:
        queried = [x for v in list(body_env.values()) + [c for s_, c, pc_, lp in be.calls if lp] for x in ast.walk(v)
                   if isinstance(x, ast.Call) and isinstance(x.func, ast.Attribute) and x.func.attr == 'neighbors']
        if queried:
            ctx.ob('elimination-fill-in', fi, loop, False,
                   'eliminating `%s`: the pairs of its neighbours are computed but never added to a graph inside the loop, so later '
                   'eliminations do not see earlier fill-in edges' % node, construct='working graph of the elimination')
            return
    direct_tri = None
    if len(adds) == 2:
        # the fill-in of a node goes into BOTH graphs inside the loop: the working graph (whose neighbourhoods later eliminations read) and the
        # triangulated graph that is returned.  One collection feeds two consumers, so it must be re-iterable
        src_loop = next((l_ for l_ in ast.walk(fi.node) if isinstance(l_, ast.For) and isinstance(l_.target, ast.Name) and l_.target.id == node), None)
        raw_calls = [c for c in ast.walk(src_loop) if isinstance(c, ast.Call) and isinstance(c.func, ast.Attribute) and c.func.attr == 'add_edges_from'] if src_loop else []
        names_ = {U(c.args[0]) for c in raw_calls if c.args and isinstance(c.args[0], ast.Name)}
        if len(raw_calls) == 2 and len(names_) == 1:
            F_ = names_.pop()
            fdefs = [a.value for a in ast.walk(src_loop) if isinstance(a, ast.Assign) and len(a.targets) == 1 and U(a.targets[0]) == F_]
            if len(fdefs) == 1:
                reiter = isinstance(fdefs[0], ast.Call) and U(fdefs[0].func) in ('list', 'set', 'tuple', 'sorted', 'frozenset')
                if not reiter and isinstance(fdefs[0], ast.Call) and U(fdefs[0].func).endswith('combinations'):
                    first, second = raw_calls
                    ctx.ob('elimination-fill-in', fi, second, False,
                           '`%s = %s` is a one-shot iterator handed to two graphs: `%s` consumes it, `%s` receives nothing - %s'
                           % (F_, U(fdefs[0])[:60], U(first.func.value), U(second.func.value),
                              'the working graph never gets the fill-in, later eliminations do not see it' if True else ''),
                           construct='fill-in shared by two graphs')
                    return
                if reiter:
                    nbg = {U(n_.func.value) for n_ in ast.walk(fdefs[0]) if isinstance(n_, ast.Call) and isinstance(n_.func, ast.Attribute) and n_.func.attr == 'neighbors'}
                    work = [(s_, c) for s_, c in adds if U(c.func.value) in nbg]
                    other = [(s_, c) for s_, c in adds if U(c.func.value) not in nbg]
                    if len(work) == 1 and len(other) == 1:
                        adds = work
                        direct_tri = U(other[0][1].func.value)
    if len(adds) != 1:
        raise AnalysisError('_triangulated: expected one add_edges_from inside the elimination loop, found %d' % len(adds))
    add_stmt, add = adds[0]
    Y = U(add.func.value)
    pairs = strip_wrappers(add.args[0])
    pairs_ok = isinstance(pairs, ast.Call) and U(pairs.func).endswith('combinations') and len(pairs.args) == 2 and T(pairs.args[1]) == '2'
    X = elim = None
    nb_ok = False
    if pairs_ok:
        nb = strip_wrappers(pairs.args[0])
        b = Builder.of_comprehension(nb)
        src = nb
        if b is not None and len(b.gens) == 1 and isinstance(b.gens[0][0], ast.Name) and T(b.elt) == b.gens[0][0].id:
            src = strip_wrappers(b.gens[0][1])
            v = b.gens[0][0].id
            if len(b.conds) == 1 and isinstance(b.conds[0], ast.Compare) and isinstance(b.conds[0].ops[0], ast.NotIn) \
                    and T(b.conds[0].left) == v:
                elim = T(b.conds[0].comparators[0])
            elif b.conds:
                src = None
        if isinstance(src, ast.Call) and isinstance(src.func, ast.Attribute) and src.func.attr == 'neighbors' and len(src.args) == 1 \
                and T(src.args[0]) == node:
            X = U(src.func.value)
            nb_ok = True
    if not (pairs_ok and nb_ok):
        raise AnalysisError('_triangulated: the fill-in edges are not combinations(<neighbours of the eliminated node>, 2): `%s`' % U(add)[:100])
    ctx.ob('elimination-fill-in', fi, add_stmt, X == Y,
           'eliminating `%s`: its neighbours must be read from the working graph that receives the fill-in edges (later eliminations '
           'must see earlier fill-in); neighbours come from `%s`, edges go to `%s`' % (node, X, Y), construct='working graph of the elimination')
    check_sweep_exits(ctx, fi, loop, node, X, add)
    removed = [1 for s_, c, pc_, lp in be.calls if lp and isinstance(c.func, ast.Attribute) and c.func.attr == 'remove_node'
               and U(c.func.value) == X and T(c.args[0]) == node]
    recorded = [1 for s_, c, pc_, lp in be.calls if lp and isinstance(c.func, ast.Attribute) and c.func.attr == 'add'
                and elim is not None and U(c.func.value) == elim and T(c.args[0]) == node]
    init_elim = be.inits.get(elim) if elim else None
    leaves = bool(removed) or (bool(recorded) and init_elim is not None and T(init_elim) in ('set()', '[]'))
    # order: add before remove
    idx = {id(s_): i for i, (s_, c, pc_, lp) in enumerate(be.calls)}
    if removed:
        i_add = [i for i, (s_, c, pc_, lp) in enumerate(be.calls) if c is add][0]
        i_rm = [i for i, (s_, c, pc_, lp) in enumerate(be.calls) if lp and isinstance(c.func, ast.Attribute) and c.func.attr == 'remove_node'][0]
        leaves = leaves and i_add < i_rm
    ctx.ob('elimination-fill-in', fi, add_stmt, leaves,
           'after its neighbours are connected the node must leave the game: removed from `%s` (after the edges are added) or recorded in the '
           'set the neighbour query filters by' % X, construct='eliminated node leaves the working graph')
    init = be.inits.get(X) or entry.get(X)
    ok = init is not None and T(init) in ('nx.Graph(self.graph)', 'self.graph.copy()', 'networkx.Graph(self.graph)')
    ctx.ob('elimination-fill-in', fi, fi.node, ok, 'the working graph must be a copy of the model graph (the original is needed afterwards); '
           'it starts as `%s`' % (U(init) if init is not None else None), construct='working graph is a copy')
    # the triangulated graph that is returned: model edges + every fill-in edge
    R = be.env.get('__ret__')
    tri = None
    if isinstance(R, ast.Tuple) and R.elts:
        tri = U(R.elts[0])
    elif R is not None:
        tri = U(R)
    if tri is None:
        raise AnalysisError('_triangulated: result not found')
    if tri == X:
        ok = not removed          # the working graph itself is returned: nothing may have been removed from it
        how = 'the working graph itself (nodes are skipped, not removed)'
    else:
        t_init = be.inits.get(tri) or be.env.get(tri)
        fills = [c for s_, c, pc_, lp in be.calls if not lp and isinstance(c.func, ast.Attribute) and c.func.attr == 'add_edges_from'
                 and U(c.func.value) == tri]
        acc_ok = False
        for c in fills:
            a0 = c.args[0]
            if isinstance(a0, ast.Name):
                # accumulated in the loop from the same pairs
                grown_ = [e for e in be.events if e.name == a0.id] + \
                         [1 for s_, c2, pc_, lp in be.calls if lp and isinstance(c2.func, ast.Attribute) and c2.func.attr in ('update',)
                          and U(c2.func.value) == a0.id and T(strip_wrappers(c2.args[0])) == T(pairs)]
                aug = T(body_env.get(a0.id)) in ('%s|%s' % (a0.id, T(add.args[0])), '%s|%s' % (a0.id, T(pairs)), '%s|set(%s)' % (a0.id, T(pairs)))
                acc_ok = acc_ok or bool(grown_) or aug
        if direct_tri is not None and direct_tri == tri:
            acc_ok = True          # every node's fill-in is added to the returned graph inside the loop
        ok = t_init is not None and T(t_init) in ('nx.Graph(self.graph)', 'self.graph.copy()') and acc_ok
        how = '`%s`, a copy of the model graph plus the accumulated fill-in edges' % tri
    ctx.ob('elimination-fill-in', fi, fi.node, ok, 'the triangulated graph returned must contain the model graph and every fill-in edge; returns %s' % how,
           construct='triangulated graph')


def check_sweep_exits(ctx, fi, loop, node, X, add):
    """Leaving the elimination sweep early.  Known to be sound: the node about to be eliminated is adjacent to every other node left in the
    working graph (degree == number of nodes - 1) AND its step is carried out (neighbours connected, node removed) - the rest is then
    complete and no later elimination adds an edge.  The same test BEFORE the step proves nothing: the neighbours are not yet connected,
    and the fill-in of this node and of every later one is lost."""
    def top_index(n):
        for i, s_ in enumerate(loop.body):
            if n is s_ or any(x is n for x in ast.walk(s_)):
                return i
        return None
    i_add = top_index(add)
    if i_add is None:
        # the call was taken from the expanded body: find the statement of the loop that makes it
        hits = [i for i, s_ in enumerate(loop.body) for c in ast.walk(s_) if isinstance(c, ast.Call) and isinstance(c.func, ast.Attribute)
                and c.func.attr == 'add_edges_from' and U(c.func.value) == U(add.func.value)]
        i_add = hits[0] if hits else None
    exits = []

    def scan(stmts, guards):
        for s_ in stmts:
            if isinstance(s_, (ast.Break, ast.Continue, ast.Return)):
                exits.append((s_, list(guards)))
            elif isinstance(s_, ast.If):
                scan(s_.body, guards + [(s_.test, True)])
                scan(s_.orelse, guards + [(s_.test, False)])
            elif isinstance(s_, (ast.With, ast.Try)):
                scan(s_.body, guards)
    scan(loop.body, [])
    if not exits:
        return
    defs = {}
    for s_ in loop.body:
        if isinstance(s_, ast.Assign) and len(s_.targets) == 1 and isinstance(s_.targets[0], ast.Name):
            defs.setdefault(s_.targets[0].id, []).append((top_index(s_), s_.value))
    universal = ('%s.degree(%s)==%s.number_of_nodes()-1' % (X, node, X), '%s.degree(%s)==len(%s)-1' % (X, node, X),
                 '%s.degree[%s]==len(%s)-1' % (X, node, X), '%s.degree[%s]==%s.number_of_nodes()-1' % (X, node, X),
                 'len(list(%s.neighbors(%s)))==len(%s)-1' % (X, node, X), 'len(%s[%s])==len(%s)-1' % (X, node, X))
    from ..srcmodel import canon_compare
    for ex, guards in exits:
        i_ex = top_index(ex)
        if len(guards) != 1 or not guards[0][1]:
            raise AnalysisError('_triangulated: early exit of the elimination sweep under `%s` is not decided' % ' and '.join(U(g) for g, _ in guards)[:100])
        g = guards[0][0]
        where_eval = i_ex
        if isinstance(g, ast.Name) and len(defs.get(g.id, [])) == 1:
            where_eval, g = defs[g.id][0]
        gt = U(canon_compare(g)).replace(' ', '')
        if gt not in universal and U(g).replace(' ', '') not in universal:
            raise AnalysisError('_triangulated: early exit of the elimination sweep under `%s` is not decided' % U(g)[:100])
        after_step = i_add is not None and i_ex is not None and i_ex > i_add
        tested_before_step = where_eval is not None and i_add is not None and where_eval <= i_add
        removed_before_exit = any(isinstance(c, ast.Call) and isinstance(c.func, ast.Attribute) and c.func.attr == 'remove_node' and U(c.func.value) == X
                                  for s_ in loop.body[:i_ex] for c in ast.walk(s_))
        if isinstance(ex, ast.Continue):
            raise AnalysisError('_triangulated: `continue` in the elimination sweep is not decided')
        ok = after_step and tested_before_step
        ctx.ob('elimination-fill-in', fi, ex, ok,
               'the sweep stops once the eliminated node is adjacent to all remaining nodes (`%s`): sound only AFTER this node\'s own step (its '
               'neighbours connected - the rest is then complete); here the exit comes %s' % (U(g)[:70], 'after the step' if ok else
               'before the neighbours of `%s` are connected: this node\'s fill-in and that of every later node is lost' % node),
               construct='early exit of the elimination sweep')


def merge_pass(fi, b, free):
    """`while i < len(A) and j < len(B): if A[i] == B[j]: n += 1; i += 1; j += 1 / elif A[i] < B[j]: i += 1 / else: j += 1`
    -> (while node, A, B, counter name) when one of the `free` names is such a counter"""
    for wl in ast.walk(fi.node):
        if not isinstance(wl, ast.While) or wl.orelse:
            continue
        t = wl.test
        if not (isinstance(t, ast.BoolOp) and isinstance(t.op, ast.And) and len(t.values) == 2):
            continue
        idx = {}
        for v in t.values:
            if isinstance(v, ast.Compare) and len(v.ops) == 1 and isinstance(v.ops[0], ast.Lt) and isinstance(v.left, ast.Name) \
                    and isinstance(v.comparators[0], ast.Call) and U(v.comparators[0].func) == 'len' and len(v.comparators[0].args) == 1:
                idx[v.left.id] = U(v.comparators[0].args[0])
        if len(idx) != 2 or len(wl.body) != 1 or not isinstance(wl.body[0], ast.If):
            continue
        (i, A), (j, B) = sorted(idx.items(), key=lambda kv: kv[1])
        top = wl.body[0]
        eq = U(top.test).replace(' ', '')
        if eq not in ('%s[%s]==%s[%s]' % (A, i, B, j), '%s[%s]==%s[%s]' % (B, j, A, i)):
            continue

        def incs(stmts):
            out = {}
            for st in stmts:
                if isinstance(st, ast.AugAssign) and isinstance(st.op, ast.Add) and isinstance(st.target, ast.Name) and U(st.value) == '1':
                    out[st.target.id] = out.get(st.target.id, 0) + 1
                elif isinstance(st, ast.Assign) and len(st.targets) == 1 and isinstance(st.targets[0], ast.Tuple) and isinstance(st.value, ast.Tuple) \
                        and len(st.targets[0].elts) == len(st.value.elts):
                    for tg, vv in zip(st.targets[0].elts, st.value.elts):
                        if isinstance(tg, ast.Name) and U(vv).replace(' ', '') in (tg.id + '+1', '1+' + tg.id):
                            out[tg.id] = out.get(tg.id, 0) + 1
                        else:
                            return None
                elif isinstance(st, ast.Assign) and len(st.targets) == 1 and isinstance(st.targets[0], ast.Name) and \
                        U(st.value).replace(' ', '') in (st.targets[0].id + '+1', '1+' + st.targets[0].id):
                    out[st.targets[0].id] = out.get(st.targets[0].id, 0) + 1
                else:
                    return None
            return out
        both = incs(top.body)
        if both is None or both.get(i) != 1 or both.get(j) != 1:
            continue
        counters = [k for k in both if k not in (i, j) and both[k] == 1]
        if len(counters) != 1 or counters[0] not in free:
            continue
        rest = top.orelse
        if len(rest) != 1 or not isinstance(rest[0], ast.If):
            continue
        lt = rest[0]
        ltt = U(lt.test).replace(' ', '')
        a_small = ltt in ('%s[%s]<%s[%s]' % (A, i, B, j), '%s[%s]>%s[%s]' % (B, j, A, i))
        b_small = ltt in ('%s[%s]<%s[%s]' % (B, j, A, i), '%s[%s]>%s[%s]' % (A, i, B, j))
        x, y = incs(lt.body), incs(lt.orelse)
        if x is None or y is None:
            continue
        if a_small and x == {i: 1} and y == {j: 1} or b_small and x == {j: 1} and y == {i: 1}:
            return wl, A, B, counters[0]
    return None


def clique_element_order(fi, b):
    """how the attribute tuples that range over the pair loop are ordered: 'sorted' (tuple(sorted(..))), 'domain' (domain.canonical(..)), None"""
    from ..engines.builders import Builder, strip_wrappers
    if len(b.gens) != 1:
        return None
    it = strip_wrappers(b.gens[0][1])
    if not (isinstance(it, ast.Call) and U(it.func).endswith('combinations') and it.args):
        return None
    seq = it.args[0]
    # follow `sorted(..)` / list wrappers down to a comprehension
    for _ in range(4):
        seq = strip_wrappers(seq)
        if isinstance(seq, ast.Call) and isinstance(seq.func, ast.Name) and seq.func.id == 'sorted' and seq.args:
            seq = seq.args[0]
        else:
            break
    cb = Builder.of_comprehension(seq)
    if cb is None:
        return None
    e = cb.elt
    e = strip_wrappers(e)
    if isinstance(e, ast.Call) and isinstance(e.func, ast.Name) and e.func.id == 'sorted' and len(e.args) == 1 and not e.keywords:
        return 'sorted'
    if isinstance(e, ast.Call) and isinstance(e.func, ast.Attribute) and e.func.attr == 'canonical':
        return 'domain'
    return None


def matrix_overlap(fi, wtext, X, lookup):
    """w = -int(OV[i, j]) with OV = M @ M.T and M = np.array([[a in cl for a in UNIVERSE] for cl in X], dtype=<number>):
    (M M^T)[i, j] counts the common attributes - as long as M is NUMERIC; the product of a boolean matrix is a logical one (any common
    attribute -> True -> 1).  -> (ok, why, node) or None"""
    m = re.fullmatch(r'-(?:int\()?(\w+)\[_g0_0,_g0_1\]\)?', wtext)
    if not m:
        return None
    ov = lookup(m.group(1))
    if ov is None:
        return None
    M = None
    NUM = ('int', 'float', 'np.int64', 'np.float64', 'np.intp', 'np.int32')
    cast_operand = cast_product = False
    if isinstance(ov, ast.Call) and isinstance(ov.func, ast.Attribute) and ov.func.attr == 'astype' and len(ov.args) == 1 and U(ov.args[0]) in NUM \
            and isinstance(ov.func.value, ast.BinOp):
        ov, cast_product = ov.func.value, True                 # (M @ M.T).astype(int): the product is formed first
    if isinstance(ov, ast.BinOp) and isinstance(ov.op, ast.MatMult):
        l_, r_ = ov.left, ov.right
        for side in ('l', 'r'):
            x = l_ if side == 'l' else r_
            if isinstance(x, ast.Call) and isinstance(x.func, ast.Attribute) and x.func.attr == 'astype' and len(x.args) == 1 and U(x.args[0]) in NUM:
                cast_operand = True                            # M.astype(int) @ M.T: a numeric operand makes the product numeric
                if side == 'l':
                    l_ = x.func.value
                else:
                    r_ = x.func.value
        if isinstance(l_, ast.Name) and U(r_) == l_.id + '.T':
            M = l_.id
    if False:
        pass
    elif isinstance(ov, ast.Call) and U(ov.func).split('.')[-1] == 'dot' and len(ov.args) >= 1:
        a0 = ov.func.value if isinstance(ov.func, ast.Attribute) and U(ov.func.value) not in ('np', 'numpy') else (ov.args[0] if ov.args else None)
        a1 = ov.args[-1]
        if isinstance(a0, ast.Name) and U(a1) == a0.id + '.T':
            M = a0.id
    if M is None:
        return None
    md = lookup(M)
    if not (isinstance(md, ast.Call) and U(md.func).split('.')[-1] in ('array', 'asarray') and md.args and isinstance(md.args[0], ast.ListComp)):
        return None
    outer = md.args[0]
    if len(outer.generators) != 1 or U(outer.generators[0].iter) != X or not isinstance(outer.elt, ast.ListComp) or len(outer.elt.generators) != 1:
        return None
    cl = U(outer.generators[0].target)
    inner = outer.elt
    a = U(inner.generators[0].target)
    univ = U(inner.generators[0].iter)
    if U(inner.elt).replace(' ', '') != '%sin%s' % (a, cl) or inner.generators[0].ifs or outer.generators[0].ifs:
        return None
    if univ not in ('self.domain.attrs', 'self.domain', 'self.domain.attrs()'):
        return False, 'the membership columns range over `%s`, which need not contain every attribute of the cliques' % univ, md
    dt = next((k.value for k in md.keywords if k.arg == 'dtype'), None)
    numeric = (dt is not None and U(dt).split('.')[-1] in ('int', 'float', 'int64', 'int32', 'float64', 'intp', 'uint8', 'int8', 'int16')) or cast_operand
    if not numeric:
        return False, 'the membership matrix `%s` is built without a numeric dtype, so it is BOOLEAN and `%s` is a logical product: every non-empty ' \
                      'intersection weighs 1, ties are broken by insertion order and the spanning tree no longer maximises the separators' % (M, U(ov)), md
    return True, 'integer membership matrix, (M M^T)[i, j] = |c_i & c_j|', md


def grown_tree(fi):
    """The spanning tree built by hand.  Recognised as Prim's algorithm - hence a maximum-weight spanning tree, and any of those is a
    junction tree of a chordal graph - when
        H.add_nodes_from(X); P = X[:1]; R = X[1:]
        while R:  (a, b) = max(product(P, R), key = |set(.) & set(.)|);  H.add_edge(a, b, ..);  P.append(b);  R.remove(b)
    Recognised as NOT one when every clique X[k] is attached, in list order, to the best of the earlier cliques X[:k]: the choice is not
    over the whole cut between placed and unplaced cliques.  -> (ok, why, node) or None."""
    rets = [r for r in ast.walk(fi.node) if isinstance(r, ast.Return) and isinstance(r.value, ast.Tuple) and r.value.elts and isinstance(r.value.elts[0], ast.Name)]
    if not rets:
        return None
    H = rets[-1].value.elts[0].id
    adds = [c for c in ast.walk(fi.node) if isinstance(c, ast.Call) and isinstance(c.func, ast.Attribute) and c.func.attr == 'add_edge' and U(c.func.value) == H
            and len(c.args) >= 2 and all(isinstance(a, ast.Name) for a in c.args[:2])]
    nodes = [U(c.args[0]) for c in ast.walk(fi.node) if isinstance(c, ast.Call) and isinstance(c.func, ast.Attribute) and c.func.attr == 'add_nodes_from'
             and U(c.func.value) == H and len(c.args) == 1]
    if len(adds) != 1 or len(nodes) != 1:
        return None
    X = nodes[0]
    add = adds[0]
    ends = {a.id for a in add.args[:2]}
    helpers = {d.name: d for d in ast.walk(fi.node) if isinstance(d, ast.FunctionDef) and d is not fi.node}

    def is_overlap_key(k, pair_var=None):
        # lambda e: overlap(*e) | overlap(e[0], e[1]) | len(set(e[0]) & set(e[1]))      (overlap a local helper computing the intersection size)
        if isinstance(k, ast.Name) and k.id in helpers:
            d = helpers[k.id]
            if len(d.args.args) == 1 and len(d.body) == 1 and isinstance(d.body[0], ast.Return):
                k = ast.Lambda(args=d.args, body=d.body[0].value)
        if not (isinstance(k, ast.Lambda) and len(k.args.args) == 1):
            return False
        e = k.args.args[0].arg
        t = U(k.body).replace(' ', '')
        inter = ('len(set(%s[0])&set(%s[1]))' % (e, e), 'len(set(%s[1])&set(%s[0]))' % (e, e))
        if t in inter:
            return True
        m = re.fullmatch(r'(\w+)\(\*%s\)' % e, t) or re.fullmatch(r'(\w+)\(%s\[0\],%s\[1\]\)' % (e, e), t)
        if m and m.group(1) in helpers:
            d = helpers[m.group(1)]
            if len(d.args.args) == 2 and len(d.body) == 1 and isinstance(d.body[0], ast.Return):
                a, b = [x.arg for x in d.args.args]
                return U(d.body[0].value).replace(' ', '') in ('len(set(%s)&set(%s))' % (a, b), 'len(set(%s)&set(%s))' % (b, a))
        return False
    loop = None
    n = add
    while getattr(n, '_parent', None) is not None:
        n = n._parent
        if isinstance(n, (ast.While, ast.For)):
            loop = n
            break
    if loop is None:
        for lp in ast.walk(fi.node):
            if isinstance(lp, (ast.While, ast.For)) and any(x is add for x in ast.walk(lp)):
                loop = lp
    if loop is None:
        return None
    inits = {a.targets[0].id: a.value for a in ast.walk(fi.node) if isinstance(a, ast.Assign) and len(a.targets) == 1 and isinstance(a.targets[0], ast.Name)
             and not any(a is x for x in ast.walk(loop))}
    if isinstance(loop, ast.While):
        R = U(loop.test)
        m = re.fullmatch(r'len\((\w+)\)>0', R.replace(' ', ''))
        R = m.group(1) if m else R
        picks = [a for a in loop.body if isinstance(a, ast.Assign) and len(a.targets) == 1 and isinstance(a.targets[0], ast.Tuple) and len(a.targets[0].elts) == 2
                 and isinstance(a.value, ast.Call) and U(a.value.func) == 'max' and len(a.value.args) == 1]
        if len(picks) != 1:
            return None
        pk = picks[0]
        a_, b_ = [U(x) for x in pk.targets[0].elts]
        src = pk.value.args[0]
        key = next((k.value for k in pk.value.keywords if k.arg == 'key'), None)
        if not (isinstance(src, ast.Call) and U(src.func) in ('itertools.product', 'product') and len(src.args) == 2 and U(src.args[1]) == R):
            return None
        P = U(src.args[0])
        moved = any(isinstance(c, ast.Call) and U(c.func) == P + '.append' and len(c.args) == 1 and U(c.args[0]) == b_ for c in ast.walk(loop)) and \
            any(isinstance(c, ast.Call) and U(c.func) == R + '.remove' and len(c.args) == 1 and U(c.args[0]) == b_ for c in ast.walk(loop))
        start = U(inits.get(P)).replace(' ', '') == '%s[:1]' % X and U(inits.get(R)).replace(' ', '') == '%s[1:]' % X if P in inits and R in inits else False
        if not (moved and start and ends == {a_, b_} and key is not None):
            return None
        if not is_overlap_key(key):
            return None
        return True, "Prim's algorithm: the heaviest edge across the cut (placed, unplaced) is added until every clique of `%s` is placed" % X, loop
    if isinstance(loop, ast.For) and isinstance(loop.target, ast.Name):
        k = loop.target.id
        if re.fullmatch(r'range\(1,len\(%s\)\)' % re.escape(X), U(loop.iter).replace(' ', '')):
            defs = {a.targets[0].id: a.value for a in loop.body if isinstance(a, ast.Assign) and len(a.targets) == 1 and isinstance(a.targets[0], ast.Name)}
            new = [n_ for n_, v in defs.items() if U(v).replace(' ', '') == '%s[%s]' % (X, k)]
            best = [n_ for n_, v in defs.items() if isinstance(v, ast.Call) and U(v.func) == 'max' and len(v.args) == 1 and U(v.args[0]).replace(' ', '') == '%s[:%s]' % (X, k)]
            if len(new) == 1 and len(best) == 1 and ends == {new[0], best[0]}:
                return False, ('every clique `%s[%s]` is attached, in list order, to the best of the EARLIER cliques `%s[:%s]`: the choice is not over the whole cut '
                               'between placed and unplaced cliques, so the result need not be a maximum-weight spanning tree (the running intersection '
                               'property fails, e.g. when a later clique would have been the better neighbour)' % (X, k, X, k)), loop
    return None


def connecting_path(ctx, fi, G, b, conds, lookup):
    """Only OVERLAPPING pairs get their edge (`if |c1 & c2| > 0`) and a path of weight-0 edges through the clique list keeps the graph
    connected: `G.add_edges_from(zip(X, X[1:]), weight=0)`.  Every spanning tree of that graph is one of the complete graph with the same
    weight, and a maximum-weight one still exists in it (the overlapping edges are all there, the rest of the complete graph weighs 0), so
    the filter is harmless - provided the path is laid BEFORE the pair loop: `add_edges_from(.., weight=0)` on an existing edge overwrites
    its weight, so a path laid afterwards resets the overlap of neighbouring cliques to 0."""
    positive = {'len(set(_g0_0)&set(_g0_1))>0', 'len(set(_g0_1)&set(_g0_0))>0', 'len(set(_g0_0)&set(_g0_1))!=0', 'len(set(_g0_0)&set(_g0_1))>=1',
                'set(_g0_0)&set(_g0_1)', 'len(set(_g0_0)&set(_g0_1))', 'notset(_g0_0).isdisjoint(_g0_1)', 'notset(_g0_0).isdisjoint(set(_g0_1))',
                '0<len(set(_g0_0)&set(_g0_1))', 'len(set(_g0_0).intersection(_g0_1))>0'}
    if len(conds) != 1 or conds[0] not in positive:
        return conds
    paths = []
    for st in fi.body:
        for c in ast.walk(st):
            if isinstance(c, ast.Call) and isinstance(c.func, ast.Attribute) and c.func.attr == 'add_edges_from' and U(c.func.value) == G and c.args:
                paths.append((st, c))
    if not paths:
        return conds              # nothing keeps attribute-disjoint components together: reported by the caller
    if len(paths) != 1:
        raise AnalysisError('_make_tree: %d unweighted edge collections next to the filtered pair loop' % len(paths))
    st, c = paths[0]
    a = c.args[0]
    wk = next((k.value for k in c.keywords if k.arg == 'weight'), None)
    X = None
    if isinstance(a, ast.Call) and U(a.func) == 'zip' and len(a.args) == 2 and isinstance(a.args[0], ast.Name):
        X = a.args[0].id
        if U(a.args[1]).replace(' ', '') != '%s[1:]' % X:
            X = None
    if X is None or wk is None or U(wk) not in ('0', '0.0', '-0'):
        raise AnalysisError('_make_tree: the extra edges `%s` next to the filtered pair loop are not a weight-0 path through the clique list' % U(c)[:80])
    over = [s_ for s_ in fi.body if isinstance(s_, ast.For) and re.fullmatch(r'(itertools\.)?combinations\(%s,2\)' % X, U(s_.iter).replace(' ', ''))
            and any(isinstance(n, ast.Call) and isinstance(n.func, ast.Attribute) and n.func.attr == 'add_edge' and U(n.func.value) == G for n in ast.walk(s_))]
    if len(over) != 1:
        raise AnalysisError('_make_tree: the weight-0 path runs through `%s`, which is not the list whose pairs the loop enumerates' % X)
    before = fi.body.index(st) < fi.body.index(over[0])
    ctx.ob('tree-connected', fi, st, before,
           'only overlapping clique pairs get their edge; a weight-0 path through `%s` keeps the clique graph connected. The path is laid %s'
           % (X, 'before the pair loop, which then gives the overlapping neighbours their true weight' if before else
              'AFTER the pair loop: add_edges_from(.., weight=0) overwrites the weight of every edge that already exists, so cliques that are '
              'neighbours in the list and overlap lose their weight and the spanning tree no longer maximises the separators'),
           construct='weight-0 path next to the filtered pair loop')
    return []


def check_tree_connected(ctx):
    """the clique graph handed to minimum_spanning_tree has an edge for EVERY pair of maximal cliques, weighted by minus the size of
    the intersection.  Stated on set-builder terms: `for c1, c2 in combinations(..): G.add_edge(c1, c2, weight=w)` and
    `G.add_weighted_edges_from((c1, c2, w) for c1, c2 in combinations(..))` are the same collection."""
    from ..engines.builders import Builder, method_calls, strip_wrappers
    from ..engines.blockeval import BlockEval, T
    from ..normalise import single_exit
    from ..srcmodel import clone
    fi = ctx.repo.nfunc(JT, 'JunctionTree._make_tree')
    ctx.analysed(fi)
    stmts, _ = single_exit(clone(fi.body), '__ret__')
    be = BlockEval(fi.qualname, loop_ok=lambda s_: True)
    be.run(stmts)
    # the graph whose spanning tree is taken
    trees = [n for v in list(be.env.values()) + [c for _, c, _, _ in be.calls] for n in ast.walk(v)
             if isinstance(n, ast.Call) and U(n.func).endswith('minimum_spanning_tree')]
    assembled = None
    if not trees:
        # the tree assembled by hand from the spanning EDGES: a graph made of edges alone has no isolated node, so every clique must be
        # added as a node first (a model with a single maximal clique has no edge at all)
        span = [(s_, c) for s_, c, pc_, lp in be.calls if isinstance(c.func, ast.Attribute) and c.func.attr == 'add_edges_from' and c.args
                and any(isinstance(n, ast.Call) and U(n.func).endswith('minimum_spanning_edges') for n in ast.walk(c.args[0]))]
        if len(span) != 1:
            verdict = grown_tree(fi)
            if verdict is None:
                raise AnalysisError('_make_tree: no minimum_spanning_tree call')
            ok_, why_, where_ = verdict
            ctx.ob('tree-connected', fi, where_, ok_, 'the junction tree is a MAXIMUM-weight spanning tree of the clique graph (weights: sizes of the '
                   'intersections); written out without networkx: %s' % why_, construct='spanning tree grown clique by clique')
            return
        s_sp, c_sp = span[0]
        H = U(c_sp.func.value)
        trees = [n for n in ast.walk(c_sp.args[0]) if isinstance(n, ast.Call) and U(n.func).endswith('minimum_spanning_edges')]
        node_src = [T(c.args[0]) for s_, c, pc_, lp in be.calls if isinstance(c.func, ast.Attribute) and c.func.attr == 'add_nodes_from'
                    and U(c.func.value) == H and c.args and not pc_ and not lp]
        assembled = (H, node_src, s_sp)
    G = U(trees[0].args[0]) if trees[0].args else None
    builders = []
    for s_, c, pc, loops in method_calls(be, G, 'add_edge'):
        w = next((k.value for k in c.keywords if k.arg == 'weight'), None)
        if len(c.args) >= 2 and w is not None:
            builders.append(Builder(ast.Tuple(elts=[c.args[0], c.args[1], w], ctx=ast.Load()), loops,
                                    [x if pol else ast.UnaryOp(op=ast.Not(), operand=x) for x, pol in pc], s_))
    for s_, c, pc, loops in method_calls(be, G, 'add_weighted_edges_from'):
        b = Builder.of_comprehension(c.args[0]) if c.args else None
        if b is None or loops:
            raise AnalysisError('_make_tree: unrecognised weighted-edge collection `%s`' % U(c)[:80])
        builders.append(b)
    if len(builders) != 1:
        raise AnalysisError('_make_tree: loop over all pairs of maximal cliques not found (%d edge collections on `%s`)' % (len(builders), G))
    b = builders[0]

    def lookup(name):
        ds = [st for st in ast.walk(fi.node) if isinstance(st, ast.Assign) and len(st.targets) == 1 and isinstance(st.targets[0], ast.Name)
              and st.targets[0].id == name]
        return ds[0].value if len(ds) == 1 else None
    b = b.composed(lookup)
    elt, gens, conds = b.canon()
    # pairs enumerated by POSITION: for i, j in combinations(range(len(X)), 2): edge(X[i], X[j], w(i, j))   (read off the source loop)
    for lp_ in [n for n in ast.walk(fi.node) if isinstance(n, ast.For)]:
        mi = re.fullmatch(r'(itertools\.)?combinations\(range\(len\((\w+)\)\),2\)', U(lp_.iter).replace(' ', ''))
        me = re.fullmatch(r'(itertools\.)?combinations\(enumerate\((\w+)\),2\)', U(lp_.iter).replace(' ', ''))
        if not (mi or me) or not (isinstance(lp_.target, ast.Tuple) and len(lp_.target.elts) == 2):
            continue
        X_ = (mi or me).group(2)
        member_of = None
        if me:
            # for (i, c1), (j, c2) in combinations(enumerate(X), 2): c1 is X[i] and c2 is X[j]
            if not all(isinstance(e_, ast.Tuple) and len(e_.elts) == 2 and all(isinstance(x_, ast.Name) for x_ in e_.elts) for e_ in lp_.target.elts):
                continue
            (i_, a_), (j_, b_) = [[x_.id for x_ in e_.elts] for e_ in lp_.target.elts]
            member_of = {a_: '%s[%s]' % (X_, i_), b_: '%s[%s]' % (X_, j_)}
            if any(isinstance(n, ast.Name) and isinstance(n.ctx, ast.Store) and n.id in (i_, j_, a_, b_) for st_ in lp_.body for n in ast.walk(st_)):
                continue
        else:
            i_, j_ = [U(e_) for e_ in lp_.target.elts]
        adds_ = [c for c in ast.walk(lp_) if isinstance(c, ast.Call) and isinstance(c.func, ast.Attribute) and c.func.attr == 'add_edge' and U(c.func.value) == G]
        if len(adds_) != 1 or len(lp_.body) != 1:
            continue
        c_ = adds_[0]
        wkw = next((k.value for k in c_.keywords if k.arg == 'weight'), None)
        ends_ = [U(a_).replace(' ', '') for a_ in c_.args[:2]]
        if member_of:
            ends_ = [member_of.get(x_, x_) for x_ in ends_]
        if wkw is None or sorted(ends_) != sorted(['%s[%s]' % (X_, i_), '%s[%s]' % (X_, j_)]):
            continue
        wtext = U(wkw).replace(' ', '').replace('[%s,%s]' % (i_, j_), '[_g0_0,_g0_1]')
        verdict = matrix_overlap(fi, wtext, X_, lookup)
        if verdict is None:
            raise AnalysisError('_make_tree: position-indexed clique pairs with a weight `%s` this analysis cannot relate to the intersection size' % U(wkw)[:60])
        okw, whyw, wnode = verdict
        ctx.ob('tree-connected', fi, lp_, True,
               'every pair of maximal cliques gets an edge (pairs enumerated by position over `%s`)' % X_, construct='edges of the complete clique graph')
        ctx.ob('tree-connected', fi, lp_, okw,
               'the weight of a clique pair is minus the size of its intersection, here read off a membership-matrix product: %s' % whyw,
               construct='weight of the complete clique graph')
        ok = len({T(t) for t in trees}) == 1
        ctx.ob('tree-connected', fi, fi.node, ok, 'the junction tree is the spanning tree of that complete clique graph `%s`' % G,
               construct='spanning tree of the clique graph')
        return
    pairs = len(gens) == 1 and gens[0][0] == 2 and re.fullmatch(r'(itertools\.)?combinations\((.+),2\)', gens[0][1]) is not None
    ends = elt.startswith('(_g0_0,_g0_1,') or elt.startswith('(_g0_1,_g0_0,')
    # a filter that only excludes a pair of EQUAL cliques is vacuous (the maximal cliques of a graph are pairwise distinct)
    vacuous = {'set(_g0_0)!=set(_g0_1)', 'set(_g0_1)!=set(_g0_0)', '_g0_0!=_g0_1', '_g0_1!=_g0_0', '_g0_0isnot_g0_1', 'notset(_g0_0)==set(_g0_1)'}
    conds = [c for c in conds if c not in vacuous]
    conds = connecting_path(ctx, fi, G, b, conds, lookup)
    ctx.ob('tree-connected', fi, b.where or fi.node, bool(pairs and ends and not conds),
           'every pair of maximal cliques must get an edge (unconditionally) so that the spanning tree is connected even for '
           'attribute-disjoint components; belief_propagation shares one logZ across all cliques; the source builds %s' % b.show()[:200],
           construct='edges of the complete clique graph')
    w = elt[len('(_g0_0,_g0_1,'):-1] if ends else ''
    want = {'-len(set(_g0_0)&set(_g0_1))', '-len(set(_g0_1)&set(_g0_0))', '-len(set(_g0_0).intersection(_g0_1))',
            '-len(set(_g0_1).intersection(_g0_0))', '-len(set(_g0_0).intersection(set(_g0_1)))', '-len(set(_g0_1).intersection(set(_g0_0)))'}
    known = {'len', 'set', 'frozenset', 'min', 'max', 'abs', 'sum'}
    unknown = sorted({U(c.func) for c in ast.walk(b.elt) if isinstance(c, ast.Call) and not
                      (U(c.func) in known or (isinstance(c.func, ast.Attribute) and c.func.attr in ('intersection', 'union', 'difference')))})
    free = sorted({n.id for n in ast.walk(b.renamed(b.elt)) if isinstance(n, ast.Name)} - {'_g0_0', '_g0_1'} - known
                  - {U(c.func) for c in ast.walk(b.elt) if isinstance(c, ast.Call)})
    if free and w not in want and ends:
        # a counting merge pass over the two clique tuples: equals |c1 & c2| exactly when both are strictly increasing under `<`
        mp = merge_pass(fi, b, free)
        if mp is not None:
            wnode, A, B, counter = mp
            ok_w = w.replace(' ', '') == '-' + counter
            elem = clique_element_order(fi, b)
            # the pass may run over locally sorted copies of the two tuples
            loopvars = {n.id for t_, _ in b.gens for n in ast.walk(t_) if isinstance(n, ast.Name)}
            tags = {v: elem for v in loopvars}
            host = [st for st in ast.walk(fi.node) if isinstance(st, ast.For) and wnode in st.body]
            if len(host) != 1:
                raise AnalysisError('_make_tree: merge pass outside the pair loop')
            for st in host[0].body:
                if st is wnode:
                    break
                pairs_ = []
                if isinstance(st, ast.Assign) and len(st.targets) == 1:
                    tg, vv = st.targets[0], st.value
                    if isinstance(tg, ast.Tuple) and isinstance(vv, ast.Tuple) and len(tg.elts) == len(vv.elts):
                        pairs_ = list(zip(tg.elts, vv.elts))
                    else:
                        pairs_ = [(tg, vv)]
                new_tags = {}
                for tg, vv in pairs_:
                    if not isinstance(tg, ast.Name):
                        continue
                    v_ = strip_wrappers(vv)
                    if isinstance(v_, ast.Call) and isinstance(v_.func, ast.Name) and v_.func.id == 'sorted' and len(v_.args) == 1 and not v_.keywords:
                        new_tags[tg.id] = 'sorted'
                    elif isinstance(v_, ast.Name):
                        new_tags[tg.id] = tags.get(v_.id)
                    else:
                        new_tags[tg.id] = None
                tags.update(new_tags)
            local = [tags.get(A), tags.get(B)]
            elem = None if None in local else ('sorted' if all(x == 'sorted' for x in local) else 'domain')
            if elem is None or not ok_w:
                raise AnalysisError('_make_tree: merge-pass weight `%s` over cliques whose element order is not recognised' % w)
            ctx.ob('tree-connected', fi, wnode, elem == 'sorted',
                   'the weight of a clique pair is computed by a merge pass (`%s[i] == %s[j]` / `<` advance): that counts the common attributes only '
                   'if both tuples are increasing under `<`; the clique tuples are %s'
                   % (A, B, 'tuple(sorted(..)): increasing' if elem == 'sorted' else
                      'in DOMAIN order (domain.canonical), which is not the order `<` of the attribute names: common attributes are skipped and the '
                      'separators of the spanning tree are no longer maximal'), construct='weight of the complete clique graph')
            ok = len({T(t) for t in trees}) == 1
            ctx.ob('tree-connected', fi, fi.node, ok, 'the junction tree is the spanning tree of that complete clique graph `%s`' % G,
                   construct='spanning tree of the clique graph')
            return
        unknown = unknown + ['loop-computed / outer value(s) %s' % free]
    if unknown and w not in want:
        raise AnalysisError('_make_tree: the clique-pair weight `%s` is computed by %s, which this analysis cannot relate to the size of '
                            'the intersection (neither confirmed nor refuted)' % (U(b.elt)[:80], unknown))
    ctx.ob('tree-connected', fi, b.where or fi.node, w in want,
           'the weight of a clique pair is minus the size of its intersection (a minimum spanning tree then maximises the separators); weight `%s`' % w,
           construct='weight of the complete clique graph')
    ok = len({T(t) for t in trees}) == 1
    ctx.ob('tree-connected', fi, fi.node, ok, 'the junction tree is the spanning tree of that complete clique graph `%s`' % G,
           construct='spanning tree of the clique graph')
    if assembled is not None:
        H, node_src, where_ = assembled
        g_nodes = [T(c.args[0]) for s_, c, pc_, lp in be.calls if isinstance(c.func, ast.Attribute) and c.func.attr == 'add_nodes_from'
                   and U(c.func.value) == G and c.args]
        ok = bool(node_src) and bool(g_nodes) and node_src[0] == g_nodes[0]
        ctx.ob('tree-connected', fi, where_, ok,
               'a tree assembled from the spanning edges must first receive EVERY maximal clique as a node (`%s.add_nodes_from(<the cliques>)`): '
               'a graph built from edges alone has no isolated nodes, so a model with one maximal clique (or an isolated clique) would lose it; '
               'nodes added: %s' % (H, node_src or 'none'), construct='nodes of the assembled spanning tree')
        R = be.env.get('__ret__')
        r0 = U(R.elts[0]) if isinstance(R, ast.Tuple) and R.elts else (U(R) if R is not None else None)
        ctx.ob('tree-connected', fi, fi.node, r0 == H, 'the assembled graph `%s` is what is returned as the tree (returns `%s`)' % (H, r0),
               construct='assembled spanning tree returned')

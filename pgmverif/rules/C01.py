"""C01 - exact inference (structural clauses of belief propagation).

  exp-normalised / returned-normalised-to-total
                      the only exponentiation on the BP path acts on beliefs shifted by log(total) - logZ with logZ the full
                      logsumexp of a calibrated belief; every returned table is such an exponential (stays finite for potentials far
                      outside the range of exp, sums to the total)
  lse-primitive       log-sum-exp reductions use scipy's -inf-safe primitive or a sanitised shift (an all -inf slice gives -inf, not NaN)
  bp-on-copies        BP mutates only fresh copies of the caller's potentials (E2, restricted to belief_propagation)
  bp-equations        message(i->j) = logsumexp over (clique i minus separator) of [belief_i - message(j->i) if already sent];
                      belief_j += message(i->j);  the division goes through Factor.__sub__ (infinity aware), never through raw arrays
  inf-guard           Factor.__sub__ selects on infinities of the subtrahend
  elimination-fill-in when the triangulation eliminates a node, its neighbours are pairwise connected *in the working graph* before
                      the node is removed (later eliminations must see earlier fill-in edges)
  tree-connected      the clique graph handed to the spanning-tree routine links EVERY pair of maximal cliques (also attribute-disjoint
                      ones): BP normalises all beliefs by the logZ of one clique, which is only valid on a connected tree
Not decided: equality with brute-force marginals; independence of the elimination / message order; validity of the junction tree
for all graphs (C12, not applicable).
"""
import ast

from . import _logrules as LR
from .C10 import check_inf_guard
from ..engines.alias import Scope
from ..srcmodel import AnalysisError, U, calls_in, walk_shallow, target_names

GM = 'src/mbi/graphical_model.py'
JT = 'src/mbi/junction_tree.py'


def run(ctx):
    repo = ctx.repo
    ctx.explanation = ('Log-space typestate (E3) and origin analysis (E2) restricted to GraphicalModel.belief_propagation, form rules '
                       'for the message equations and the infinity guard, an ordering rule on the elimination loop of the '
                       'triangulation. Exhaustive over the paths of these functions.')
    ctx.rule_text = 'one obligation per exp site / returned table / reduction primitive / mutation site in BP / message equation / elimination step'
    ctx.trusted = ['calibrated beliefs of all cliques share one logZ (the normaliser is taken from the first clique)',
                   'scipy.special.logsumexp; networkx graph primitives']
    bp = repo.nfunc(GM, 'GraphicalModel.belief_propagation')
    an, n = LR.L1(ctx, bp)
    ctx.floor('exp sites on the BP path', n, 1)
    k = LR.L2_container(ctx, bp, an, 'self.total')
    ctx.floor('returned-table constructions in BP', k, 1)
    # the normaliser must be a *full* logsumexp of a belief (after the message loop)
    LR.lse_primitive(ctx)
    check_copies(ctx, bp)
    check_equations(ctx, bp)
    check_inf_guard(ctx)
    check_fill_in(ctx)
    check_tree_connected(ctx)


def check_copies(ctx, bp):
    scope = Scope(ctx.repo, ['src/mbi/graphical_model.py', 'src/mbi/clique_vector.py', 'src/mbi/factor.py', 'src/mbi/domain.py'],
                  {'potentials': 'cv', 'marginals': 'cv'})
    scope.solve()
    s = scope.summaries[(GM, bp.qualname)]
    n = 0
    seen = set()
    for site in s.sites:
        k = (getattr(site.node, 'lineno', 0), getattr(site.node, 'col_offset', 0), site.what)
        if k in seen:
            continue
        seen.add(k)
        n += 1
        bad = sorted(t for t in site.origins if t not in ('F',) and not t.endswith(':self'))
        ctx.ob('bp-on-copies', bp, site.node, not bad,
               '%s acts on %s' % (site.what, 'objects allocated in this call' if not bad else
                                  'the caller\'s potentials (%s): the parameters handed in are modified' % ', '.join(bad)))
    ctx.floor('in-place sites in BP', n, 3)
    pot = bp.params[1]
    # returned value must not alias the input either
    ok = not ({'P:' + pot, 'Pe:' + pot} & (set(s.ret.own) | set(s.ret.elem)))
    ctx.ob('bp-on-copies', bp, bp.node, ok, 'the returned marginals do not alias the caller\'s potentials', construct='return of belief_propagation')


def check_equations(ctx, bp):
    loops = [s for s in bp.body if isinstance(s, ast.For) and isinstance(s.target, ast.Tuple) and len(s.target.elts) == 2]
    if len(loops) != 1 or U(loops[0].iter) != 'self.message_order':
        raise AnalysisError('belief_propagation: message loop over self.message_order not found')
    loop = loops[0]
    i, j = [U(e) for e in loop.target.elts]
    text = {}
    stores, augs = [], []
    for s in ast.walk(loop):
        if isinstance(s, ast.Assign) and len(s.targets) == 1:
            text[U(s.targets[0])] = s
            if isinstance(s.targets[0], ast.Subscript):
                stores.append(s)
        if isinstance(s, ast.AugAssign):
            augs.append(s)
    fwd = ('messages[%s, %s]' % (i, j), 'messages[(%s, %s)]' % (i, j))
    rev_key = '(%s, %s)' % (j, i)
    # (1) division by the reverse message, guarded by its presence, through Factor subtraction
    subs = [n for n in ast.walk(loop) if isinstance(n, ast.BinOp) and isinstance(n.op, ast.Sub)]
    ok_div = False
    where = loop
    for n in subs:
        if U(n.left) == 'beliefs[%s]' % i and isinstance(n.right, ast.Subscript) and U(n.right.value) == 'messages' \
                and U(n.right.slice).strip('()') == '%s, %s' % (j, i):
            where = n
            guard = None
            p = getattr(n, '_parent', None)
            child = n
            while p is not None and p is not loop:
                if isinstance(p, (ast.If, ast.IfExp)):
                    guard = p
                    break
                child, p = p, getattr(p, '_parent', None)
            ok_div = guard is not None and U(guard.test).replace(' ', '') in ('(%s,%s)inmessages' % (j, i),)
    raw = [n for n in ast.walk(loop) if isinstance(n, ast.Attribute) and n.attr == 'values']
    ctx.ob('bp-equations', bp, where, ok_div and not raw,
           'outgoing message must exclude what came from the receiver: tau = beliefs[%s] - messages[%s] when that message exists, '
           'as a Factor subtraction (infinity aware)%s' % (i, rev_key, '; raw .values arithmetic found' if raw else ''))
    # (2) marginalise onto the separator: logsumexp over clique_i minus sep_axes[(i,j)]
    ok_msg, msg_stmt = False, None
    for s in stores:
        if U(s.targets[0]).replace(' ', '') in ('messages[%s,%s]' % (i, j), 'messages[(%s,%s)]' % (i, j)):
            msg_stmt = s
            v = s.value
            # equivalent spelling: project onto the separator with log-sum-exp aggregation
            if isinstance(v, ast.Call) and isinstance(v.func, ast.Attribute) and v.func.attr == 'project' and len(v.args) >= 1 \
                    and any(k.arg == 'agg' and isinstance(k.value, ast.Constant) and k.value.value == 'logsumexp' for k in v.keywords) \
                    and U(v.args[0]).replace(' ', '') in ('self.sep_axes[%s,%s]' % (i, j), 'self.sep_axes[(%s,%s)]' % (i, j)):
                ok_msg = True
            if isinstance(v, ast.Call) and isinstance(v.func, ast.Attribute) and v.func.attr == 'logsumexp' and len(v.args) == 1:
                sep = v.args[0]
                sd = text.get(U(sep))
                sv = sd.value if sd is not None else sep
                ok_msg = U(sv).replace(' ', '') in ('beliefs[%s].domain.invert(self.sep_axes[%s,%s])' % (i, i, j),
                                                    'beliefs[%s].domain.invert(self.sep_axes[(%s,%s)])' % (i, i, j))
    ctx.ob('bp-equations', bp, msg_stmt or loop, ok_msg,
           'message(%s->%s) must be the logsumexp of tau over the attributes of clique %s outside the separator '
           '(beliefs[%s].domain.invert(self.sep_axes[(%s, %s)]))' % (i, j, i, i, i, j))
    # (3) absorb into the receiver
    ok_abs = any(isinstance(a.op, ast.Add) and U(a.target) == 'beliefs[%s]' % j and U(a.value).replace(' ', '') in
                 ('messages[%s,%s]' % (i, j), 'messages[(%s,%s)]' % (i, j)) for a in augs)
    ctx.ob('bp-equations', bp, augs[0] if augs else loop, ok_abs, 'the receiver absorbs the message: beliefs[%s] += messages[(%s, %s)]' % (j, i, j))
    # (4) the normaliser is the full logsumexp of a clique belief, computed after the message loop
    after = bp.body[bp.body.index(loop) + 1:]
    z = [s for s in after if isinstance(s, ast.Assign) and isinstance(s.value, ast.Call) and isinstance(s.value.func, ast.Attribute)
         and s.value.func.attr == 'logsumexp' and not s.value.args]
    ctx.ob('bp-equations', bp, z[0] if z else bp.node, bool(z) and U(z[0].value.func.value).startswith('beliefs['),
           'logZ must be the full logsumexp of a calibrated belief, taken after all messages were sent')


def check_fill_in(ctx):
    fi = ctx.repo.nfunc(JT, 'JunctionTree._triangulated')
    ctx.analysed(fi)
    loops = [s for s in fi.body if isinstance(s, ast.For) and isinstance(s.target, ast.Name)]
    if len(loops) != 1:
        raise AnalysisError('_triangulated: elimination loop not found')
    loop = loops[0]
    node = loop.target.id
    order = fi.params[1]
    ctx.ob('elimination-fill-in', fi, loop, U(loop.iter) == order, 'nodes are eliminated in the given order `%s`' % order)
    # events in the loop body, in order
    G = None
    nb_stmt = add_idx = rm_idx = nb_idx = None
    nb_var = None
    for idx, s in enumerate(loop.body):
        for c in calls_in(s):
            f = c.func
            if isinstance(f, ast.Attribute) and f.attr == 'neighbors' and len(c.args) == 1 and U(c.args[0]) == node:
                G = U(f.value)
                nb_idx = idx
                if isinstance(s, ast.Assign) and isinstance(s.targets[0], ast.Name):
                    nb_var = s.targets[0].id
                    nb_stmt = s
    if G is None:
        raise AnalysisError('_triangulated: neighbours of the eliminated node are never queried')
    pairs_ok = nb_stmt is not None and any(U(c.func).endswith('combinations') and len(c.args) == 2 and U(c.args[1]) == '2'
                                           for c in calls_in(nb_stmt))
    for idx, s in enumerate(loop.body):
        for c in calls_in(s):
            f = c.func
            if isinstance(f, ast.Attribute) and U(f.value) == G and f.attr == 'add_edges_from' and c.args and \
                    (U(c.args[0]) == nb_var or 'neighbors(%s)' % node in U(c.args[0])):
                add_idx = idx
            if isinstance(f, ast.Attribute) and U(f.value) == G and f.attr == 'remove_node' and c.args and U(c.args[0]) == node:
                rm_idx = idx
    ok = pairs_ok and add_idx is not None and rm_idx is not None and nb_idx is not None and nb_idx <= add_idx < rm_idx
    ctx.ob('elimination-fill-in', fi, nb_stmt or loop, ok,
           'eliminating `%s`: all pairs of its neighbours in the working graph `%s` must be connected in `%s` itself before the node '
           'is removed from it (found: pairs=%s, add_edges_from at step %s, remove_node at step %s)'
           % (node, G, G, pairs_ok, add_idx, rm_idx))
    # the working graph starts as a copy of the model graph and the result contains model edges + fill-in edges
    init = [s for s in fi.body if isinstance(s, ast.Assign) and U(s.targets[0]) == G]
    ok = bool(init) and U(init[0].value) in ('nx.Graph(self.graph)', 'self.graph.copy()')
    ctx.ob('elimination-fill-in', fi, init[0] if init else fi.node, ok, 'the working graph must be a copy of the model graph (the original is needed afterwards)')


def check_tree_connected(ctx):
    fi = ctx.repo.nfunc(JT, 'JunctionTree._make_tree')
    ctx.analysed(fi)
    loops = [s for s in walk_shallow(fi.node) if isinstance(s, ast.For) and isinstance(s.iter, ast.Call)
             and U(s.iter.func).endswith('combinations') and len(s.iter.args) == 2 and U(s.iter.args[1]) == '2']
    if len(loops) != 1:
        raise AnalysisError('_make_tree: loop over all pairs of maximal cliques not found')
    loop = loops[0]
    adds = [c for c in calls_in(loop) if isinstance(c.func, ast.Attribute) and c.func.attr == 'add_edge']
    ok = False
    where = loop
    if len(adds) == 1:
        where = adds[0]
        stmt = None
        for s in loop.body:
            if any(c is adds[0] for c in calls_in(s)):
                stmt = s
        ok = isinstance(stmt, ast.Expr) and {U(a) for a in adds[0].args[:2]} == {U(e) for e in loop.target.elts}
    ctx.ob('tree-connected', fi, where, ok,
           'every pair of maximal cliques must get an edge (unconditionally, weight = -|intersection|) so that the spanning tree is '
           'connected even for attribute-disjoint components; belief_propagation shares one logZ across all cliques')
    tree = [c for c in calls_in(fi.node) if U(c.func).endswith('minimum_spanning_tree')]
    graph = U(adds[0].func.value) if adds else None
    ok = len(tree) == 1 and tree[0].args and U(tree[0].args[0]) == graph
    ctx.ob('tree-connected', fi, tree[0] if tree else fi.node, ok, 'the junction tree is the spanning tree of that complete clique graph')

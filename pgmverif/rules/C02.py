"""C02 - every query path answers from one and the same joint distribution (structural clauses).

  exp-normalised     every exponentiation on a query path (project via variable elimination, bulk marginals via BP, the full
                     vector, the Kronecker query) has a normalised operand                       [F7: krondot does not]
  requested-order    every answer is laid out by the *requested* attribute tuple: project() ends in .project(attrs) on every
                     path (cached and uncached), calculate_many_marginals answers each projection through .project(proj) under
                     its own key, datavector() goes through .expand(self.domain), krondot transposes to the answer axes in domain
                     order and pairs matrices with attributes in domain order
  cache-rule         the marginal cache is only ever populated by belief_propagation(self.potentials)
  ve-equations       variable elimination (log space) adds the factors that mention a variable, marginalises it by logsumexp, and
                     normalises the final product to the total
Not decided: numeric equality with the explicit joint; save/load round trip (pickle, trusted).
"""
import ast

from . import _logrules as LR
from ..engines.logspace import TOTALNORM
from ..srcmodel import AnalysisError, U, calls_in, walk_shallow

GM = 'src/mbi/graphical_model.py'


def run(ctx):
    repo = ctx.repo
    ctx.explanation = ('Log-space typestate (E3) on the five query paths of GraphicalModel plus must-pass-through rules on the '
                       'returned factors (requested order) and a who-may-write rule on the marginal cache.')
    ctx.rule_text = 'one obligation per exp site on a query path, per returned answer, per store to the cache'
    ctx.trusted = ['Factor.project / transpose / expand order their result by the given attribute tuple (C14)', 'pickle round trip']
    n_exp = 0
    for q in ('GraphicalModel.project', 'GraphicalModel.krondot', 'GraphicalModel.calculate_many_marginals',
              'GraphicalModel.datavector', 'variable_elimination_logspace', 'variable_elimination', 'GraphicalModel.belief_propagation'):
        fi = repo.nfunc(GM, q)
        an, n = LR.L1(ctx, fi)
        n_exp += n
        if q == 'variable_elimination_logspace':
            ok = any(s.cls == TOTALNORM and s.total == fi.params[2] for s in an.sites.values())
            ctx.ob('ve-equations', fi, fi.node, ok, 'the eliminated product is normalised by its own logsumexp plus log(%s)' % fi.params[2],
                   construct='normalisation in variable_elimination_logspace')
            check_ve(ctx, fi)
    ctx.floor('exp sites on query paths', n_exp, 5)
    check_project(ctx, repo.nfunc(GM, 'GraphicalModel.project'))
    check_many(ctx, repo.nfunc(GM, 'GraphicalModel.calculate_many_marginals'))
    check_datavector(ctx, repo.nfunc(GM, 'GraphicalModel.datavector'))
    check_krondot(ctx, repo.nfunc(GM, 'GraphicalModel.krondot'))
    check_cache(ctx)


def check_project(ctx, fi):
    attrs = fi.params[1]
    rets = [r for r in walk_shallow(fi.node) if isinstance(r, ast.Return)]
    if len(rets) < 2:
        raise AnalysisError('GraphicalModel.project: expected a cached and an uncached return')
    for r in rets:
        v = r.value
        ok = isinstance(v, ast.Call) and isinstance(v.func, ast.Attribute) and v.func.attr == 'project' and len(v.args) == 1 \
            and U(v.args[0]) == attrs
        ctx.ob('requested-order', fi, r, ok, 'the answer must be ordered by the requested tuple: `<factor>.project(%s)`; returns `%s`' % (attrs, U(v)[:70]))
    # attrs may only be normalised list -> tuple
    for s in walk_shallow(fi.node):
        if isinstance(s, ast.Assign) and any(U(t) == attrs for t in s.targets):
            ctx.ob('requested-order', fi, s, U(s.value) in ('tuple(%s)' % attrs, 'list(%s)' % attrs),
                   'the requested tuple may be re-wrapped but not reordered: `%s`' % U(s))
    # uncached path: eliminate exactly the attributes not requested, from the model's own potentials and total
    ve = [c for c in calls_in(fi.node) if U(c.func) == 'variable_elimination_logspace']
    if len(ve) != 1:
        raise AnalysisError('GraphicalModel.project: variable elimination call not found')
    defs = {s.targets[0].id: s.value for s in walk_shallow(fi.node) if isinstance(s, ast.Assign) and isinstance(s.targets[0], ast.Name)}
    c = ve[0]
    pots, order, total = [defs.get(U(a), a) if isinstance(a, ast.Name) else a for a in c.args]
    elim = defs.get('elim')
    ok = U(pots) in ('list(self.potentials.values())', '[self.potentials[cl] for cl in self.cliques]') and U(total) == 'self.total' \
        and isinstance(order, ast.Call) and U(order.func) == 'greedy_order' and len(order.args) == 3 \
        and U(defs.get(U(order.args[2]), order.args[2])) == 'self.domain.invert(%s)' % attrs
    ctx.ob('ve-equations', fi, c, ok, 'out-of-clique answers eliminate exactly domain.invert(%s) from the model\'s own potentials, scaled to self.total' % attrs)
    # cached path: only a clique that contains the request may answer
    loops = [s for s in walk_shallow(fi.node) if isinstance(s, ast.For)]
    ok = False
    for l in loops:
        ifs = [x for x in l.body if isinstance(x, ast.If)]
        if ifs and U(ifs[0].test).replace(' ', '') == 'set(%s)<=set(%s)' % (attrs, U(l.target)):
            r = [x for x in ifs[0].body if isinstance(x, ast.Return)]
            ok = bool(r) and U(r[0].value).startswith('self.marginals[%s]' % U(l.target)) and U(l.iter) == 'self.cliques'
    ctx.ob('requested-order', fi, loops[0] if loops else fi.node, ok, 'a cached clique marginal answers only requests it contains, keyed by that clique')


def check_ve(ctx, fi):
    pots, elim, total = fi.params
    loops = [s for s in fi.body if isinstance(s, ast.For)]
    if len(loops) != 1 or U(loops[0].iter) != elim:
        raise AnalysisError('variable_elimination_logspace: elimination loop not found')
    z = U(loops[0].target)
    body = loops[0].body
    text = ' ; '.join(U(s) for s in body)
    sel = any(isinstance(s, ast.Assign) and isinstance(s.value, ast.ListComp) and
              any(U(i).replace(' ', '') == '%sinpsi[i].domain' % z for g in s.value.generators for i in g.ifs) for s in body)
    ctx.ob('ve-equations', fi, loops[0], sel, 'eliminating `%s` collects exactly the factors whose domain mentions it' % z)
    red = [s for s in body if isinstance(s, ast.Assign) and isinstance(s.value, ast.Call) and U(s.value.func) == 'reduce']
    ok = bool(red) and isinstance(red[0].value.args[0], ast.Lambda) and isinstance(red[0].value.args[0].body, ast.BinOp) \
        and isinstance(red[0].value.args[0].body.op, ast.Add)
    ctx.ob('ve-equations', fi, red[0] if red else loops[0], ok, 'log-space factors are combined by addition')
    lse = [s for s in body if isinstance(s, ast.Assign) and isinstance(s.value, ast.Call) and isinstance(s.value.func, ast.Attribute)
           and s.value.func.attr == 'logsumexp']
    ok = bool(lse) and U(lse[0].value.args[0]).replace(' ', '') in ('[%s]' % z, '(%s,)' % z)
    ctx.ob('ve-equations', fi, lse[0] if lse else loops[0], ok, 'the eliminated variable `%s` (and only it) is marginalised by logsumexp' % z)


def check_many(ctx, fi):
    projections = fi.params[1]
    loops = [s for s in fi.body if isinstance(s, ast.For) and U(s.iter) == projections]
    if len(loops) != 1:
        raise AnalysisError('calculate_many_marginals: loop over the requested projections not found')
    p = U(loops[0].target)
    n = 0
    for s in ast.walk(loops[0]):
        if isinstance(s, ast.Assign) and isinstance(s.targets[0], ast.Subscript) and U(s.targets[0].value) == 'answers':
            n += 1
            v = s.value
            ok = U(s.targets[0].slice) == p and isinstance(v, ast.Call) and isinstance(v.func, ast.Attribute) \
                and v.func.attr == 'project' and len(v.args) == 1 and U(v.args[0]) == p
            ctx.ob('requested-order', fi, s, ok, 'each requested projection is answered under its own key through .project(%s)' % p)
    ctx.floor('answer stores in calculate_many_marginals', n, 2)
    rets = [r for r in walk_shallow(fi.node) if isinstance(r, ast.Return)]
    ctx.ob('requested-order', fi, rets[-1], U(rets[-1].value) == 'answers', 'returns the answers dictionary')
    # a pairwise result may answer only requests it contains
    ok = any(isinstance(x, ast.If) and U(x.test).replace(' ', '') == 'set(%s)<=set(attr)' % p for x in ast.walk(loops[0]))
    ctx.ob('requested-order', fi, loops[0], ok, 'a pairwise joint answers only requests it contains')


def check_datavector(ctx, fi):
    rets = [r for r in walk_shallow(fi.node) if isinstance(r, ast.Return)]
    for r in rets:
        ok = any(isinstance(c.func, ast.Attribute) and c.func.attr == 'expand' and len(c.args) == 1 and U(c.args[0]) == 'self.domain'
                 for c in calls_in(r))
        ctx.ob('requested-order', fi, r, ok,
               'the full vector must be laid out in domain order: the summed potential (clique-merge order) goes through '
               '.expand(self.domain) before it is flattened')
        ok = 'self.total' in U(r)
        ctx.ob('requested-order', fi, r, ok, 'the normalised vector is scaled to self.total', construct='scaling of ' + U(r)[:50])
    s = [x for x in walk_shallow(fi.node) if isinstance(x, ast.Assign) and isinstance(x.value, ast.Call) and U(x.value.func) == 'sum']
    ok = bool(s) and U(s[0].value.args[0]).replace(' ', '') == '(self.potentials[cl]forclinself.cliques)'
    ctx.ob('ve-equations', fi, s[0] if s else fi.node, ok, 'the joint log-density is the sum of all clique potentials of the model')


def check_krondot(ctx, fi):
    m = fi.params[1]
    defs = {s.targets[0].id: s.value for s in walk_shallow(fi.node) if isinstance(s, ast.Assign) and isinstance(s.targets[0], ast.Name)}
    elim = None
    for k, v in defs.items():
        if U(v) == 'self.domain.attrs':
            elim = k
    loops = [s for s in walk_shallow(fi.node) if isinstance(s, ast.For)]
    ok = elim is not None and any(U(l.iter).replace(' ', '') == 'zip(%s,%s)' % (elim, m) for l in loops)
    ctx.ob('requested-order', fi, loops[0] if loops else fi.node, ok,
           'query matrices are paired with attributes in domain order: zip(self.domain.attrs, %s)' % m)
    tr = [c for c in calls_in(fi.node) if isinstance(c.func, ast.Attribute) and c.func.attr == 'transpose']
    ok = bool(tr) and elim is not None and U(tr[0].args[0]).replace(' ', '') == "['%s-answer'%aforain" + elim + ']'
    ctx.ob('requested-order', fi, tr[0] if tr else fi.node, ok, 'the result is transposed to the answer axes in domain order')


def check_cache(ctx):
    n = 0
    for name, fi in ctx.repo.nmethods(GM, 'GraphicalModel').items():
        for s in walk_shallow(fi.node):
            if isinstance(s, ast.Assign) and any(U(t) == 'self.marginals' for t in s.targets):
                n += 1
                ctx.ob('cache-rule', fi, s, U(s.value) == 'self.belief_propagation(self.potentials)',
                       'the marginal cache that project() short-cuts through may only hold belief_propagation(self.potentials); stores `%s`' % U(s.value))
    ctx.floor('stores to the marginal cache inside GraphicalModel', n, 1)

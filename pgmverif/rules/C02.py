"""C02 - every query path answers from one and the same joint distribution (structural clauses).

  exp-normalised     every exponentiation on a query path (project via variable elimination, bulk marginals via BP, the full
                     vector, the Kronecker query) has a normalised operand                       [F7: krondot does not]
  requested-order    every answer is laid out by the *requested* attribute tuple: project() ends in .project(attrs) on every
                     path (cached and uncached), calculate_many_marginals answers each projection through .project(proj) under
                     its own key, datavector() goes through .expand(self.domain), krondot transposes to the answer axes in domain
                     order and pairs matrices with attributes in domain order
  cache-rule         the marginal cache is only ever populated by belief_propagation(self.potentials)
  ve-equations       variable elimination (log space) adds the factors that mention a variable, marginalises it by logsumexp, and
                     normalises the final product to the total
  saved-state        save/load pickle the whole object; when the class customises what is pickled (__getstate__/__setstate__), every
                     attribute left out of the pickle is rebuilt from ALL constructor arguments it was derived from, taken from the
                     saved state (a tree rebuilt with the default elimination order need not be the tree the saved cliques,
                     potentials and cached marginals belong to)
  pair-schedule       the pairwise joints of calculate_many_marginals are built in an order that stores the joint of (Ci, Cl) before it is read
                      (distance-sorted pairs + all-pairs predecessors, or pairs of self.cliques + depth-first parent map from self.cliques[0])
Not decided: numeric equality with the explicit joint; the pickle round trip of the attribute values themselves (trusted).
"""
import ast
import re

from . import _logrules as LR
from ..engines.logspace import TOTALNORM
from ..srcmodel import target_names, names_in, AnalysisError, U, calls_in, walk_shallow

GM = 'src/mbi/graphical_model.py'


def run(ctx):
    repo = ctx.repo
    ctx.explanation = ('Log-space typestate (E3) on the five query paths of GraphicalModel plus must-pass-through rules on the '
                       'returned factors (requested order) and a who-may-write rule on the marginal cache.')
    ctx.rule_text = 'one obligation per exp site on a query path, per returned answer, per store to the cache'
    ctx.trusted = ['Factor.project / transpose / expand order their result by the given attribute tuple (C14)', 'pickle round trip']
    n_exp = 0
    for q in ('GraphicalModel.project', 'GraphicalModel.krondot', 'GraphicalModel.calculate_many_marginals',
              'GraphicalModel.datavector', 'variable_elimination_logspace', 'variable_elimination', 'GraphicalModel.belief_propagation'):
        fi = repo.nfunc(GM, q)
        an, n = LR.L1(ctx, fi)
        n_exp += n
        if q == 'variable_elimination_logspace':
            ok = any(s.cls == TOTALNORM and s.total == fi.params[2] for s in an.sites.values())
            ctx.ob('ve-equations', fi, fi.node, ok, 'the eliminated product is normalised by its own logsumexp plus log(%s)' % fi.params[2],
                   construct='normalisation in variable_elimination_logspace')
            check_ve(ctx, fi)
    ctx.floor('exp sites on query paths', n_exp, 5)
    check_project(ctx, repo.nfunc(GM, 'GraphicalModel.project'))
    check_queries_pure(ctx)
    check_many(ctx, repo.nfunc(GM, 'GraphicalModel.calculate_many_marginals'))
    check_conditionals(ctx, repo.nfunc(GM, 'GraphicalModel.calculate_many_marginals'))
    check_pair_schedule(ctx, repo.nfunc(GM, 'GraphicalModel.calculate_many_marginals'))
    check_datavector(ctx, repo.nfunc(GM, 'GraphicalModel.datavector'))
    check_krondot(ctx, repo.nfunc(GM, 'GraphicalModel.krondot'))
    check_cache(ctx)
    check_saved_state(ctx)


def containing_search(fi, request, seq='self.cliques'):
    """the clique K (variable name) selected as "first element of seq whose attribute set contains the request";
    recognises the loop form and the next(generator) form; -> (K name, node) or None"""
    from ..normalise import Defs, expand
    from .C14 import is_subset_test
    defs = Defs(fi.body)
    for n in ast.walk(fi.node):
        if isinstance(n, ast.For) and isinstance(n.target, ast.Name) and U(n.iter) == seq:
            for t in ast.walk(n):
                if isinstance(t, ast.If) and is_subset_test(expand(t.test, defs, keep=(request, n.target.id)), request, n.target.id):
                    return n.target.id, t, 'loop'
        if isinstance(n, ast.Assign) and len(n.targets) == 1 and isinstance(n.targets[0], ast.Name) and isinstance(n.value, ast.Call) \
                and U(n.value.func) == 'next' and n.value.args and isinstance(n.value.args[0], ast.GeneratorExp):
            g = n.value.args[0].generators[0]
            if U(g.iter) == seq and isinstance(g.target, ast.Name) and len(g.ifs) == 1 and U(n.value.args[0].elt) == g.target.id and \
                    is_subset_test(expand(g.ifs[0], defs, keep=(request, g.target.id)), request, g.target.id):
                return n.targets[0].id, n, 'next'
    return None


def check_project(ctx, fi):
    from ..normalise import Defs, expand
    attrs = fi.params[1]
    defs = Defs(fi.body)
    rets = [r for r in walk_shallow(fi.node) if isinstance(r, ast.Return)]
    if len(rets) < 2:
        raise AnalysisError('GraphicalModel.project: expected a cached and an uncached return')
    for r in rets:
        v = expand(r.value, defs, keep=(attrs,))
        while isinstance(v, ast.Call) and isinstance(v.func, ast.Attribute) and v.func.attr == 'copy' and not v.args and not v.keywords:
            v = v.func.value          # a copy keeps the layout
        ok = isinstance(v, ast.Call) and isinstance(v.func, ast.Attribute) and v.func.attr in ('project', 'transpose') and len(v.args) == 1 \
            and U(v.args[0]) == attrs          # Factor.transpose(attrs) orders by the request as well (and insists on the same attribute set)
        if not ok and isinstance(v, ast.Subscript) and U(v.value) == 'self.marginals':
            # the cached marginal of clique K itself, returned under `attrs == K`: already in the requested order
            K_ = U(v.slice)
            par = getattr(r, '_parent', None)
            while par is not None and not isinstance(par, ast.If):
                par = getattr(par, '_parent', None)
            if isinstance(par, ast.If) and isinstance(par.test, ast.Compare) and len(par.test.ops) == 1 and isinstance(par.test.ops[0], ast.Eq):
                def strip_(x):
                    while isinstance(x, ast.Call) and isinstance(x.func, ast.Name) and x.func.id in ('tuple', 'list') and len(x.args) == 1:
                        x = x.args[0]
                    return U(x)
                sides = {strip_(par.test.left), strip_(par.test.comparators[0])}
                ok = sides == {attrs, K_} and r in par.body
        ctx.ob('requested-order', fi, r, ok, 'the answer must be ordered by the requested tuple: `<factor>.project(%s)`; returns `%s`' % (attrs, U(v)[:70]))
    # attrs may only be normalised list -> tuple
    for s in walk_shallow(fi.node):
        if isinstance(s, ast.Assign) and any(U(t) == attrs for t in s.targets):
            wrapped_name = U(s.value).replace(' ', '') in ('(%s,)' % attrs, '[%s]' % attrs)          # one bare attribute name as a one-element request
            if wrapped_name:
                par_ = getattr(s, '_parent', None)
                wrapped_name = isinstance(par_, ast.If) and s in par_.body and U(par_.test).replace(' ', '') in (
                    'type(%s)isstr' % attrs, 'isinstance(%s,str)' % attrs, 'type(%s)==str' % attrs)
            ctx.ob('requested-order', fi, s, U(s.value) in ('tuple(%s)' % attrs, 'list(%s)' % attrs) or wrapped_name,
                   'the requested tuple may be re-wrapped but not reordered: `%s`' % U(s))
    # uncached path: eliminate exactly the attributes not requested, from the model's own potentials and total
    ve = [c for c in calls_in(fi.node) if U(c.func) == 'variable_elimination_logspace']
    if len(ve) != 1:
        raise AnalysisError('GraphicalModel.project: variable elimination call not found')
    c = ve[0]
    pots, order, total = [expand(a, defs, keep=(attrs,)) for a in c.args]
    ok = U(pots) in ('list(self.potentials.values())', '[self.potentials[cl] for cl in self.cliques]') and U(total) == 'self.total' \
        and isinstance(order, ast.Call) and U(order.func) == 'greedy_order' and len(order.args) == 3 \
        and U(order.args[2]) == 'self.domain.invert(%s)' % attrs
    if not ok and U(total) == 'self.total':
        pruned = pruned_elimination(fi, attrs, defs, c)
        if pruned is not None:
            ok, why = pruned
            ctx.ob('ve-equations', fi, c, ok,
                   'out-of-clique answers may drop the potentials that are not connected to the request (they only contribute a constant), '
                   'provided the connected set is computed to a fixpoint: %s' % why, construct='pruned variable elimination')
            ok = True
        elif not (isinstance(order, ast.Call) and U(order.func) == 'greedy_order'):
            raise AnalysisError('GraphicalModel.project: the elimination order / potential list of the uncached path is in no recognised form')
    ctx.ob('ve-equations', fi, c, ok, 'out-of-clique answers eliminate exactly domain.invert(%s) from the model\'s own potentials, scaled to self.total' % attrs)
    # cached path: only a clique that contains the request may answer, and it answers from its own cached marginal
    found = containing_search(fi, attrs)
    ok = False
    where = fi.node
    if found is not None:
        K, where, kind = found
        cached = [r for r in rets if 'self.marginals[' in U(expand(r.value, defs, keep=(attrs, K)))]
        pairwise = []
        for r in list(cached):
            pv = two_clique_answer(fi, r, attrs, defs)
            if pv is not None:
                cached.remove(r)
                pairwise.append((r, pv))
        for r, (okp, whyp) in pairwise:
            ctx.ob('requested-order', fi, r, okp, 'a request spanning two cliques may be answered from their cached marginals as P(A) * P(B) / P(A n B) only '
                   'when A and B are NEIGHBOURS in the junction tree (conditional independence given the separator): %s' % whyp,
                   construct='two-clique answer from the cache')
        ok = bool(cached) and all(U(expand(r.value, defs, keep=(attrs, K))).startswith('self.marginals[%s]' % K) for r in cached)
    ctx.ob('requested-order', fi, where, ok, 'a cached clique marginal answers only requests it contains, keyed by that clique')


def two_clique_answer(fi, r, attrs, defs):
    """return (self.marginals[A] * (self.marginals[B] / self.marginals[B].project(S))).project(attrs)  ->  (ok, why) or None"""
    from ..normalise import expand
    v = r.value
    if not (isinstance(v, ast.Call) and isinstance(v.func, ast.Attribute) and v.func.attr == 'project' and len(v.args) == 1 and U(v.args[0]) == attrs):
        return None
    prod = v.func.value
    if not (isinstance(prod, ast.BinOp) and isinstance(prod.op, ast.Mult)):
        return None
    # enclosing loop over pairs of cliques and its guard
    par = getattr(r, '_parent', None)
    guard = loop = None
    while par is not None:
        if isinstance(par, ast.If) and guard is None:
            guard = par
        if isinstance(par, ast.For) and loop is None:
            loop = par
        par = getattr(par, '_parent', None)
    if loop is None or guard is None or not (isinstance(loop.target, ast.Tuple) and len(loop.target.elts) == 2):
        return None
    A, B = [U(e) for e in loop.target.elts]
    ldefs = {}
    for st in loop.body:
        if isinstance(st, ast.Assign) and len(st.targets) == 1 and isinstance(st.targets[0], ast.Name):
            ldefs[st.targets[0].id] = st.value
    for st in guard.body:
        if isinstance(st, ast.Assign) and len(st.targets) == 1 and isinstance(st.targets[0], ast.Name):
            ldefs[st.targets[0].id] = st.value

    def ex(e):
        class S(ast.NodeTransformer):
            def visit_Name(self, n):
                return ex(ldefs[n.id]) if n.id in ldefs and n.id not in (A, B, attrs) else n
        from ..srcmodel import clone
        return S().visit(clone(e))
    t = U(ex(prod)).replace(' ', '')
    sep = ('tuple(set(%s)&set(%s))' % (A, B), 'tuple(set(%s)&set(%s))' % (B, A), 'list(set(%s)&set(%s))' % (A, B))
    forms = []
    for X, Y in ((A, B), (B, A)):
        for sp in sep:
            forms.append('self.marginals[%s]*(self.marginals[%s]/self.marginals[%s].project(%s))' % (X, Y, Y, sp))
    if t not in forms:
        raise AnalysisError('GraphicalModel.project: two-clique answer `%s` is in no recognised form' % t[:100])
    conj = guard.test.values if isinstance(guard.test, ast.BoolOp) and isinstance(guard.test.op, ast.And) else [guard.test]
    texts = [U(ex(c)).replace(' ', '') for c in conj]
    adjacent = any(x in ('%sinself.neighbors[%s]' % (B, A), '%sinself.neighbors[%s]' % (A, B)) for x in texts)
    covers = any(x in ('set(%s)<=set(%s)|set(%s)' % (attrs, A, B), 'set(%s)<=set(%s)|set(%s)' % (attrs, B, A),
                       'set(%s)<=set(%s).union(%s)' % (attrs, A, B)) for x in texts)
    if not covers:
        return False, 'the request is not tested to lie inside the two cliques'
    if not adjacent:
        return False, 'the guard `%s` does not require adjacency; two cliques that merely share an attribute (e.g. the ends of a chain of three) are not ' \
                      'conditionally independent given their intersection, so the product is not the joint marginal' % U(guard.test)[:80]
    return True, 'guarded by tree adjacency'


def pruned_elimination(fi, attrs, defs, call):
    """pots = [self.potentials[cl] for cl in CL], CL = [cl for cl in self.cliques if R & set(cl)], elim filtered by `in R`, where the set R
    starts from the request and is grown by `R.update(cl)` for cliques meeting it.  -> (closure computed to a fixpoint?, explanation) or None"""
    pots = call.args[0]
    p = defs.single(pots.id) if isinstance(pots, ast.Name) else pots
    # second spelling: the potentials filtered directly, the connected set grown by sweeps over self.cliques in a stated direction
    if isinstance(p, ast.ListComp) and len(p.generators) == 1 and U(p.generators[0].iter).replace(' ', '') == 'self.potentials.values()' and len(p.generators[0].ifs) == 1 \
            and U(p.elt) == U(p.generators[0].target):
        t_ = p.generators[0].ifs[0]
        v_ = U(p.generators[0].target)
        if isinstance(t_, ast.BinOp) and isinstance(t_.op, ast.BitAnd) and isinstance(t_.left, ast.Name) and U(t_.right).replace(' ', '') in (
                'set(%s.domain.attrs)' % v_, 'set(%s.domain)' % v_):
            R = t_.left.id
            grows = [lp for lp in ast.walk(fi.node) if isinstance(lp, ast.For) and any(
                isinstance(n, ast.Call) and isinstance(n.func, ast.Attribute) and n.func.attr == 'update' and U(n.func.value) == R for n in ast.walk(lp))]
            seeded = any(isinstance(s_, ast.Assign) and R in [x for t2 in s_.targets for x in target_names(t2)] and attrs in names_in(s_.value) for s_ in ast.walk(fi.node))
            if len(grows) == 1 and seeded:
                it = U(grows[0].iter).replace(' ', '')
                par = getattr(grows[0], '_parent', None)
                if isinstance(par, ast.While):
                    return True, 'the sweep over the cliques growing `%s` is repeated until it is stable' % R
                if it == 'self.cliques[::-1]+self.cliques':
                    return True, ('`%s` is grown by a sweep TOWARDS the root followed by one AWAY from it (self.cliques is a depth-first preorder of the junction tree: '
                                  'parents come before their children): every clique connected to the request is reached through their common ancestor' % R)
                if it == 'self.cliques+self.cliques[::-1]':
                    return False, ('`%s` is grown by a sweep AWAY from the root and then one back towards it: side branches hanging off the ancestors reached in the '
                                   'second sweep are never visited again, their potentials are dropped although they are connected to the request' % R)
                if it == 'self.cliques':
                    return False, 'the set `%s` is grown by ONE sweep over self.cliques: a clique that only touches attributes added later in the sweep is missed' % R
    if not (isinstance(p, ast.ListComp) and len(p.generators) == 1 and not p.generators[0].ifs and U(p.elt).replace(' ', '') ==
            'self.potentials[%s]' % U(p.generators[0].target)):
        return None
    CL = p.generators[0].iter
    cl = defs.single(CL.id) if isinstance(CL, ast.Name) else CL
    if not (isinstance(cl, ast.ListComp) and len(cl.generators) == 1 and U(cl.generators[0].iter) == 'self.cliques' and len(cl.generators[0].ifs) == 1):
        return None
    t = cl.generators[0].ifs[0]
    v = U(cl.generators[0].target)
    if not (isinstance(t, ast.BinOp) and isinstance(t.op, ast.BitAnd) and isinstance(t.left, ast.Name) and U(t.right) == 'set(%s)' % v):
        return None
    R = t.left.id
    # where R grows
    grow = None
    for lp in ast.walk(fi.node):
        if isinstance(lp, ast.For) and U(lp.iter) == 'self.cliques':
            for n in ast.walk(lp):
                if isinstance(n, ast.Call) and isinstance(n.func, ast.Attribute) and n.func.attr == 'update' and U(n.func.value) == R:
                    grow = lp
    if grow is None:
        return None
    # the request must seed R
    seeded = any(isinstance(s_, ast.Assign) and R in [x for t_ in s_.targets for x in target_names(t_)] and attrs in names_in(s_.value)
                 for s_ in ast.walk(fi.node))
    if not seeded:
        return False, 'the connected set `%s` is not seeded with the requested attributes' % R
    # fixpoint: the growing sweep is repeated by an enclosing loop whose test watches the size of R (or a changed flag)
    par = getattr(grow, '_parent', None)
    while par is not None and not isinstance(par, (ast.While, ast.FunctionDef)):
        par = getattr(par, '_parent', None)
    if isinstance(par, ast.While) and (R in names_in(par.test) or any(isinstance(n, ast.Name) for n in ast.walk(par.test))):
        return True, 'the sweep over the cliques growing `%s` is repeated until it is stable' % R
    return False, 'the set `%s` is grown by ONE sweep over self.cliques: a clique that only touches attributes added later in the sweep is missed, ' \
                  'its potential is dropped although it is connected to the request' % R


def check_ve(ctx, fi):
    pots, elim, total = fi.params
    loops = [s for s in walk_shallow(fi.node) if isinstance(s, ast.For) and isinstance(s.target, ast.Name) and
             U(s.iter).split('__')[0] == elim]
    if len(loops) != 1:
        raise AnalysisError('variable_elimination_logspace: elimination loop not found')
    z = U(loops[0].target)
    body = loops[0].body
    sel = any(isinstance(c, ast.Compare) and len(c.ops) == 1 and isinstance(c.ops[0], ast.In) and U(c.left) == z and
              U(c.comparators[0]).endswith('.domain') for s in body for c in ast.walk(s))
    # the working set may be keyed by SCOPE (frozenset of a factor's attributes) instead of by a running counter
    work = None
    for a_ in fi.body:
        if isinstance(a_, ast.Assign) and len(a_.targets) == 1 and isinstance(a_.targets[0], ast.Name) and isinstance(a_.value, ast.DictComp) \
                and len(a_.value.generators) == 1 and U(a_.value.generators[0].iter).split('__')[0] == pots:
            g_ = a_.value.generators[0]
            if U(a_.value.value) == U(g_.target) and U(a_.value.key).replace(' ', '') in ('frozenset(%s.domain.attrs)' % U(g_.target), 'frozenset(%s.domain)' % U(g_.target)):
                work = a_.targets[0].id
    if work is not None and not sel:
        # [s for s in W if z in s]: the keys are the scopes
        sel = any(isinstance(c, ast.comprehension) and U(c.iter) in (work, work + '.keys()', 'list(%s)' % work, 'list(%s.keys())' % work)
                  and any(isinstance(t_, ast.Compare) and len(t_.ops) == 1 and isinstance(t_.ops[0], ast.In) and U(t_.left) == z
                          and U(t_.comparators[0]) == U(c.target) for t_ in c.ifs) for s_ in body for c in ast.walk(s_))
    ctx.ob('ve-equations', fi, loops[0], sel, 'eliminating `%s` collects exactly the factors whose domain mentions it' % z)
    if work is not None:
        # a new message goes back into a scope-keyed working set: a factor with the same scope may already be there (two messages over one
        # separator) - it must be ADDED to it (log space), not replace it
        stores = [s_ for s_ in ast.walk(loops[0]) if isinstance(s_, (ast.Assign, ast.AugAssign)) and
                  any(isinstance(t_, ast.Subscript) and U(t_.value) == work for t_ in (s_.targets if isinstance(s_, ast.Assign) else [s_.target]))]
        if not stores:
            raise AnalysisError('variable_elimination_logspace: the message is not put back into the working set `%s`' % work)
        for st_ in stores:
            tg_ = (st_.targets[0] if isinstance(st_, ast.Assign) else st_.target)
            K = U(tg_.slice)
            merged = False
            if isinstance(st_, ast.AugAssign) and isinstance(st_.op, ast.Add):
                merged = True
            elif isinstance(st_.value, ast.IfExp):
                t_ = U(st_.value.test).replace(' ', '')
                a1, a2 = U(st_.value.body).replace(' ', ''), U(st_.value.orelse).replace(' ', '')
                cur = '%s[%s]' % (work, K)
                if t_ == '%sin%s' % (K, work):
                    merged = a1.startswith(cur + '+') or a1.endswith('+' + cur)
                elif t_ == '%snotin%s' % (K, work):
                    merged = a2.startswith(cur + '+') or a2.endswith('+' + cur)
            elif isinstance(st_.value, ast.BinOp) and isinstance(st_.value.op, ast.Add) and \
                    '%s[%s]' % (work, K) in (U(st_.value.left).replace(' ', ''), U(st_.value.right).replace(' ', '')):
                merged = True
            else:
                par_ = getattr(st_, '_parent', None)
                def adds(blk):
                    return any(isinstance(o_, ast.AugAssign) and isinstance(o_.op, ast.Add) and U(o_.target) == U(tg_) for o_ in blk) or \
                        any(isinstance(o_, ast.Assign) and U(o_.targets[0]) == U(tg_) and isinstance(o_.value, ast.BinOp) and isinstance(o_.value.op, ast.Add)
                            and '%s[%s]' % (work, K) in (U(o_.value.left).replace(' ', ''), U(o_.value.right).replace(' ', '')) for o_ in blk)
                if isinstance(par_, ast.If) and U(par_.test).replace(' ', '') == '%sin%s' % (K, work) and st_ in par_.orelse:
                    merged = adds(par_.body)
                if isinstance(par_, ast.If) and U(par_.test).replace(' ', '') in ('%snotin%s' % (K, work),) and st_ in par_.body:
                    merged = any(isinstance(o_, ast.AugAssign) and isinstance(o_.op, ast.Add) and U(o_.target) == U(tg_) for o_ in par_.orelse) or \
                        any(isinstance(o_, ast.Assign) and U(o_.targets[0]) == U(tg_) and U(o_.value).replace(' ', '').startswith('%s[%s]+' % (work, K))
                            for o_ in par_.orelse)
            ctx.ob('ve-equations', fi, st_, merged,
                   'the working set `%s` is keyed by scope: a message is %s' % (work, 'added to the factor already stored under its scope' if merged else
                   'stored under its scope with `%s`, replacing a factor that is already there (two messages over the same attributes, e.g. at a hub '
                   'clique): that factor drops out of the product' % U(st_)[:60]), construct='message put back into the working set')

    def is_add(f):
        return (isinstance(f, ast.Lambda) and isinstance(f.body, ast.BinOp) and isinstance(f.body.op, ast.Add)) or U(f) == 'operator.add'
    red = [c for s in body for c in ast.walk(s) if isinstance(c, ast.Call) and U(c.func) in ('reduce', 'functools.reduce') and c.args]
    sums = [c for s in body for c in ast.walk(s) if isinstance(c, ast.Call) and U(c.func) == 'sum']
    ok = (bool(red) and all(is_add(c.args[0]) for c in red)) or (not red and bool(sums))
    ctx.ob('ve-equations', fi, red[0] if red else loops[0], ok, 'log-space factors are combined by addition')
    lse = [c for s in body for c in ast.walk(s) if isinstance(c, ast.Call) and isinstance(c.func, ast.Attribute) and c.func.attr == 'logsumexp']
    ok = len(lse) == 1 and lse[0].args and U(lse[0].args[0]).replace(' ', '') in ('[%s]' % z, '(%s,)' % z)
    ctx.ob('ve-equations', fi, lse[0] if lse else loops[0], ok, 'the eliminated variable `%s` (and only it) is marginalised by logsumexp' % z)


def check_many(ctx, fi):
    projections = fi.params[1]
    loops = [s for s in fi.body if isinstance(s, ast.For) and U(s.iter) == projections]
    if len(loops) != 1:
        raise AnalysisError('calculate_many_marginals: loop over the requested projections not found')
    p = U(loops[0].target)
    n = 0
    rets = [r for r in walk_shallow(fi.node) if isinstance(r, ast.Return)]
    answers = U(rets[-1].value) if rets and isinstance(rets[-1].value, ast.Name) else 'answers'      # the container that is returned
    for s in ast.walk(loops[0]):
        if isinstance(s, ast.Assign) and isinstance(s.targets[0], ast.Subscript) and U(s.targets[0].value) == answers:
            n += 1
            v = s.value
            ok = U(s.targets[0].slice) == p and isinstance(v, ast.Call) and isinstance(v.func, ast.Attribute) \
                and v.func.attr == 'project' and len(v.args) == 1 and U(v.args[0]) == p
            if not ok and U(s.targets[0].slice) == p and isinstance(v, ast.Call) and isinstance(v.func, ast.Attribute) and v.func.attr == 'transpose' \
                    and len(v.args) == 1 and isinstance(v.func.value, ast.Subscript) and isinstance(v.func.value.slice, ast.Name):
                # an exact hit: the table stored under the request's own attributes in domain order, laid out as requested
                K = v.func.value.slice.id
                kdef = [a.value for a in ast.walk(loops[0]) if isinstance(a, ast.Assign) and len(a.targets) == 1 and U(a.targets[0]) == K]
                guard = getattr(s, '_parent', None)
                conj = []
                if isinstance(guard, ast.If) and s in guard.body:
                    conj = [U(c).replace(' ', '') for c in (guard.test.values if isinstance(guard.test, ast.BoolOp) and isinstance(guard.test.op, ast.And) else [guard.test])]
                same_set = len(kdef) == 1 and U(kdef[0]).replace(' ', '') == 'self.domain.canonical(%s)' % p and \
                    ('len(%s)==len(%s)' % (K, p) in conj or 'len(%s)==len(%s)' % (p, K) in conj or 'set(%s)==set(%s)' % (K, p) in conj)
                present = '%sin%s' % (K, U(v.func.value.value)) in conj
                if not (same_set and present):
                    raise AnalysisError('calculate_many_marginals: `%s` - whether the table under `%s` is over exactly the requested attributes is not recognised' % (U(s)[:70], K))
                okt = U(v.args[0]) == p
                ctx.ob('requested-order', fi, s, okt, 'a request whose attributes are exactly those of a stored table is answered by that table laid out as requested; '
                       'the source transposes it to `%s`%s' % (U(v.args[0]), '' if okt else ' - the DOMAIN order, not the order asked for'))
                continue
            ctx.ob('requested-order', fi, s, ok, 'each requested projection is answered under its own key through .project(%s)' % p)
    ctx.floor('answer stores in calculate_many_marginals', n, 1)
    inits = [s_ for s_ in fi.body if isinstance(s_, ast.Assign) and len(s_.targets) == 1 and U(s_.targets[0]) == answers
             and U(s_.value).replace(' ', '') in ('{}', 'dict()')]
    ctx.ob('requested-order', fi, rets[-1], bool(inits) and n > 0, 'returns the answers dictionary (`%s`, filled per requested projection)' % answers)
    # a pairwise result may answer only requests it contains
    from .C14 import is_subset_test
    # locals of the loop body bound once to set(p) / frozenset(p) stand for it in the test
    from ..srcmodel import clone
    setnames = {a.targets[0].id for a in ast.walk(loops[0]) if isinstance(a, ast.Assign) and len(a.targets) == 1 and isinstance(a.targets[0], ast.Name)
                and U(a.value).replace(' ', '') in ('set(%s)' % p, 'frozenset(%s)' % p)
                and sum(1 for b in ast.walk(loops[0]) if isinstance(b, ast.Name) and b.id == a.targets[0].id and isinstance(b.ctx, ast.Store)) == 1}

    def unfolded(t):
        class R_(ast.NodeTransformer):
            def visit_Name(self, n):
                if n.id in setnames and isinstance(n.ctx, ast.Load):
                    return ast.parse('set(%s)' % p, mode='eval').body
                return n
        return R_().visit(clone(t))
    ok = any(isinstance(x, ast.If) and isinstance(getattr(x, '_parent', None), ast.For) and isinstance(x._parent.target, ast.Name)
             and is_subset_test(unfolded(x.test), p, x._parent.target.id) for x in ast.walk(loops[0]))
    ctx.ob('requested-order', fi, loops[0], ok, 'a pairwise joint answers only requests it contains')


def check_conditionals(ctx, fi):
    """calculate_many_marginals chains P(Ci, Cl) * P(Cj | Cl) along the tree: every entry of the table of conditionals is the clique marginal
    DIVIDED by its own projection onto the separator, `Z / Z.project(S)`.  With an empty separator the projection is the 0-dimensional table
    holding the total, so `Z / self.total` is the same thing (the marginals sum to self.total: C01); the bare `Z` is a table of counts, and
    every answer served through that edge comes out `total` times too large."""
    src = fi                      # the normalised method: helpers added later are inlined
    stores = []
    # the table: filled under a pair key inside `for Ci in N: for Cj in N[Ci]:` / `for Ci, adj in N.items(): for Cj in adj:` (tree neighbours)
    tables = set()
    for o_ in ast.walk(src.node):
        if isinstance(o_, ast.For):
            for i_ in o_.body:
                by_index = isinstance(o_.target, ast.Name) and isinstance(i_, ast.For) and isinstance(i_.iter, ast.Subscript) \
                    and U(i_.iter.slice) == o_.target.id and U(i_.iter.value) == U(o_.iter)
                by_items = isinstance(o_.target, ast.Tuple) and len(o_.target.elts) == 2 and isinstance(i_, ast.For) and isinstance(o_.iter, ast.Call) \
                    and isinstance(o_.iter.func, ast.Attribute) and o_.iter.func.attr == 'items' and U(i_.iter) == U(o_.target.elts[1])
                if by_index or by_items:
                    for a_ in ast.walk(i_):
                        if isinstance(a_, ast.Assign) and len(a_.targets) == 1 and isinstance(a_.targets[0], ast.Subscript) and isinstance(a_.targets[0].value, ast.Name) \
                                and isinstance(a_.targets[0].slice, ast.Tuple) and len(a_.targets[0].slice.elts) == 2:
                            tables.add(a_.targets[0].value.id)

    def walk(block, guards):
        for st in block:
            if isinstance(st, ast.Assign) and len(st.targets) == 1 and isinstance(st.targets[0], ast.Subscript) and isinstance(st.targets[0].value, ast.Name) \
                    and st.targets[0].value.id in tables:
                stores.append((st, list(guards)))
            elif isinstance(st, ast.If):
                walk(st.body, guards + [(st.test, True)])
                walk(st.orelse, guards + [(st.test, False)])
            elif isinstance(st, (ast.For, ast.While, ast.With, ast.Try)):
                walk(st.body, guards)
    walk(src.node.body, [])
    if not stores:
        raise AnalysisError('calculate_many_marginals: the table of conditionals was not found')
    defs = {}
    for a in ast.walk(src.node):
        if isinstance(a, ast.Assign) and len(a.targets) == 1 and isinstance(a.targets[0], ast.Name):
            defs.setdefault(a.targets[0].id, []).append(a.value)
    for st, guards in stores:
        v = st.value
        t = U(v).replace(' ', '')
        m = re.fullmatch(r'(\w+)/\1\.project\((\w+)\)', t)
        if m:
            zdef = defs.get(m.group(1), [])
            ok = len(zdef) == 1 and U(zdef[0]).replace(' ', '').startswith('self.marginals[')
            ctx.ob('conditional-form', fi, st, ok, 'P(clique | separator) = Z / Z.project(S) with Z the cached clique marginal; `%s`' % U(v)[:80])
            continue
        empty = None
        for g, pol in guards:
            gt = U(g).replace(' ', '')
            mm = re.fullmatch(r'len\((\w+)\)==0', gt) or re.fullmatch(r'not(\w+)', gt)
            if mm and pol:
                empty = mm.group(1)
            mm2 = re.fullmatch(r'len\((\w+)\)(>0|!=0|>=1)', gt) or re.fullmatch(r'(\w+)', gt)
            if mm2 and not pol:
                empty = mm2.group(1)
        m2 = re.fullmatch(r'(\w+)/self\.total', t)
        if empty is not None and m2:
            ctx.ob('conditional-form', fi, st, True, 'empty separator `%s`: Z.project(()) is the total, so `%s` is Z / Z.project(S)' % (empty, U(v)))
        elif empty is not None and re.fullmatch(r'\w+(\.copy\(\))?', t):
            ctx.ob('conditional-form', fi, st, False, 'empty separator `%s`: the conditional is stored as the bare marginal `%s` - a table of COUNTS summing to '
                   'self.total, not of probabilities; every answer chained through this edge is `total` times too large' % (empty, U(v)))
        else:
            raise AnalysisError('calculate_many_marginals: conditional stored as `%s`, which is in no recognised form' % U(v)[:80])


def check_pair_schedule(ctx, fi):
    """The joint of a clique pair (Ci, Cj) is built from the joint of (Ci, Cl), Cl the clique before Cj on the tree path: that joint
    must already be in the table when it is read.  Two schedules are known to guarantee it: all pairs sorted by tree distance with the
    all-pairs predecessor matrix; or the pairs of `self.cliques` in list order with the parent map of a depth-first search from
    self.cliques[0] - valid because self.cliques IS that depth-first preorder (C12 checks it)."""
    from ..srcmodel import alpha_text, alpha_of
    loop = None
    for s in walk_shallow(fi.node):
        if isinstance(s, ast.For) and isinstance(s.target, ast.Tuple) and len(s.target.elts) == 2 and all(isinstance(e, ast.Name) for e in s.target.elts):
            ci, cj = [e.id for e in s.target.elts]
            stores = [t for a in ast.walk(s) if isinstance(a, ast.Assign) for t in a.targets
                      if isinstance(t, ast.Subscript) and isinstance(t.slice, ast.Tuple) and [U(e) for e in t.slice.elts] == [ci, cj]]
            if stores:
                loop = (s, ci, cj, U(stores[0].value))
    if loop is None:
        raise AnalysisError('calculate_many_marginals: loop over clique pairs not found')
    lp, ci, cj, table = loop
    reads = [n for n in ast.walk(lp) if isinstance(n, ast.Subscript) and isinstance(n.ctx, ast.Load) and U(n.value) == table
             and isinstance(n.slice, ast.Tuple) and len(n.slice.elts) == 2]
    mids = {U(n.slice.elts[1]) for n in reads if U(n.slice.elts[0]) == ci} | {U(n.slice.elts[0]) for n in reads if U(n.slice.elts[1]) == ci}
    mids -= {cj}
    if len(mids) != 1:
        raise AnalysisError('calculate_many_marginals: the earlier joint the pair loop builds on was not found (reads of `%s`: %s)'
                            % (table, sorted(U(n) for n in reads)))
    mid = mids.pop()
    mdefs = [a.value for a in ast.walk(lp) if isinstance(a, ast.Assign) and len(a.targets) == 1 and U(a.targets[0]) == mid]
    if len(mdefs) != 1:
        raise AnalysisError('calculate_many_marginals: definition of the intermediate clique `%s` not found' % mid)
    mdef = U(mdefs[0]).replace(' ', '')
    defs = {}
    for a in walk_shallow(fi.node):
        if isinstance(a, ast.Assign) and len(a.targets) == 1:
            if isinstance(a.targets[0], ast.Name):
                defs[a.targets[0].id] = a.value
            elif isinstance(a.targets[0], ast.Tuple):
                for k, t in enumerate(a.targets[0].elts):
                    if isinstance(t, ast.Name):
                        defs[t.id] = ('item', k, a.value)
    it = lp.iter
    key = None
    for _ in range(4):
        if isinstance(it, ast.Name) and isinstance(defs.get(it.id), ast.AST):
            it = defs[it.id]
        elif isinstance(it, ast.Call) and U(it.func) == 'sorted' and len(it.args) == 1 and key is None:
            key = next((k.value for k in it.keywords if k.arg == 'key'), None)
            it = it.args[0]
        elif isinstance(it, ast.Call) and U(it.func) in ('list', 'tuple') and len(it.args) == 1:
            it = it.args[0]
        else:
            break
    if not (isinstance(it, ast.Call) and U(it.func).split('.')[-1] == 'combinations' and len(it.args) == 2 and U(it.args[1]) == '2'):
        raise AnalysisError('calculate_many_marginals: pair enumeration `%s` is in no recognised form' % U(lp.iter)[:80])
    S = U(it.args[0]).replace(' ', '')
    TREE = ('self.junction_tree.tree',)
    import re
    m2 = re.fullmatch(r'(\w+)\[%s\]\[%s\]' % (ci, cj), mdef)
    m1 = re.fullmatch(r'(\w+)\[%s\]' % cj, mdef)
    if m2:
        # all-pairs predecessor matrix: needs the distance-sorted enumeration
        P = defs.get(m2.group(1))
        ok_src = isinstance(P, tuple) and P[1] == 0 and isinstance(P[2], ast.Call) and U(P[2].func).split('.')[-1] == 'floyd_warshall_predecessor_and_distance' \
            and P[2].args and U(P[2].args[0]) in TREE
        if not ok_src:
            raise AnalysisError('calculate_many_marginals: predecessor table `%s` is not the all-pairs predecessor matrix of the junction tree' % m2.group(1))
        dist = [k for k, v in defs.items() if isinstance(v, tuple) and v[1] == 1 and v[2] is P[2]]
        ok = key is not None and bool(dist) and alpha_text(key) == alpha_of('lambda X: %s[X[0]][X[1]]' % dist[0])
        ctx.ob('pair-schedule', fi, lp, ok,
               'with the all-pairs predecessor matrix the clique pairs must be taken in order of tree distance (sorted(.., key=lambda X: dist[X[0]][X[1]])): '
               'the joint of (%s, %s) is read before the joint of (%s, %s) is stored otherwise; enumeration: `%s`' % (ci, mid, ci, cj, U(lp.iter)[:90]))
    elif m1:
        P = defs.get(m1.group(1))
        if not (isinstance(P, ast.Call) and U(P.func).split('.')[-1] == 'dfs_predecessors' and len(P.args) == 2 and U(P.args[0]) in TREE):
            raise AnalysisError('calculate_many_marginals: parent map `%s` is not a depth-first parent map of the junction tree' % m1.group(1))
        root_ok = U(P.args[1]).replace(' ', '') == 'self.cliques[0]'
        ok = root_ok and key is None and S == 'self.cliques'
        why = ('the search starts at `%s`, not at self.cliques[0]' % U(P.args[1])) if not root_ok else \
            ('the pairs are re-sorted' if key is not None else
             'the pairs are enumerated in the order of `%s`, which is not the depth-first preorder (a caller-supplied container has any order)' % S)
        ctx.ob('pair-schedule', fi, lp, ok,
               'with a depth-first parent map the clique pairs must be the pairs of self.cliques in list order (self.cliques is the depth-first '
               'preorder from self.cliques[0], so the parent of %s comes before it and the joint of (%s, parent) is already stored)%s'
               % (cj, ci, '' if ok else '; ' + why))
    else:
        raise AnalysisError('calculate_many_marginals: intermediate clique `%s = %s` is in no recognised form' % (mid, mdef))


QUERIES = ('project', 'krondot', 'datavector', 'calculate_many_marginals', 'mle')


def check_queries_pure(ctx):
    """Answering a query reads the model: no in-place operation of a query method may reach the stored parameters or the cached marginals
    (E2 origin analysis).  A query that rewrites `self.potentials[cl]` - e.g. by normalising in place a table that, for a model with one
    clique, IS the stored potential - makes every later query answer from another distribution."""
    from ..engines.alias import Scope
    scope = Scope(ctx.repo, [GM, 'src/mbi/clique_vector.py', 'src/mbi/factor.py', 'src/mbi/domain.py'], {'potentials': 'cv', 'marginals': 'cv'})
    scope.solve()
    n = 0
    seen = set()
    for name in QUERIES + ('variable_elimination_logspace', 'variable_elimination'):
        qual = ('GraphicalModel.' + name) if name in QUERIES else name
        summ = scope.summaries.get((GM, qual))
        if summ is None:
            continue
        fi = ctx.repo.nfunc(GM, qual)
        for site in summ.sites:
            k = (name, getattr(site.node, 'lineno', 0), getattr(site.node, 'col_offset', 0), site.what)
            if k in seen:
                continue
            seen.add(k)
            n += 1
            bad = sorted(t for t in site.origins if t in ('S:potentials', 'S:marginals') or t.startswith(('P:', 'Pe:')) and not t.endswith(':self'))
            ctx.ob('queries-pure', fi, site.node, not bad,
                   '%s acts on %s' % (site.what, 'tables of this call' if not bad else
                                      'the model\'s own parameters / cached marginals or the caller\'s arguments (%s): later queries answer from the '
                                      'modified tables' % ', '.join(bad)))
    ctx.counters['in-place sites in the query methods'] = n


def check_datavector(ctx, fi):
    from ..normalise import Defs, expand
    defs = Defs(fi.body)
    rets = [r for r in walk_shallow(fi.node) if isinstance(r, ast.Return)]
    for r in rets:
        full = expand(r.value, defs, comps=False)
        # the joint over the maximal cliques spans every attribute of the domain (the junction tree's graph has every attribute as a
        # node), so either the broadcast to the domain or a permutation of the axes by name into the domain's order lays it out
        ok = any(isinstance(c.func, ast.Attribute) and len(c.args) == 1 and
                 ((c.func.attr == 'expand' and U(c.args[0]) == 'self.domain') or
                  (c.func.attr == 'transpose' and U(c.args[0]).replace(' ', '') in ('self.domain.attrs', 'list(self.domain.attrs)', 'tuple(self.domain.attrs)')) or
                  # self.domain.canonical(S): the attributes S in the order of self.domain - the RECEIVER supplies the order
                  (c.func.attr == 'transpose' and U(c.args[0]).replace(' ', '') in (
                      'self.domain.canonical(%s.domain.attrs)' % U(c.func.value).replace(' ', ''), 'self.domain.canonical(%s.domain)' % U(c.func.value).replace(' ', ''))))
                 for c in calls_in(full))
        ctx.ob('requested-order', fi, r, ok,
               'the full vector must be laid out in domain order: the summed potential (clique-merge order) goes through '
               '.expand(self.domain) (or .transpose(self.domain.attrs)) before it is flattened - reshaping the array keeps the clique-merge order')
        ok = 'self.total' in U(full)
        ctx.ob('requested-order', fi, r, ok, 'the normalised vector is scaled to self.total', construct='scaling of ' + U(r)[:50])
    s = [x for x in walk_shallow(fi.node) if isinstance(x, ast.Assign) and isinstance(x.value, ast.Call) and U(x.value.func) == 'sum']
    from ..srcmodel import alpha_text, alpha_of
    arg0 = expand(s[0].value.args[0], defs, comps=True) if s else None
    if isinstance(arg0, ast.ListComp):
        arg0 = ast.GeneratorExp(elt=arg0.elt, generators=arg0.generators)          # the same summands, materialised first
    ok = bool(s) and alpha_text(arg0) == alpha_of('(self.potentials[cl] for cl in self.cliques)')
    ctx.ob('ve-equations', fi, s[0] if s else fi.node, ok, 'the joint log-density is the sum of all clique potentials of the model')


def check_krondot(ctx, fi):
    m = fi.params[1]
    defs = {s.targets[0].id: s.value for s in walk_shallow(fi.node) if isinstance(s, ast.Assign) and isinstance(s.targets[0], ast.Name)}
    elim = None
    for k, v in defs.items():
        if U(v) == 'self.domain.attrs':
            elim = k
    loops = [s for s in walk_shallow(fi.node) if isinstance(s, ast.For)]
    ok = elim is not None and any(U(l.iter).replace(' ', '') == 'zip(%s,%s)' % (elim, m) for l in loops)
    ctx.ob('requested-order', fi, loops[0] if loops else fi.node, ok,
           'query matrices are paired with attributes in domain order: zip(self.domain.attrs, %s)' % m)
    tr = [c for c in calls_in(fi.node) if isinstance(c.func, ast.Attribute) and c.func.attr == 'transpose']
    from ..srcmodel import alpha_text, alpha_of
    ok = bool(tr) and elim is not None and alpha_text(tr[0].args[0]) == alpha_of("['%s-answer' % a for a in " + elim + ']')
    skipping = krondot_skips(ctx, fi, loops, elim, m, tr) if (not ok and tr and elim is not None) else None
    if skipping is not None:
        ok = skipping
    ctx.ob('requested-order', fi, tr[0] if tr else fi.node, ok, 'the result is transposed to the answer axes in domain order')
    # the normaliser the answers are divided by is the partition function of the model alone: it must not depend on the query
    # matrices (flow-sensitive dependency walk: `factors` depends on them only after the query factors have been appended)
    dep = {m}

    def mentions(e):
        return any(isinstance(n, ast.Name) and n.id in dep for n in ast.walk(e))

    def walk(stmts):
        for st in stmts:
            if isinstance(st, ast.Assign):
                hit = mentions(st.value)
                for t in st.targets:
                    for nm in target_names(t):
                        (dep.add if hit else dep.discard)(nm)
            elif isinstance(st, ast.AugAssign):
                if mentions(st.value):
                    dep.update(target_names(st.target))
            elif isinstance(st, ast.Expr) and isinstance(st.value, ast.Call) and isinstance(st.value.func, ast.Attribute) \
                    and isinstance(st.value.func.value, ast.Name) and st.value.func.attr in ('append', 'extend', 'insert', 'update', 'add'):
                if any(mentions(a) for a in st.value.args):
                    dep.add(st.value.func.value.id)
            elif isinstance(st, ast.For):
                if mentions(st.iter):
                    dep.update(target_names(st.target))
                walk(st.body)
                walk(st.body)
            elif isinstance(st, ast.If):
                walk(st.body)
                walk(st.orelse)
            elif isinstance(st, ast.Return) and st.value is not None:
                v = st.value
                divs = []
                while isinstance(v, ast.BinOp) and isinstance(v.op, (ast.Div, ast.Mult)):
                    if isinstance(v.op, ast.Div):
                        divs.append(v.right)
                    v = v.left
                if not divs:
                    raise AnalysisError('GraphicalModel.krondot: the answers are not divided by a normaliser: `%s`' % U(st.value)[:100])
                for d in divs:
                    ctx.ob('ve-equations', fi, st, not mentions(d),
                           'the Kronecker answers must be normalised by the partition function of the model alone; the divisor `%s` %s'
                           % (U(d), 'depends on the query matrices (the answers are rescaled to sum to the total whatever the queries are)'
                              if mentions(d) else 'does not depend on the query matrices'), construct='normaliser of krondot')
    walk(fi.body)


def krondot_skips(ctx, fi, loops, elim, m, tr):
    """a query that is a single row of ONES only sums its attribute out - the elimination does that anyway - so its factor may be left out:
           for attr, Q in zip(attrs, matrices):  if Q.shape[0] == 1 and (Q == 1).all(): continue;  ..append(factor);  answers.append(name)
           result.transpose(answers) ... .reshape(tuple(Q.shape[0] for Q in matrices))
    The answer axes kept are a sub-sequence of the domain order, and the reshape only re-inserts the length-1 axes.  The test must say ALL ONES:
    `Q.all()` (no zero entry) also skips weighted single-row queries, which are then answered as the total.  -> True / None (not this shape)"""
    src = ctx.repo.func(GM, 'GraphicalModel.krondot')          # the source form: the skip is a leading `if ..: continue`
    loops = [s_ for s_ in walk_shallow(src.node) if isinstance(s_, ast.For)]
    tr = [c for c in calls_in(src.node) if isinstance(c.func, ast.Attribute) and c.func.attr == 'transpose']
    fi = src
    lp = next((l for l in loops if U(l.iter).replace(' ', '') == 'zip(%s,%s)' % (elim, m)), None)
    if lp is None or not isinstance(lp.target, ast.Tuple) or len(lp.target.elts) != 2 or not tr:
        return None
    a, Q = [U(x) for x in lp.target.elts]
    skips = [i for i in lp.body if isinstance(i, ast.If) and not i.orelse and len(i.body) == 1 and isinstance(i.body[0], ast.Continue)]
    if len(skips) != 1 or lp.body[0] is not skips[0]:
        return None
    t = skips[0].test
    parts = [U(x).replace(' ', '') for x in (t.values if isinstance(t, ast.BoolOp) and isinstance(t.op, ast.And) else [t])]
    one_row = '%s.shape[0]==1' % Q in parts
    ones = any(x in ('(%s==1).all()' % Q, 'np.all(%s==1)' % Q, '(%s==1.0).all()' % Q, 'np.array_equal(%s,np.ones(%s.shape))' % (Q, Q)) for x in parts)
    nonzero = any(x in ('%s.all()' % Q, 'np.all(%s)' % Q, '(%s!=0).all()' % Q) for x in parts)
    if not one_row or not (ones or nonzero) or len(parts) != 2:
        raise AnalysisError('GraphicalModel.krondot: a query is skipped under `%s`, which is in no recognised form' % U(t)[:80])
    ctx.ob('ve-equations', fi, skips[0], ones, 'a query may be left out of the elimination only when it is a single row of ONES (it then just sums its attribute '
           'out); the test is `%s`%s' % (U(t), '' if ones else ': a single row WITHOUT A ZERO also passes - a weighted query such as [[1, 2, 3]] is answered as the total'),
           construct='skipped query factor of krondot')
    # the answer axes: appended in the same loop, after the skip
    A = U(tr[0].args[0])
    apps = [c for c in ast.walk(lp) if isinstance(c, ast.Call) and U(c.func) == A + '.append' and len(c.args) == 1 and U(c.args[0]).replace(' ', '') == "'%s-answer'%" + a]
    inits = [s_ for s_ in fi.body if isinstance(s_, ast.Assign) and len(s_.targets) == 1 and U(s_.targets[0]) == A and U(s_.value) == '[]']
    rets = [r for r in ast.walk(fi.node) if isinstance(r, ast.Return) and r.value is not None]
    reshaped = any(isinstance(c, ast.Call) and isinstance(c.func, ast.Attribute) and c.func.attr == 'reshape' and len(c.args) == 1 and
                   U(c.args[0] if not isinstance(c.args[0], ast.Name) else next((s_.value for s_ in fi.body if isinstance(s_, ast.Assign) and U(s_.targets[0]) == c.args[0].id), c.args[0])
                     ).replace(' ', '').replace('((', '(').replace('))', ')') in ('tuple(%s.shape[0]for%sin%s)' % (Q, Q, m), 'tuple(Q.shape[0]forQin%s)' % m, 'tuple(M.shape[0]forMin%s)' % m)
                   for r in rets for c in ast.walk(r.value))
    if len(apps) != 1 or len(inits) != 1 or not reshaped:
        raise AnalysisError('GraphicalModel.krondot: queries are skipped but the answer axes / final shape are in no recognised form')
    return True


def check_cache(ctx):
    n = 0
    from ..normalise import normalised
    for name, fi0 in ctx.repo.methods(GM, 'GraphicalModel').items():
        fi = normalised(ctx.repo, fi0)
        for s in walk_shallow(fi.node):
            if isinstance(s, ast.Assign) and any(U(t) == 'self.marginals' for t in s.targets):
                n += 1
                ok = U(s.value) == 'self.belief_propagation(self.potentials)'
                if not ok:
                    # or: stored together with the parameters refitted from the very same marginals (a matched pair)
                    ok = any(isinstance(t, ast.Assign) and any(U(x) == 'self.potentials' for x in t.targets) and
                             U(t.value) == 'self.mle(%s)' % U(s.value) for t in fi.body)
                ctx.ob('cache-rule', fi, s, ok,
                       'the marginal cache that project() short-cuts through may only hold belief_propagation(self.potentials) - or marginals '
                       'stored together with self.potentials = self.mle(<the same marginals>); stores `%s`' % U(s.value))
    ctx.floor('stores to the marginal cache inside GraphicalModel', n, 1)


def check_saved_state(ctx):
    """what a re-loaded model answers from: the pickled attributes plus whatever __setstate__ rebuilds"""
    repo = ctx.repo
    meths = repo.methods(GM, 'GraphicalModel')
    hooks = [m for m in ('__getstate__', '__setstate__', '__reduce__', '__reduce_ex__', '__getnewargs__', '__getnewargs_ex__') if m in meths]
    save, load = repo.func(GM, 'GraphicalModel.save'), repo.func(GM, 'GraphicalModel.load')
    ctx.analysed(save)
    ctx.analysed(load)
    dumps = [c for c in calls_in(save.node) if U(c.func).split('.')[-1] in ('dump', 'dumps')]
    loads = [c for c in calls_in(load.node) if U(c.func).split('.')[-1] in ('load', 'loads')]
    if len(dumps) != 1 or len(loads) != 1:
        raise AnalysisError('GraphicalModel.save/load: serialisation call not found')
    subject = save.params[0]
    ctx.ob('saved-state', save, dumps[0], bool(dumps[0].args) and U(dumps[0].args[0]) == subject,
           'save must serialise the model object itself (all of its state); serialises `%s`' % (U(dumps[0].args[0]) if dumps[0].args else ''))
    # the parameter / marginal vectors the model holds are CliqueVectors (a dict subclass): hooks there decide what of them is saved
    CVF = 'src/mbi/clique_vector.py'
    cvm = repo.methods(CVF, 'CliqueVector')
    cv_hooks = [m for m in ('__getstate__', '__setstate__', '__reduce__', '__reduce_ex__', '__getnewargs__', '__copy__', '__deepcopy__') if m in cvm]
    for hname in cv_hooks:
        h = cvm[hname]
        ctx.analysed(h)
        if hname not in ('__reduce__', '__reduce_ex__'):
            raise AnalysisError('CliqueVector customises copying / pickling through %s: not a recognised form' % hname)
        rets = [r for r in ast.walk(h.node) if isinstance(r, ast.Return) and r.value is not None]
        if len(rets) != 1 or not (isinstance(rets[0].value, ast.Tuple) and len(rets[0].value.elts) == 2 and U(rets[0].value.elts[0]) == 'CliqueVector'
                                  and isinstance(rets[0].value.elts[1], ast.Tuple) and len(rets[0].value.elts[1].elts) == 1):
            raise AnalysisError('CliqueVector.%s: not of the form `return (CliqueVector, (<mapping>,))`' % hname)
        arg = U(rets[0].value.elts[1].elts[0]).replace(' ', '')
        current = arg in ('dict(self)', 'dict(self.items())', '{k:self[k]forkinself}', '{cl:self[cl]forclinself}', 'dict(zip(self.keys(),self.values()))')
        stale = arg in ('self.dictionary', 'dict(self.dictionary)', 'self.dictionary.copy()')
        if not current and not stale:
            raise AnalysisError('CliqueVector.%s rebuilds the vector from `%s`, which is in no recognised form' % (hname, arg))
        ctx.ob('saved-state', h, rets[0], current,
               'a saved (or copied) vector is rebuilt from its CURRENT entries; `%s`%s' % (U(rets[0].value.elts[1].elts[0]), '' if current else
               ' is the mapping handed to the constructor: entries re-bound since (`model.potentials[cl] = ..`) are saved with their OLD tables, '
               'the re-loaded model answers from another distribution'), construct='pickled content of a CliqueVector')
    if not hooks:
        ctx.ob('saved-state', load, loads[0], True, 'no custom pickling hooks on GraphicalModel: every attribute is saved and restored as it was')
        return
    if set(hooks) != {'__getstate__', '__setstate__'}:
        raise AnalysisError('GraphicalModel customises pickling through %s: not a recognised form' % hooks)
    gs, ss = meths['__getstate__'], meths['__setstate__']
    ctx.analysed(gs)
    ctx.analysed(ss)
    init = meths['__init__']
    # ---- which attributes are left out ------------------------------------------------------------------------------------
    from ..normalise import Defs, expand
    dropped = None
    gdefs = Defs(gs.body)
    rets = [r for r in ast.walk(gs.node) if isinstance(r, ast.Return) and r.value is not None]
    if len(rets) == 1:
        v = expand(rets[0].value, gdefs, comps=True)
        if isinstance(v, ast.DictComp) and len(v.generators) == 1 and U(v.generators[0].iter) == 'self.__dict__.items()' \
                and isinstance(v.generators[0].target, ast.Tuple) and len(v.generators[0].target.elts) == 2:
            k, val = [U(e) for e in v.generators[0].target.elts]
            g = v.generators[0]
            if U(v.key) == k and U(v.value) == val and len(g.ifs) == 1:
                t = g.ifs[0]
                if isinstance(t, ast.Compare) and len(t.ops) == 1 and isinstance(t.ops[0], ast.NotIn) and U(t.left) == k:
                    seq = expand(t.comparators[0], gdefs)
                    if isinstance(seq, ast.Attribute) and U(seq.value) in ('self', 'GraphicalModel', 'type(self)', 'self.__class__'):
                        # a class-level constant
                        cls_node = gs.cls
                        cdefs = [n_.value for n_ in (cls_node.body if cls_node is not None else []) if isinstance(n_, ast.Assign)
                                 and len(n_.targets) == 1 and U(n_.targets[0]) == seq.attr]
                        if len(cdefs) == 1:
                            seq = cdefs[0]
                    if isinstance(seq, (ast.Tuple, ast.List, ast.Set)) and all(isinstance(e, ast.Constant) and isinstance(e.value, str) for e in seq.elts):
                        dropped = [e.value for e in seq.elts]
                elif isinstance(t, ast.Compare) and len(t.ops) == 1 and isinstance(t.ops[0], ast.NotEq) and U(t.left) == k \
                        and isinstance(t.comparators[0], ast.Constant):
                    dropped = [t.comparators[0].value]
        elif U(v).replace(' ', '') in ('self.__dict__', 'dict(self.__dict__)', 'self.__dict__.copy()'):
            # a copy with deletions
            dropped = []
            name = U(rets[0].value)
            for n in ast.walk(gs.node):
                if isinstance(n, ast.Delete):
                    for t in n.targets:
                        if isinstance(t, ast.Subscript) and U(t.value) == name and isinstance(t.slice, ast.Constant):
                            dropped.append(t.slice.value)
                        else:
                            dropped = None
                            break
                elif isinstance(n, ast.Call) and isinstance(n.func, ast.Attribute) and n.func.attr == 'pop' and U(n.func.value) == name:
                    if n.args and isinstance(n.args[0], ast.Constant) and dropped is not None:
                        dropped.append(n.args[0].value)
                    else:
                        dropped = None
                if dropped is None:
                    break
    if dropped is None:
        raise AnalysisError('GraphicalModel.__getstate__: cannot tell which attributes are left out of the pickle')
    # ---- what each attribute set by the constructor is derived from -----------------------------------------------------------
    params = init.params[1:]
    deps = {}
    for _ in range(4):
        for n in ast.walk(init.node):
            if isinstance(n, ast.Assign):
                src = set()
                for x in ast.walk(n.value):
                    if isinstance(x, ast.Name):
                        src |= {x.id} if x.id in params else deps.get(x.id, set())
                    elif isinstance(x, ast.Attribute) and isinstance(x.value, ast.Name) and x.value.id == 'self':
                        src |= deps.get('self.' + x.attr, set())
                for t in n.targets:
                    for e in (t.elts if isinstance(t, (ast.Tuple, ast.List)) else [t]):
                        key = U(e)
                        deps[key] = deps.get(key, set()) | src
    set_by_init = {k[5:] for k in deps if k.startswith('self.')}
    # ---- the rebuild ---------------------------------------------------------------------------------------------------------
    state = ss.params[1]
    rebuilds = [c for c in calls_in(ss.node) if U(c.func) in ('self.__init__', 'GraphicalModel.__init__')]
    updates = [c for c in calls_in(ss.node) if U(c.func) == 'self.__dict__.update' and len(c.args) == 1 and U(c.args[0]) == state]
    if not updates:
        raise AnalysisError('GraphicalModel.__setstate__: restoring the saved attributes (self.__dict__.update(%s)) not found' % state)
    lost = [a for a in dropped if a in set_by_init]
    if lost and not rebuilds:
        ctx.ob('saved-state', ss, ss.node, False,
               'attributes %s are left out of the pickle and never rebuilt: the re-loaded model cannot answer through the junction tree' % lost)
        return
    if len(rebuilds) > 1:
        raise AnalysisError('GraphicalModel.__setstate__: more than one rebuild')
    if not rebuilds:
        ctx.ob('saved-state', ss, updates[0], True, 'nothing the constructor derives is left out of the pickle')
        return
    call = rebuilds[0]
    after = call.lineno > updates[0].lineno
    args = list(call.args)
    if U(call.func) == 'GraphicalModel.__init__':
        args = args[1:]
    bound = {}
    for p_, a in zip(params, args):
        bound[p_] = a
    for kw in call.keywords:
        if kw.arg is None:
            raise AnalysisError('GraphicalModel.__setstate__: rebuild with **kwargs')
        bound[kw.arg] = kw.value
    # a rebuild AFTER the saved attributes were restored runs the whole constructor again: it overwrites EVERY attribute the constructor
    # sets, so each of them - not only the ones left out - must be given the saved value of what it is derived from
    todo = sorted(set_by_init) if after else lost
    if after:
        # definite findings first (a parameter that is not passed at all), the forms that need recognising afterwards
        todo = sorted(todo, key=lambda a_: (all(p_ in bound for p_ in deps.get('self.' + a_, set())), a_))
    same_order = 'elimination_order' in bound and U(bound['elimination_order']).replace(' ', '') == 'self.elimination_order' \
        and 'elimination_order' not in dropped
    for a in todo:
        need = sorted(deps.get('self.' + a, set()))
        for p_ in need:
            if after and p_ == 'cliques' and p_ in bound and U(bound[p_]).replace(' ', '') == 'self.cliques' and same_order and 'cliques' not in dropped:
                # trusted lemma: the maximal cliques of a triangulation, eliminated in the same order, need no further fill-in - the junction
                # tree built from them is the tree they came from
                ctx.ob('saved-state', ss, call, True, '`%s` is rebuilt from the restored maximal cliques and the same elimination order '
                       '(no further fill-in: the same tree)' % a, construct='rebuild of %s from %s' % (a, p_))
                continue
            if after and p_ == 'elimination_order' and same_order:
                ctx.ob('saved-state', ss, call, True, '`%s` is rebuilt with the elimination order that was actually used (a given order is used as it is)' % a,
                       construct='rebuild of %s from %s' % (a, p_))
                continue
            if after and p_ in bound and U(bound[p_]).replace(' ', '') == 'self.' + p_ and deps.get('self.' + p_) == {p_} and p_ not in dropped:
                ctx.ob('saved-state', ss, call, True, '`%s` is rebuilt from the restored `self.%s`' % (a, p_), construct='rebuild of %s from %s' % (a, p_))
                continue
            if after and p_ not in bound:
                ctx.ob('saved-state', ss, call, False,
                       'the constructor is run again after the saved attributes were restored and sets `%s` from its parameter `%s`; the call does not '
                       'pass `%s`, so the restored value is overwritten by the default' % (a, p_, p_), construct='rebuild of %s from %s' % (a, p_))
                continue
            if p_ not in bound:
                ctx.ob('saved-state', ss, call, False,
                       'the attribute `%s` is left out of the pickle and rebuilt by the constructor, which derives it from `%s`; the rebuild does not '
                       'pass `%s`, so the default is used instead of the saved value: the rebuilt `%s` need not match the saved cliques, potentials '
                       'and cached marginals (e.g. a junction tree re-derived by the greedy order has different cliques and separators)'
                       % (a, p_, p_, a), construct='rebuild of %s from %s' % (a, p_))
                continue
            t = U(bound[p_]).replace(' ', '').replace('"', "'")
            from_state = t in ("%s['%s']" % (state, p_), "%s.get('%s')" % (state, p_))
            if not from_state:
                raise AnalysisError('GraphicalModel.__setstate__: `%s` is rebuilt from `%s`, which is not the saved value %s[%r]' % (p_, t, state, p_))
            ctx.ob('saved-state', ss, call, True, 'the left-out attribute `%s` is rebuilt from the saved `%s`' % (a, p_),
                   construct='rebuild of %s from %s' % (a, p_))

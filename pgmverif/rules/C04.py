"""C04 - the optimised objective, its gradient and smoothness bound are the stated ones (structural clauses).

  exactly-once        setup attaches each measurement to exactly one model clique: a search loop whose action is followed by
                      `break` under the containment test set(proj) <= set(clique)
  sibling-order       the smoothness bound buckets measurements by the same search over the same canonical clique sequence as the
                      loss (otherwise the per-clique sums of the bound and of the loss differ)
  residual-form       diff == (Q x - y) / noise                               (linear-operator normal form)
  loss-form           L2: loss += 1/2 <diff, diff>        L1: loss += sum |diff|
  gradient-form       L2: grad == Q^T diff / noise        L1: grad == Q^T sign(diff) / noise      (= d loss / d x)
  projection-order    x is the datavector of marginal.project(proj) - attribute order of the measurement - and the gradient is
                      accumulated into the clique of the loop as a Factor over that same projected domain
  spelling            fix_measurements turns proj given as str / list / tuple into one tuple of attribute names, replaces an
                      omitted query by the identity of size domain.size(proj) (after normalising proj), and returns what it built
  lipschitz-form      per-measurement term == lambda_max(Q^T Q) * size(clique) / size(proj) / noise^2, summed per clique, max taken
  scan / default idioms   a scan that pops from a list by index keeps the index on the path that pops (exactly-once); a parameter that defaults
                      to None is read only after its resolution (loss-form)
Not decided: that eigsh converges; the numeric value of the bound.
"""
import ast
import re

from ..engines.solvers import find_setup
from ..srcmodel import clone, AnalysisError, U, calls_in, walk_shallow, target_names, names_in
from ..symexpr import SymEval, Atoms, Alg, Rat, sym, const

INF = 'src/mbi/inference.py'


# ----------------------------------------------------------------------------------------------- linear forms
class Lin:
    """sum of coef * (operator chain) applied to a base vector; base may be a non-linear atom ('sign'|'abs', Lin)"""

    def __init__(self, terms=None):
        self.terms = []         # (ops tuple, base, Rat)
        for ops, base, c in (terms or []):
            self._add(ops, base, c)

    def _add(self, ops, base, c):
        for i, (o2, b2, c2) in enumerate(self.terms):
            if o2 == ops and base_eq(b2, base):
                self.terms[i] = (o2, b2, c2 + c)
                return
        self.terms.append((ops, base, c))

    def clean(self):
        return [(o, b, c) for o, b, c in self.terms if not c.iszero()]

    def __add__(self, o):
        return Lin(self.terms + o.terms)

    def __neg__(self):
        return Lin([(o, b, -c) for o, b, c in self.terms])

    def __sub__(self, o):
        return self + (-o)

    def scale(self, r):
        return Lin([(o, b, c * r) for o, b, c in self.terms])

    def apply(self, op):
        return Lin([((op,) + o, b, c) for o, b, c in self.terms])

    def eq(self, other):
        d = (self - other).clean()
        return not d

    def __repr__(self):
        return ' + '.join('%r*%s%s' % (c, ''.join(o + '.' for o in ops), b if isinstance(b, str) else '%s(%r)' % b)
                          for ops, b, c in self.clean()) or '0'


def positive_multiple(a, b):
    """Rat k with b == k * a and k > 0 for positive symbols (noise scales, sizes), or None"""
    ta, tb = a.clean(), b.clean()
    if not ta or len(ta) != len(tb):
        return None
    o0, b0, c0 = ta[0]
    k = None
    for o2, b2, c2 in tb:
        if o2 == o0 and (b2 == b0 if isinstance(b0, str) or isinstance(b2, str) else (b0[0] == b2[0] and b0[1].eq(b2[1]))):
            k = c2 / c0
    if k is None:
        return None
    try:
        pos = k.sign_definite_nonneg() and not k.iszero()
    except Exception:
        pos = False
    if not pos or not b.eq(a.scale(k)):
        return None
    return k


def base_eq(a, b):
    if isinstance(a, str) or isinstance(b, str):
        return a == b
    if a[0] != b[0]:
        return False
    if a[1].eq(b[1]):
        return True
    # sign(k v) = sign(v) for k > 0
    return a[0] == 'sign' and positive_multiple(a[1], b[1]) is not None


class Quad:
    def __init__(self, coef, a, b):
        self.coef, self.a, self.b = coef, a, b

    def eq(self, o):
        if not isinstance(o, Quad):
            return False
        if self.coef.eq(o.coef) and ((self.a.eq(o.a) and self.b.eq(o.b)) or (self.a.eq(o.b) and self.b.eq(o.a))):
            return True
        # bilinearity: c <k1 u, k2 v> = (c k1 k2) <u, v>
        for x, y in ((o.a, o.b), (o.b, o.a)):
            k1, k2 = positive_multiple(self.a, x), positive_multiple(self.b, y)
            if k1 is not None and k2 is not None and self.coef.eq(o.coef * k1 * k2):
                return True
        return False

    def __repr__(self):
        return '%r*<%r, %r>' % (self.coef, self.a, self.b)


class L1Norm:
    def __init__(self, coef, a):
        self.coef, self.a = coef, a

    def eq(self, o):
        if not isinstance(o, L1Norm):
            return False
        if self.coef.eq(o.coef) and (self.a.eq(o.a) or self.a.eq(-o.a)):
            return True
        # positive homogeneity: c * sum|k v| = (c k) * sum|v| for k > 0
        for cand in (o.a, -o.a):
            k = positive_multiple(self.a, cand)
            if k is not None and self.coef.eq(o.coef * k):
                return True
        return False

    def __repr__(self):
        return '%r*sum|%r|' % (self.coef, self.a)


class LinEval:
    def __init__(self, vectors, operators, scalars):
        self.vec = dict(vectors)       # name -> Lin
        self.ops = set(operators)
        self.sc = dict(scalars)        # name -> Alg
        self.opalias = {}              # local name -> operator name (`Q` / `Q^T`)
        self.atoms = Atoms()

    def scalar(self, e):
        return SymEval(self.sc, self.atoms, strict=True).ev(e)

    def is_scalar(self, e):
        try:
            v = self.scalar(e)
            return v
        except AnalysisError:
            return None

    def op_name(self, e):
        if isinstance(e, ast.Name) and e.id in self.opalias:
            return self.opalias[e.id]
        if isinstance(e, ast.Attribute) and e.attr in ('T', 'H') and isinstance(e.value, ast.Name) and e.value.id in self.opalias:
            a = self.opalias[e.value.id]
            return a[:-2] if a.endswith('^T') else a + '^T'
        if isinstance(e, ast.Name) and e.id in self.ops:
            return e.id
        if isinstance(e, ast.Attribute) and e.attr in ('T', 'H') and isinstance(e.value, ast.Name) and e.value.id in self.ops:
            return e.value.id + '^T'
        return None

    def ev(self, e):
        """-> Lin | Quad | L1Norm | ('scalar', Alg)"""
        if isinstance(e, ast.Name) and e.id in self.vec:
            return self.vec[e.id]
        s = self.is_scalar(e)
        if s is not None:
            return ('scalar', s)
        if isinstance(e, ast.IfExp):
            a, b = self.ev(e.body), self.ev(e.orelse)
            if isinstance(a, Lin) and isinstance(b, Lin) and a.eq(b):
                return a
            raise AnalysisError('conditional expression with different branches: `%s`' % U(e))
        if isinstance(e, ast.UnaryOp) and isinstance(e.op, ast.USub):
            v = self.ev(e.operand)
            if isinstance(v, Lin):
                return -v
        if isinstance(e, ast.BinOp):
            if isinstance(e.op, ast.MatMult):
                op = self.op_name(e.left)
                r = self.ev(e.right)
                if op is not None and isinstance(r, Lin):
                    return r.apply(op)
                l = self.ev(e.left)
                if isinstance(l, Lin) and isinstance(r, Lin):
                    return Quad(Rat.const(1), l, r)
                raise AnalysisError('unrecognised matrix product `%s`' % U(e))
            l, r = self.ev(e.left), self.ev(e.right)
            if isinstance(e.op, (ast.Add, ast.Sub)):
                if isinstance(l, Lin) and isinstance(r, Lin):
                    return l + r if isinstance(e.op, ast.Add) else l - r
            if isinstance(e.op, ast.Mult):
                for a, b in ((l, r), (r, l)):
                    if isinstance(a, tuple) and isinstance(b, Lin):
                        return b.scale(a[1].rat())
                    if isinstance(a, tuple) and isinstance(b, Quad):
                        return Quad(b.coef * a[1].rat(), b.a, b.b)
                    if isinstance(a, tuple) and isinstance(b, L1Norm):
                        return L1Norm(b.coef * a[1].rat(), b.a)
            if isinstance(e.op, ast.Div):
                if isinstance(l, Lin) and isinstance(r, tuple):
                    return l.scale(Rat.const(1) / r[1].rat())
                if isinstance(l, Quad) and isinstance(r, tuple):
                    return Quad(l.coef / r[1].rat(), l.a, l.b)
            raise AnalysisError('expression outside the linear-operator dialect: `%s`' % U(e))
        if isinstance(e, ast.Call):
            f = U(e.func)
            last = f.split('.')[-1]
            # Q.dot(x), Q.T.dot(x)
            if last == 'dot' and isinstance(e.func, ast.Attribute) and len(e.args) == 1:
                op = self.op_name(e.func.value)
                r = self.ev(e.args[0])
                if op is not None and isinstance(r, Lin):
                    return r.apply(op)
                l = self.ev(e.func.value)
                if isinstance(l, Lin) and isinstance(r, Lin):
                    return Quad(Rat.const(1), l, r)
            if f in ('np.dot', 'numpy.dot') and len(e.args) == 2:
                l, r = self.ev(e.args[0]), self.ev(e.args[1])
                if isinstance(l, Lin) and isinstance(r, Lin):
                    return Quad(Rat.const(1), l, r)
            if last == 'sign':
                arg = e.args[0] if e.args else e.func.value
                v = self.ev(arg)
                if isinstance(v, Lin):
                    return Lin([((), ('sign', v), Rat.const(1))])
            if last == 'sum' and isinstance(e.func, ast.Attribute) and not e.args:
                inner = e.func.value
                if isinstance(inner, ast.Call) and U(inner.func) in ('abs', 'np.abs', 'numpy.abs', 'np.absolute') and len(inner.args) == 1:
                    v = self.ev(inner.args[0])
                    if isinstance(v, Lin):
                        return L1Norm(Rat.const(1), v)
                v = self.ev(inner)
                if isinstance(v, Quad):
                    return v
            if f in ('np.sum', 'numpy.sum') and len(e.args) == 1:
                inner = e.args[0]
                if isinstance(inner, ast.Call) and U(inner.func) in ('abs', 'np.abs', 'numpy.abs') and len(inner.args) == 1:
                    v = self.ev(inner.args[0])
                    if isinstance(v, Lin):
                        return L1Norm(Rat.const(1), v)
                if isinstance(inner, ast.BinOp) and isinstance(inner.op, (ast.Mult, ast.Pow)):
                    if isinstance(inner.op, ast.Pow) and U(inner.right) == '2':
                        v = self.ev(inner.left)
                        if isinstance(v, Lin):
                            return Quad(Rat.const(1), v, v)
                    if isinstance(inner.op, ast.Mult):
                        a, b = self.ev(inner.left), self.ev(inner.right)
                        if isinstance(a, Lin) and isinstance(b, Lin):
                            return Quad(Rat.const(1), a, b)
            if f in ('np.linalg.norm',) and len(e.args) == 2 and U(e.args[1]) == '1':
                v = self.ev(e.args[0])
                if isinstance(v, Lin):
                    return L1Norm(Rat.const(1), v)
            if f == 'float' and len(e.args) == 1:
                return self.ev(e.args[0])
        raise AnalysisError('expression outside the linear-operator dialect: `%s`' % U(e)[:80])


# ----------------------------------------------------------------------------------------------- rules
def run(ctx):
    repo = ctx.repo
    ctx.explanation = (
        'Structural search rules (exactly-once, sibling order) plus symbolic normal forms: the loss increment and gradient of '
        '_marginal_loss are computed by a small value-based executor in a linear-operator dialect (sums of coefficient * operator '
        'chain * base vector, coefficients rational functions of noise) for both metrics and compared with the calculus identity; '
        'the Lipschitz term is normalised as a rational function; fix_measurements is evaluated abstractly for every spelling of '
        'proj and Q. All rules run on the normalised function (new helpers inlined, locals copy-propagated), so renames, helper '
        'extraction and equivalent spellings do not change the verdict.')
    ctx.rule_text = 'one obligation per search, per form and metric, per spelling of a measurement, per term of the bound'
    ctx.trusted = ['grad 1/2||Ax+b||^2 = A^T(Ax+b); d|u|/du = sign(u)', 'the norm of a projection matrix squared is size(clique)/size(proj)']
    setup = find_setup(repo, INF, 'FactoredInference')
    from ..normalise import normalised
    setup = normalised(repo, setup)
    from ._generic import scan_pop, buffered_accumulation, measurement_keys_kept
    scan_pop(ctx, setup)
    for name_, m_ in sorted(repo.methods(INF, 'FactoredInference').items()):
        measurement_keys_kept(ctx, m_, 'projection-order')
    lip = dense_small_case(ctx, repo.nfunc(INF, 'FactoredInference._lipschitz'))
    buffered_accumulation(ctx, lip, 'lipschitz-form')
    loss = repo.nfunc(INF, 'FactoredInference._marginal_loss')
    fix = repo.nfunc(INF, 'FactoredInference.fix_measurements')
    est = repo.nfunc(INF, 'FactoredInference.estimate')
    s1 = search_loop(ctx, setup, action='append')
    s2 = search_loop(ctx, lip, action='accumulate')
    check_sibling(ctx, setup, s1, lip, s2)
    check_groups_reset(ctx, setup, s1)
    check_loss(ctx, loss)
    check_fix(ctx, fix, est)
    check_lipschitz(ctx, lip, s2)
    ctx.floor('C04 obligations', len(ctx.obligations), 20)


# ---- the search "first clique of a sequence that contains the measurement's attributes" -----------------------------------
def is_subset(test, small, big):
    from .C14 import is_subset_test
    return is_subset_test(test, small, big)


def unpack4(loop):
    """(Q, y, noise, proj) names bound per measurement by this loop: as its target, or unpacked from its target first thing"""
    t = loop.target
    if isinstance(t, ast.Tuple) and len(t.elts) == 4 and all(isinstance(e, ast.Name) for e in t.elts):
        return [e.id for e in t.elts]
    if isinstance(t, ast.Tuple) and len(t.elts) == 2 and isinstance(t.elts[1], ast.Tuple) and len(t.elts[1].elts) == 4:
        return [e.id for e in t.elts[1].elts]
    if isinstance(t, ast.Name):
        for s in loop.body[:3]:
            if isinstance(s, ast.Assign) and len(s.targets) == 1 and isinstance(s.targets[0], ast.Tuple) and \
                    len(s.targets[0].elts) == 4 and isinstance(s.value, ast.Name) and s.value.id == t.id:
                return [e.id for e in s.targets[0].elts]
    return None


def find_search(fi):
    """-> dict(outer loop over measurements, proj name, clique var, sequence expr, kind, action statements, test node)"""
    from ..normalise import Defs
    for outer in walk_shallow(fi.node):
        if not isinstance(outer, ast.For):
            continue
        names = unpack4(outer)
        if names is None:
            continue
        proj = names[3]
        # (a) for cl in SEQ: if set(proj) <= set(cl): ACTION; break
        for inner in ast.walk(outer):
            # `for i, cl in enumerate(SEQ)`: the same search, with the position of the clique in SEQ at hand
            tgt, seq_, ivar = inner.target if isinstance(inner, ast.For) else None, inner.iter if isinstance(inner, ast.For) else None, None
            if isinstance(inner, ast.For) and isinstance(tgt, ast.Tuple) and len(tgt.elts) == 2 and all(isinstance(e_, ast.Name) for e_ in tgt.elts) \
                    and isinstance(seq_, ast.Call) and U(seq_.func) == 'enumerate' and len(seq_.args) == 1 and not seq_.keywords:
                ivar, tgt, seq_ = tgt.elts[0].id, tgt.elts[1], seq_.args[0]
            if isinstance(inner, ast.For) and inner is not outer and isinstance(tgt, ast.Name):
                ifs = [s for s in inner.body if isinstance(s, ast.If)]
                if len(ifs) == 1 and len(inner.body) == 1 and is_subset(ifs[0].test, proj, tgt.id) is not None and \
                        any(proj in names_in(n) for n in ast.walk(ifs[0].test)):
                    return dict(outer=outer, inner=inner, proj=proj, cl=tgt.id, seq=seq_, kind='loop',
                                body=ifs[0].body, test=ifs[0], names=names, index_var=ivar)
        # (b) cl = next((c for c in SEQ if set(proj) <= set(c)), None)
        for s in ast.walk(outer):
            if isinstance(s, ast.Assign) and len(s.targets) == 1 and isinstance(s.targets[0], ast.Name) and \
                    isinstance(s.value, ast.Call) and U(s.value.func) == 'next' and s.value.args and \
                    isinstance(s.value.args[0], ast.GeneratorExp) and len(s.value.args[0].generators) == 1:
                g = s.value.args[0].generators[0]
                if isinstance(g.target, ast.Name) and U(s.value.args[0].elt) == g.target.id and len(g.ifs) == 1:
                    from ..normalise import expand
                    g.ifs[0] = expand(g.ifs[0], Defs(outer.body), keep=(proj, g.target.id))

                    class _Idx(ast.NodeTransformer):
                        # (a, b, c)[2] is c
                        def visit_Subscript(self, n_):
                            self.generic_visit(n_)
                            if isinstance(n_.value, (ast.Tuple, ast.List)) and isinstance(n_.slice, ast.Constant) and isinstance(n_.slice.value, int) \
                                    and -len(n_.value.elts) <= n_.slice.value < len(n_.value.elts):
                                return n_.value.elts[n_.slice.value]
                            return n_
                    g.ifs[0] = _Idx().visit(g.ifs[0])
                    # the result may be copied into other names: follow single copies
                    cl = s.targets[0].id
                    stmts = following(outer, s)
                    for t in stmts:
                        if isinstance(t, ast.Assign) and len(t.targets) == 1 and isinstance(t.targets[0], ast.Name) and \
                                isinstance(t.value, ast.Name) and t.value.id == cl:
                            cl = t.targets[0].id
                    return dict(outer=outer, inner=s, proj=proj, cl=cl, seq=g.iter, kind='next', gen=g,
                                body=stmts, test=g.ifs[0], names=names, genvar=g.target.id)
    # (c) clique-major sweep: every measurement goes into a pending list; the cliques are then swept in the searched order and each takes
    #     the pending measurements it contains (removing them).  A measurement is taken by the FIRST clique of the sequence that contains it,
    #     and a clique receives its measurements in list order: the same assignment as the measurement-major search.
    sw = find_sweep(fi)
    if sw is not None:
        return sw
    raise AnalysisError('%s: clique search not found' % fi.qualname)


def find_sweep(fi):
    body = fi.body
    for outer in [s_ for s_ in body if isinstance(s_, ast.For)]:
        names = unpack4(outer)
        if names is None:
            continue
        # the measurement tuple is appended to a local list, unconditionally, at the top level of the loop body
        apps = [s_ for s_ in outer.body if isinstance(s_, ast.Expr) and isinstance(s_.value, ast.Call) and isinstance(s_.value.func, ast.Attribute)
                and s_.value.func.attr == 'append' and isinstance(s_.value.func.value, ast.Name) and len(s_.value.args) == 1]
        for ap in apps:
            P = ap.value.func.value.id
            arg = ap.value.args[0]
            if isinstance(arg, ast.Name):
                ds = [a_.value for a_ in outer.body if isinstance(a_, ast.Assign) and len(a_.targets) == 1 and U(a_.targets[0]) == arg.id]
                arg = ds[-1] if ds else arg
            if not (isinstance(arg, ast.Tuple) and [U(e_) for e_ in arg.elts] == names):
                continue
            inits = [a_ for a_ in body[:body.index(outer)] if isinstance(a_, ast.Assign) and len(a_.targets) == 1 and U(a_.targets[0]) == P
                     and isinstance(a_.value, ast.List) and not a_.value.elts]
            if len(inits) != 1:
                continue
            for sweep in [s_ for s_ in body[body.index(outer) + 1:] if isinstance(s_, ast.For) and isinstance(s_.target, ast.Name)]:
                cl = sweep.target.id
                whiles = [w_ for w_ in sweep.body if isinstance(w_, ast.While)]
                if len(whiles) != 1:
                    continue
                w = whiles[0]
                from ..srcmodel import canon_compare
                t = canon_compare(w.test)
                if not (isinstance(t, ast.Compare) and len(t.ops) == 1 and isinstance(t.ops[0], ast.Lt) and isinstance(t.left, ast.Name)
                        and U(t.comparators[0]).replace(' ', '') == 'len(%s)' % P):
                    continue
                i = t.left.id
                ifs = [x for x in w.body if isinstance(x, ast.If)]
                if len(ifs) != 1 or len(w.body) != 1:
                    continue
                locs = {a_.targets[0].id: a_.value for a_ in sweep.body if isinstance(a_, ast.Assign) and len(a_.targets) == 1
                        and isinstance(a_.targets[0], ast.Name)}

                class Sub(ast.NodeTransformer):
                    def visit_Subscript(self, n_):
                        self.generic_visit(n_)
                        if U(n_).replace(' ', '') == '%s[%s][3]' % (P, i):
                            return ast.Name(id=names[3], ctx=ast.Load())
                        return n_

                    def visit_Name(self, n_):
                        if isinstance(n_.ctx, ast.Load) and n_.id in locs and n_.id != i:
                            return clone(locs[n_.id])
                        return n_
                test = ast.If(test=Sub().visit(clone(ifs[0].test)), body=ifs[0].body, orelse=ifs[0].orelse)
                ast.copy_location(test, ifs[0])
                ast.fix_missing_locations(test)
                takes = [c_ for c_ in ast.walk(ifs[0]) if isinstance(c_, ast.Call) and isinstance(c_.func, ast.Attribute) and c_.func.attr == 'append'
                         and U(c_.func.value).replace(' ', '') == 'self.groups[%s]' % cl and len(c_.args) == 1
                         and U(c_.args[0]).replace(' ', '') == '%s.pop(%s)' % (P, i)]
                if len(takes) != 1 or is_subset(test.test, names[3], cl) is None:
                    continue
                zero = [a_ for a_ in sweep.body if isinstance(a_, ast.Assign) and len(a_.targets) == 1 and U(a_.targets[0]) == i and U(a_.value) == '0'
                        and sweep.body.index(a_) < sweep.body.index(w)]
                if len(zero) != 1:
                    continue
                return dict(outer=outer, inner=sweep, proj=names[3], cl=cl, seq=sweep.iter, kind='sweep', body=ifs[0].body, test=test, names=names)
    return None


def following(outer, stmt):
    """statements executed after `stmt` in the same iteration (flattening the `if <found>:` guard around them)"""
    out = []

    def walk(block):
        found = False
        for s in block:
            if found:
                out.append(s)
            elif s is stmt:
                found = True
            elif any(n is stmt for n in ast.walk(s)):
                for f in ('body', 'orelse'):
                    if walk(getattr(s, f, []) or []):
                        found = True
        return found
    walk(outer.body)
    flat = []
    for s in out:
        if isinstance(s, ast.If) and ('is not None' in U(s.test) or 'is None' in U(s.test)):
            flat.extend(s.body if 'is not None' in U(s.test) else s.orelse)
        else:
            flat.append(s)
    return flat


def search_loop(ctx, fi, action):
    ctx.analysed(fi)
    sr = find_search(fi)
    proj, cl = sr['proj'], sr['cl']
    if sr['kind'] == 'sweep':
        ifs = sr['test']
        ctx.ob('exactly-once', fi, ifs, bool(is_subset(ifs.test, proj, cl)),
               'a measurement belongs to a clique that contains its attributes: test must be set(%s) <= set(%s)' % (proj, cl))
        ctx.ob('exactly-once', fi, sr['inner'], True,
               'clique-major sweep: a measurement is removed from the pending list by the first clique of the sequence that contains it (the scan '
               'itself is judged by the scan idiom rule)', construct='first match by removal in ' + fi.name)
        return sr
    if sr['kind'] == 'loop':
        ifs = sr['test']
        ctx.ob('exactly-once', fi, ifs, bool(is_subset(ifs.test, proj, cl)),
               'a measurement belongs to a clique that contains its attributes: test must be set(%s) <= set(%s)' % (proj, cl))
        body = sr['body']
        has_break = bool(body) and isinstance(body[-1], ast.Break) and not ifs.orelse and not sr['inner'].orelse
        ctx.ob('exactly-once', fi, body[-1] if body else sr['inner'], has_break,
               'the search must stop at the first containing clique: without `break` the measurement is counted once per containing clique',
               construct='break after the action in ' + fi.name)
    else:
        ctx.ob('exactly-once', fi, sr['inner'], bool(is_subset(sr['test'], proj, sr['genvar'])),
               'a measurement belongs to a clique that contains its attributes: the generator filter must be set(%s) <= set(%s)' % (proj, sr['genvar']))
        ctx.ob('exactly-once', fi, sr['inner'], True, 'next(...) takes the first containing clique only',
               construct='first match by next() in ' + fi.name)
    return sr


def per_key_reset(repo, setup, attr='groups'):
    """`self.<attr>` kept on the object and emptied KEY BY KEY by setup: `for k in <the model's cliques>: self.<attr>[k] = []` before anything
    is attached.  Entries of earlier calls under other keys stay behind, which is harmless only if nothing ever walks the whole container.
    -> None (no such loop), or (ok, explanation, loop node)"""
    loops = [s_ for s_ in setup.body if isinstance(s_, ast.For) and len(s_.body) == 1 and isinstance(s_.body[0], ast.Assign)
             and len(s_.body[0].targets) == 1 and isinstance(s_.body[0].targets[0], ast.Subscript)
             and U(s_.body[0].targets[0].value) == 'self.' + attr and U(s_.body[0].targets[0].slice) == U(s_.target)
             and U(s_.body[0].value).replace(' ', '') in ('[]', 'list()')]
    if not loops:
        return None
    lp = loops[0]
    seq = normalise_seq(setup, lp.iter, setup)
    import re
    m = re.fullmatch(r'(?:sorted|list|tuple)\((.*?)(?:,key=.*)?\)', seq)
    core = m.group(1) if m else seq
    if core != 'self.model.cliques':
        return (False, 'the keys that are emptied are `%s`, not the cliques of the model the measurements are then attached to (self.model.cliques): a '
                       'model clique that is not among them keeps the measurements of the previous call' % seq, lp)
    cls = setup.cls.name if setup.cls is not None else None
    for q, other in setup.module.funcs.items():
        if other.cls is None or other.cls.name != cls:
            continue
        for n in ast.walk(other.node):
            whole = None
            if isinstance(n, (ast.For, ast.comprehension)) and U(n.iter).replace(' ', '') in ('self.' + attr, 'self.%s.items()' % attr, 'self.%s.values()' % attr,
                                                                                              'self.%s.keys()' % attr):
                whole = n
            if isinstance(n, ast.Call) and U(n.func) in ('len', 'list', 'sum', 'dict') and n.args and U(n.args[0]).startswith('self.' + attr) \
                    and '[' not in U(n.args[0]):
                whole = n
            if whole is not None:
                return (False, '`%s` in %s walks the whole container, which also holds the entries of earlier calls' % (U(whole)[:60], q), lp)
    return (True, 'every clique of the current model is emptied before measurements are attached; entries under other keys are never read', lp)


def check_groups_reset(ctx, setup, s1):
    """the per-clique groups are rebuilt from empty on every setup, before the first measurement is attached"""
    pk = per_key_reset(ctx.repo, setup)
    if pk is not None and not any(isinstance(s, ast.Assign) and any(U(t) == 'self.groups' for t in s.targets) for s in setup.body):
        ok, why, lp = pk
        ok = ok and setup.body.index(lp) < (setup.body.index(s1['outer']) if s1['outer'] in setup.body else 10 ** 9)
        ctx.ob('exactly-once', setup, lp, ok, 'the groups are emptied key by key: %s' % why, construct='per-key reset of self.groups in ' + setup.name)
        return
    resets = [s for s in setup.body if isinstance(s, ast.Assign) and any(U(t) == 'self.groups' for t in s.targets)]
    ok = False
    where = setup.node
    if resets:
        where = resets[-1]
        v = resets[-1].value
        empty = (isinstance(v, ast.Call) and U(v.func) in ('defaultdict', 'dict', 'collections.defaultdict')) or \
            (isinstance(v, ast.Dict) and not v.keys) or (isinstance(v, ast.DictComp) and U(v.value) in ('[]', 'list()'))
        ok = empty and resets[-1].lineno <= s1['outer'].lineno
    ctx.ob('exactly-once', setup, where, ok,
           'setup must rebind self.groups to a fresh empty container (unconditionally, before attaching measurements): groups that '
           'survive from an earlier call make old measurements count again in the loss',
           construct=U(where)[:80] if resets else 'no reset of self.groups in ' + setup.name)


def normalise_seq(fi, expr, setup_fi):
    """the canonical clique sequence a search runs over: `model` ~ self.model (once published), local aliases of self
    attributes and of sorted(...) sequences resolved (last definition before the use), model.domain ~ self.domain"""
    import copy
    alias = {}
    for s in walk_shallow(fi.node):
        if isinstance(s, ast.Assign) and len(s.targets) == 1 and U(s.targets[0]) == 'self.model' and isinstance(s.value, ast.Name):
            alias[s.value.id] = 'self.model'
    # execution order of statements (line numbers are useless once helpers have been inlined)
    order = {}
    for i, n in enumerate(ast.walk(fi.node)):
        order[id(n)] = i
    pos = {}
    k = [0]

    def number(block):
        for st in block:
            k[0] += 1
            pos[id(st)] = k[0]
            for ch in ast.walk(st):
                pos.setdefault(id(ch), k[0])
            for f in ('body', 'orelse', 'finalbody'):
                number(getattr(st, f, []) or [])
    number(fi.node.body)
    multi = {}
    for s in walk_shallow(fi.node):
        if isinstance(s, ast.Assign) and len(s.targets) == 1 and isinstance(s.targets[0], ast.Name):
            multi.setdefault(s.targets[0].id, []).append(s)
    use_line = pos.get(id(expr), 10 ** 9)

    class Sub(ast.NodeTransformer):
        def __init__(self, depth=0):
            self.depth = depth

        def visit_Name(self, node):
            if node.id in alias:
                return ast.parse(alias[node.id], mode='eval').body
            if self.depth > 5:
                return node
            ds = sorted([d for d in multi.get(node.id, []) if pos.get(id(d), 0) <= use_line], key=lambda d: pos.get(id(d), 0))
            if ds:
                v = ds[-1].value
                ok = isinstance(v, (ast.Attribute, ast.Name)) or (isinstance(v, ast.Call) and U(v.func) in ('sorted', 'list', 'tuple'))
                if ok and node.id not in {n.id for n in ast.walk(v) if isinstance(n, ast.Name)}:
                    return Sub(self.depth + 1).visit(clone(v))
            return node
    text = U(Sub().visit(clone(expr)))
    ctor = [c for c in calls_in(setup_fi.node) if isinstance(c.func, ast.Name) and c.func.id == 'GraphicalModel']
    if ctor and U(ctor[0].args[0]) == 'self.domain':
        text = text.replace('self.model.domain', 'self.domain')
    return text.replace(' ', '')


def check_sibling(ctx, setup, s1, lip, s2):
    a = normalise_seq(setup, s1['seq'], setup)
    b = normalise_seq(lip, s2['seq'], setup)
    ctx.ob('sibling-order', lip, s2['inner'], a == b,
           'loss groups measurements by the first containing clique of `%s`; the bound searches `%s` - the two assignments must coincide'
           % (a, b))
    # the matched clique receives the measurement tuple of this iteration
    cl = s1['cl']
    grp = [c for s in s1['body'] for c in calls_in(s) if isinstance(c.func, ast.Attribute) and c.func.attr == 'append'
           and U(c.func.value).replace(' ', '') == 'self.groups[%s]' % cl]
    if not grp and any('self.groups[%s]' % cl in U(n).replace(' ', '') for s in s1['body'] for n in ast.walk(s) if isinstance(n, ast.Call)):
        raise AnalysisError('%s: the measurement is attached to self.groups[%s] in a way this analysis does not recognise (not a plain append)' % (setup.qualname, cl))
    ctx.ob('exactly-once', setup, grp[0] if grp else s1['inner'], len(grp) == 1,
           'the matched clique `%s` receives the measurement: self.groups[%s].append(<measurement>)' % (cl, cl))
    if grp and s1['kind'] == 'sweep':
        ctx.ob('exactly-once', setup, grp[0], True,
               'the stored measurement is the pending entry, i.e. the tuple (%s) the measurement loop put there' % ','.join(s1['names']))
    elif grp:
        from ..normalise import Defs, expand
        m = expand(grp[0].args[0], Defs(s1['outer'].body))
        want = '(%s)' % ','.join(s1['names'])
        ok = U(m).replace(' ', '') == want
        detail = ''
        if isinstance(m, ast.Tuple) and len(m.elts) == 4:
            # whitening at setup: the tuple may hold (Q*a, y*b, n', proj) as long as the residual the loss will form from it,
            # (Q' x - y') / n', is still (Q x - y) / noise:  a / n' == b / n' == 1 / noise
            ok, detail = whitened_ok(s1['outer'].body, m, s1['names'])
        ctx.ob('exactly-once', setup, grp[0], ok,
               'the stored measurement must be the tuple %s of the loop (or a rescaling of it that leaves (Q x - y)/noise unchanged); '
               'stores `%s`%s' % (want, U(m), detail))


def whitened_ok(body, m, names):
    Qn, yn, nn, pn = names
    scale = {Qn: const(1), yn: const(1), nn: sym(nn)}
    ev = SymEval({nn: sym(nn)}, Atoms(), strict=True)
    for st in body:
        if any(st is x or m in list(ast.walk(st)) for x in ()):
            break
        tgt = val = None
        if isinstance(st, ast.Assign) and len(st.targets) == 1 and isinstance(st.targets[0], ast.Name) and st.targets[0].id in (Qn, yn):
            tgt, val = st.targets[0].id, st.value
        elif isinstance(st, ast.AugAssign) and isinstance(st.target, ast.Name) and st.target.id in (Qn, yn) and isinstance(st.op, (ast.Mult, ast.Div)):
            tgt = st.target.id
            val = ast.BinOp(left=ast.Name(id=tgt, ctx=ast.Load()), op=st.op, right=st.value)
        if tgt is None:
            continue
        k = None
        if isinstance(val, ast.BinOp) and isinstance(val.op, (ast.Mult, ast.Div)):
            l, r = val.left, val.right
            try:
                if isinstance(l, ast.Name) and l.id == tgt:
                    k = ev.ev(r)
                    k = const(1) / k if isinstance(val.op, ast.Div) else k
                elif isinstance(r, ast.Name) and r.id == tgt and isinstance(val.op, ast.Mult):
                    k = ev.ev(l)
            except AnalysisError:
                k = None
        if k is None:
            return False, '; `%s` is not a scalar rescaling by the noise level' % U(st)
        scale[tgt] = scale[tgt] * k
    e_Q, e_y, e_n, e_p = m.elts
    if U(e_Q) != Qn or U(e_y) != yn or U(e_p) != pn:
        return False, ''
    try:
        n_eff = ev.ev(e_n)
    except AnalysisError:
        return False, '; stored noise level `%s` is not a scalar expression of the noise' % U(e_n)
    want = const(1) / sym(nn)
    a, b = scale[Qn] / n_eff, scale[yn] / n_eff
    ok = a.eq(want) and b.eq(want)
    return ok, '; effective residual (%r Q x - %r y), required (1/%s)(Q x - y)' % (a, b, nn)


# ---- loss, gradient -------------------------------------------------------------------------------------------------------------
class Fact:
    """a factor-valued token: ('marg', clique) | ('proj', base, attrs)"""
    def __init__(self, kind, a, b=None):
        self.kind, self.a, self.b = kind, a, b

    def same(self, o):
        return isinstance(o, Fact) and self.kind == o.kind and self.b == o.b and \
            (self.a.same(o.a) if isinstance(self.a, Fact) else self.a == o.a)

    def __repr__(self):
        return '%s[%s]' % (self.a, self.b) if self.kind == 'marg' else '%r.project(%s)' % (self.a, self.b)


class LossExec:
    """executes the per-measurement statements of a loss function for one metric"""

    def __init__(self, fi, marg, cl, Q, y, noise, metric, noise_value=None):
        self.fi, self.marg, self.cl, self.Q, self.y, self.noise, self.metric = fi, marg, cl, Q, y, noise, metric
        # noise_value: what the third field of a stored measurement holds, as a function of the measurement's noise scale (symbol `noise`)
        self.ev = LinEval({y: Lin([((), 'y', Rat.const(1))])}, {Q}, {noise: sym(noise) if noise_value is None else noise_value})
        self.facts = {}          # name -> Fact
        self.xsrc = {}           # vector name -> Fact it is the data vector of
        self.losses, self.grads = [], []
        self.metric_tests = []
        self.forms = {}          # name -> Quad | L1Norm (a loss term kept in a local)
        self.tuples = {}         # name -> element expressions of a tuple display
        self.ctors = {}          # name -> Factor(...) construction kept in a local

    def fact(self, e):
        if isinstance(e, ast.Name):
            return self.facts.get(e.id)
        if isinstance(e, ast.Subscript) and U(e.value) == self.marg:
            return Fact('marg', self.marg, U(e.slice))
        if isinstance(e, ast.Call) and isinstance(e.func, ast.Attribute) and e.func.attr == 'project' and len(e.args) == 1 and not e.keywords:
            b = self.fact(e.func.value)
            if b is not None:
                return Fact('proj', b, U(e.args[0]))
        return None

    def vector(self, e):
        """Lin of a data vector expression `<fact>.datavector()` (registers its source) or None"""
        if isinstance(e, ast.Call) and isinstance(e.func, ast.Attribute) and e.func.attr == 'datavector' and not e.args:
            f = self.fact(e.func.value)
            if f is not None:
                key = 'x'
                self.xfact = f
                return Lin([((), 'x', Rat.const(1))])
        return None

    def value(self, e):
        # expressions may contain `<fact>.datavector()` inline: evaluate with a hook
        ev = self.ev
        me = self
        orig = ev.ev

        def patched(node):
            v = me.vector(node)
            if v is not None:
                return v
            if isinstance(node, ast.Name) and node.id in me.forms:
                return me.forms[node.id]
            return orig(node)
        ev.ev = patched
        try:
            return ev.ev(e)
        finally:
            ev.ev = orig

    def is_metric_test(self, t):
        return isinstance(t, ast.Compare) and len(t.ops) == 1 and isinstance(t.comparators[0], ast.Constant) and \
            t.comparators[0].value in ('L1', 'L2') and isinstance(t.ops[0], (ast.Eq, ast.NotEq))

    def run(self, stmts):
        for s in stmts:
            self.stmt(s)

    def stmt(self, s):
        if isinstance(s, ast.Assign) and len(s.targets) == 1 and isinstance(s.targets[0], ast.Name):
            n = s.targets[0].id
            f = self.fact(s.value)
            if f is not None:
                self.facts[n] = f
                return
            if isinstance(s.value, ast.Tuple):
                self.tuples[n] = list(s.value.elts)
                return
            op = self.ev.op_name(s.value)
            if op is not None:
                self.ev.opalias[n] = op          # a local holding the query operator or its transpose (`Qt = Q.T`)
                return
            if isinstance(s.value, ast.Call) and (U(s.value.func).split('.')[-1] == 'Factor') and len(s.value.args) == 2:
                self.ctors[n] = s.value
                return
            v = self.value(s.value)
            if isinstance(v, tuple):
                self.ev.sc[n] = v[1]
            elif isinstance(v, Lin):
                self.ev.vec[n] = v
            elif isinstance(v, (Quad, L1Norm)):
                self.forms[n] = v
            else:
                raise AnalysisError('%s: `%s` is neither a vector nor a scalar' % (self.fi.qualname, U(s)[:60]))
            return
        if isinstance(s, ast.Assign) and len(s.targets) == 1 and isinstance(s.targets[0], ast.Tuple) and isinstance(s.value, ast.Name):
            if s.value.id in self.tuples and len(self.tuples[s.value.id]) == len(s.targets[0].elts):
                for t, v in zip(s.targets[0].elts, self.tuples[s.value.id]):
                    fake = ast.copy_location(ast.Assign(targets=[t], value=v), s)
                    self.stmt(fake)
            return          # (otherwise) the measurement unpacking
        if isinstance(s, ast.AugAssign) and isinstance(s.target, ast.Name) and isinstance(s.op, ast.Add):
            self.losses.append((s, self.value(s.value)))
            return
        if isinstance(s, ast.AugAssign) and isinstance(s.target, ast.Subscript):
            self.grads.append(s)
            return
        if isinstance(s, (ast.Expr, ast.Pass)):
            return
        if isinstance(s, ast.Assign) and all(isinstance(x, ast.Attribute) and U(x.value) == 'self'
                                             for t_ in s.targets for x in (t_.elts if isinstance(t_, (ast.Tuple, ast.List)) else [t_])):
            return        # bookkeeping on the estimator object (cache resets and the like): no part of the loss value
        if isinstance(s, ast.If):
            if self.is_metric_test(s.test):
                self.metric_tests.append(s.test)
                c = s.test.comparators[0].value
                hit = (c == self.metric) == isinstance(s.test.ops[0], ast.Eq)
                self.run(s.body if hit else s.orelse)
                return
            saved = (dict(self.ev.vec), dict(self.ev.sc), dict(self.facts))
            self.run(s.body)
            a = dict(self.ev.vec)
            af = dict(self.facts)
            self.ev.vec, self.ev.sc, self.facts = dict(saved[0]), dict(saved[1]), dict(saved[2])
            self.run(s.orelse)
            for k in set(a) | set(self.ev.vec):
                if k not in a or k not in self.ev.vec or not a[k].eq(self.ev.vec[k]):
                    raise AnalysisError('%s: branches of `if %s` define `%s` differently' % (self.fi.qualname, U(s.test)[:40], k))
            for k in set(af) | set(self.facts):
                if k not in af or k not in self.facts or not af[k].same(self.facts[k]):
                    # a factor chosen differently on the two paths (e.g. projection skipped on one)
                    self.facts[k] = Fact('mixed', '%s | %s' % (af.get(k), self.facts.get(k)))
            return
        raise AnalysisError('%s: unsupported statement `%s`' % (self.fi.qualname, U(s)[:60]))


def stored_third_field(ctx, fi, noise):
    """`self.measurements` as the class stores it: the caller's list itself, or a list rebuilt tuple by tuple
    `[(Q, y, f(noise), cl) for Q, y, noise, cl in measurements]` - then the third field read back by the loss holds f(noise).
    -> None (the noise scale itself) or the Alg f(sym(<loop name>)) with the loop's own name standing for the measurement's noise scale"""
    stores = []
    for q_, f_ in fi.module.funcs.items():
        if f_.cls is fi.cls and fi.cls is not None:
            for a_ in ast.walk(f_.node):
                if isinstance(a_, ast.Assign) and any(U(t_) == 'self.measurements' for t_ in a_.targets):
                    stores.append((f_, a_))
    out = None
    for f_, a_ in stores:
        v = a_.value
        if isinstance(v, ast.Name):
            continue
        if isinstance(v, ast.ListComp) and len(v.generators) == 1 and not v.generators[0].ifs and isinstance(v.generators[0].target, ast.Tuple) \
                and len(v.generators[0].target.elts) == 4 and isinstance(v.elt, ast.Tuple) and len(v.elt.elts) == 4 \
                and all(isinstance(e_, ast.Name) for e_ in v.generators[0].target.elts):
            a0, a1, n_, c_ = [e_.id for e_ in v.generators[0].target.elts]
            e0, e1, e2, e3 = v.elt.elts
            if U(e0) == a0 and U(e1) == a1 and U(e3) == c_:
                if U(e2) == n_:
                    continue
                val = SymEval({n_: sym(noise)}, Atoms(), strict=True).ev(e2)
                if out is not None and not out.eq(val):
                    raise AnalysisError('%s: self.measurements is stored in two different forms' % fi.qualname)
                out = val
                continue
        raise AnalysisError('%s: the stored measurement list `%s` is in no recognised form' % (fi.qualname, U(v)[:70]))
    if out is not None:
        ctx.note('the third field of a stored measurement holds %r of its noise scale (read off the store of self.measurements)' % (out,))
    return out


def check_loss(ctx, fi):
    """Works on the three copies of _marginal_loss: the two estimators' (loop over cliques, then over the clique's
    group, with a projection) and PublicInference's (one loop over self.measurements, no projection)."""
    ctx.analysed(fi)
    from ._generic import default_resolved_first
    default_resolved_first(ctx, fi)
    marg = fi.params[1]
    tops = [s for s in fi.body if isinstance(s, ast.For)]
    if len(tops) != 1:
        raise AnalysisError('%s: main loop not found' % fi.qualname)
    top = tops[0]
    pre_stmts = []
    names = unpack4(top)
    if names is None and isinstance(top.target, ast.Name):
        outer = top
        cl = outer.target.id
        inner = [s for s in outer.body if isinstance(s, ast.For) and unpack4(s) is not None]
        if len(inner) != 1:
            raise AnalysisError('%s: loop over the measurements of a clique not found' % fi.qualname)
        inner = inner[0]
        Q, y, noise, proj = unpack4(inner)
        ctx.ob('projection-order', fi, inner, U(inner.iter).replace(' ', '') == 'self.groups[%s]' % cl and U(outer.iter) == marg,
               'the measurements evaluated for clique `%s` must be the ones setup attached to it (self.groups[%s])' % (cl, cl))
        pre_stmts = [s for s in outer.body if s is not inner and isinstance(s, ast.Assign) and len(s.targets) == 1
                     and isinstance(s.targets[0], ast.Name)]
        shape = 'grouped'
    elif names is not None:
        inner = top
        Q, y, noise, cl = names
        proj = None
        ctx.ob('projection-order', fi, inner, U(inner.iter) == 'self.measurements',
               'every stored measurement contributes exactly once (loop over self.measurements)')
        shape = 'flat'
    else:
        raise AnalysisError('%s: unrecognised loop structure' % fi.qualname)
    noise_value = None
    if shape == 'flat':
        noise_value = stored_third_field(ctx, fi, noise)
    D = Lin([(((Q,), 'x', Rat.const(1) / Rat.sym(noise))), ((), 'y', Rat.const(-1) / Rat.sym(noise))])
    for metric in ('L1', 'L2'):
        ex = LossExec(fi, marg, cl, Q, y, noise, metric, noise_value)
        ex.xfact = None
        for s in pre_stmts:
            f = ex.fact(s.value)
            if f is not None:
                ex.facts[s.targets[0].id] = f
        ex.run(inner.body)
        # ---- which metric decides the branch: the one REQUESTED for this evaluation (the metric parameter, defaulted to the engine's own when None) -----
        if metric == 'L1':
            mp = next((p_ for p_ in fi.params if p_ == 'metric'), None)
            for t_ in ex.metric_tests:
                left = U(t_.left)
                if mp is not None and left != mp:
                    if left == 'self.' + mp:
                        ctx.ob('loss-form', fi, t_, False, 'the branch for the absolute / squared residual is chosen by `%s`, the ENGINE\'s metric, not by the metric '
                               'requested for this evaluation (`%s`, which defaults to it): an explicit metric= is ignored' % (left, mp),
                               construct='metric test of the loss')
                    else:
                        raise AnalysisError('%s: the loss form is chosen by `%s`, which is not the metric parameter' % (fi.qualname, U(t_)[:60]))
        # ---- where x comes from ---------------------------------------------------------------------------------
        xf = ex.xfact
        if shape == 'grouped':
            want = Fact('proj', Fact('marg', marg, cl), proj)
            what = 'x must be the data vector of %s[%s].project(%s): Factor.project answers in the attribute order of the measurement' % (marg, cl, proj)
        else:
            want = Fact('marg', marg, cl)
            what = 'x must be the data vector of %s[%s], the marginal the measurement was taken on' % (marg, cl)
        ctx.ob('projection-order', fi, inner, xf is not None and xf.same(want), '[%s] %s; source: %r' % (metric, what, xf),
               construct='source of x [%s]' % metric)
        # ---- loss ---------------------------------------------------------------------------------------------------
        if len(ex.losses) != 1:
            raise AnalysisError('%s[%s]: expected one loss increment, found %d' % (fi.qualname, metric, len(ex.losses)))
        s, v = ex.losses[0]
        want_l = Quad(Rat.const(1) / Rat.const(2), D, D) if metric == 'L2' else L1Norm(Rat.const(1), D)
        ctx.ob('loss-form', fi, s, hasattr(v, 'eq') and not isinstance(v, Lin) and v.eq(want_l),
               '[%s] loss increment: expected %r, source %r' % (metric, want_l, v), construct='%s [%s]' % (U(s), metric))
        ctx.ob('residual-form', fi, s, hasattr(v, 'eq') and not isinstance(v, Lin) and v.eq(want_l),
               '[%s] the residual entering the loss is (Q x - y)/noise' % metric, construct='residual [%s]' % metric)
        # ---- gradient ---------------------------------------------------------------------------------------------------
        if len(ex.grads) != 1:
            raise AnalysisError('%s[%s]: expected one gradient accumulation' % (fi.qualname, metric))
        g = ex.grads[0]
        wantg = D.apply(Q + '^T').scale(Rat.const(1) / Rat.sym(noise)) if metric == 'L2' else \
            Lin([((Q + '^T',), ('sign', D), Rat.const(1) / Rat.sym(noise))])
        val = g.value
        if isinstance(val, ast.Name) and val.id in ex.ctors:
            val = ex.ctors[val.id]
        gv = None
        dom_ok = False
        if isinstance(val, ast.Call) and len(val.args) == 2:
            gv = ex.value(val.args[1])
            d = val.args[0]
            if isinstance(d, ast.Attribute) and d.attr == 'domain':
                df = ex.fact(d.value)
                dom_ok = df is not None and xf is not None and df.same(xf)
        ok_acc = isinstance(g.target, ast.Subscript) and U(g.target.slice) == cl and isinstance(g.op, ast.Add)
        ctx.ob('gradient-form', fi, g, isinstance(gv, Lin) and gv.eq(wantg),
               '[%s] gradient w.r.t. x: expected %r, source %r' % (metric, wantg, gv), construct='%s [%s]' % (U(g), metric))
        ctx.ob('projection-order', fi, g, ok_acc and dom_ok,
               '[%s] the gradient must be added to the entry of clique `%s` as a Factor over the domain of the factor x was read from' % (metric, cl),
               construct='accumulation %s [%s]' % (U(g), metric))
    rets = [r for r in fi.body if isinstance(r, ast.Return)]
    ok = bool(rets) and isinstance(rets[-1].value, ast.Tuple) and len(rets[-1].value.elts) == 2
    ctx.ob('loss-form', fi, rets[-1] if rets else fi.node, ok, 'returns (loss, gradient)')


# ---- fix_measurements: abstract evaluation per spelling ---------------------------------------------------------------------------
class Spell:
    """value-based abstract evaluation of the per-measurement statements for one spelling of (proj, Q)"""

    def __init__(self, fi, names, kind, q_given):
        self.fi = fi
        self.Q, self.y, self.noise, self.proj = names
        self.env = {
            self.proj: ('proj',) + {'str': ('str', 'name'), 'strsub': ('strsub', 'name'), 'list': ('list', 'attrs'), 'tuple': ('tuple', 'attrs')}[kind],
            self.Q: ('q', 'given') if q_given else ('q', 'none'),
            self.y: ('in', 'y'), self.noise: ('in', 'noise'),
        }
        self.q_given = q_given
        self.q_replaced = None
        self.appended = []

    def val(self, e):
        if isinstance(e, ast.Name):
            return self.env.get(e.id, ('other', U(e)))
        if isinstance(e, ast.Tuple) and len(e.elts) == 1:
            v = self.val(e.elts[0])
            if v[0] == 'proj':
                return ('proj', 'tuple', 'attrs' if v[1] in ('str', 'strsub') else 'nested sequence')
        if isinstance(e, ast.Tuple):
            return ('tuple4',) + tuple(self.val(x) for x in e.elts) if len(e.elts) == 4 else ('tupleof',) + tuple(self.val(x) for x in e.elts)
        if isinstance(e, ast.List) and len(e.elts) == 1:
            v = self.val(e.elts[0])
            if v[0] == 'proj':
                return ('proj', 'list', 'attrs' if v[1] in ('str', 'strsub') else 'nested sequence')
        if isinstance(e, ast.Tuple) and len(e.elts) == 1:
            pass
        if isinstance(e, ast.Call):
            f = U(e.func)
            if f in ('tuple', 'list') and len(e.args) == 1:
                v = self.val(e.args[0])
                if v[0] == 'proj':
                    return ('proj', f, 'attrs' if v[1] in ('list', 'tuple') else 'characters of the name')
            if f.split('.')[-1] in ('eye', 'identity') and e.args:
                a = e.args[0]
                if isinstance(a, ast.Call) and U(a.func) == 'self.domain.size' and len(a.args) == 1:
                    pv = self.val(a.args[0])
                    return ('q', 'eye', pv)
                return ('q', 'eye', ('other', U(a)))
            if f == 'float' and len(e.args) == 1 and self.val(e.args[0]) == ('in', 'noise'):
                return ('in', 'noise')          # a scale is a number: float() of it is that number
            if f in ('max', 'builtins.max') and len(e.args) == 2 and not e.keywords and ('in', 'noise') in (self.val(e.args[0]), self.val(e.args[1])):
                # a floor under the noise level: harmless only at the smallest positive double (every positive normal scale is at least that);
                # any larger floor silently re-weights measurements that are more exact than it
                other = e.args[1] if self.val(e.args[0]) == ('in', 'noise') else e.args[0]
                if isinstance(other, ast.Name):
                    md = [a.value for a in self.fi.module.tree.body if isinstance(a, ast.Assign) and len(a.targets) == 1 and U(a.targets[0]) == other.id]
                    other = md[0] if len(md) == 1 else other
                ot = U(other).replace(' ', '')
                if ot in ('np.finfo(float).tiny', 'np.finfo(np.float64).tiny', 'sys.float_info.min', '5e-324', 'np.nextafter(0,1)', 'np.finfo(float).smallest_normal',
                          'np.finfo(float).smallest_subnormal', '2.2250738585072014e-308'):
                    return ('in', 'noise')
                return ('other', 'noise floored at %s' % ot[:30])
            # a conversion of a given query keeps it
            for n in ast.walk(e):
                if isinstance(n, ast.Name) and self.env.get(n.id, ('',))[0] == 'q' and self.env[n.id][1] in ('given', 'converted'):
                    return ('q', 'converted')
        return ('other', U(e)[:40])

    def test(self, t):
        if isinstance(t, ast.UnaryOp) and isinstance(t.op, ast.Not):
            r = self.test(t.operand)
            return None if r is None else (not r)
        if isinstance(t, ast.BoolOp):
            rs = [self.test(v) for v in t.values]
            if isinstance(t.op, ast.Or):
                if any(r is True for r in rs):
                    return True
                return False if all(r is False for r in rs) else None
            if any(r is False for r in rs):
                return False
            return True if all(r is True for r in rs) else None
        if isinstance(t, ast.Compare) and len(t.ops) == 1:
            l, r, op = t.left, t.comparators[0], t.ops[0]
            if isinstance(l, ast.Call) and U(l.func) == 'type' and isinstance(r, ast.Name):
                v = self.val(l.args[0])
                if v[0] == 'proj':
                    same = v[1] == r.id
                    return same if isinstance(op, (ast.Is, ast.Eq)) else (not same)
            if isinstance(l, ast.Call) and U(l.func) == 'type' and isinstance(r, (ast.Tuple, ast.List, ast.Set)) and isinstance(op, (ast.In, ast.NotIn)) \
                    and all(isinstance(x, ast.Name) for x in r.elts):
                v = self.val(l.args[0])
                if v[0] == 'proj':
                    inside = v[1] in [x.id for x in r.elts]
                    return inside if isinstance(op, ast.In) else (not inside)
            if isinstance(r, ast.Constant) and r.value is None:
                v = self.val(l)
                if v[0] == 'q':
                    isnone = v[1] == 'none'
                    return isnone if isinstance(op, (ast.Is, ast.Eq)) else (not isnone)
        if isinstance(t, ast.Call) and U(t.func) == 'hasattr' and len(t.args) == 2 and isinstance(t.args[1], ast.Constant) \
                and t.args[1].value in ('__iter__', '__len__', '__getitem__'):
            v = self.val(t.args[0])
            if v[0] == 'proj':
                return True          # a str is iterable / sized / indexable like a list: this test does not tell them apart
        if isinstance(t, ast.Call) and U(t.func) == 'isinstance' and len(t.args) == 2:
            v = self.val(t.args[0])
            if v[0] == 'proj':
                k = t.args[1]
                ks = [U(x) for x in k.elts] if isinstance(k, ast.Tuple) else [U(k)]
                if v[1] == 'strsub':                          # an instance of a subclass of str (np.str_): a str, not exactly `str`
                    return 'str' in ks or 'np.str_' in ks
                return v[1] in ks
        return None

    def mentions(self, t, kinds):
        return any(isinstance(n, ast.Name) and self.env.get(n.id, ('',))[0] in kinds for n in ast.walk(t))

    def run(self, stmts):
        for s in stmts:
            if isinstance(s, ast.If):
                r = self.test(s.test)
                if r is None and self.mentions(s.test, ('proj',)):
                    raise AnalysisError('fix_measurements: undecidable test `%s`' % U(s.test)[:60])
                if r is None:
                    # a test on something else (e.g. properties of the query): either branch may run
                    saved = dict(self.env)
                    self.run(s.body)
                    a = self.env
                    self.env = dict(saved)
                    self.run(s.orelse)
                    for k in set(a) | set(self.env):
                        if a.get(k) != self.env.get(k):
                            va, vb = a.get(k), self.env.get(k)
                            if va and vb and va[0] == vb[0] == 'q' and va[1] in ('given', 'converted') and vb[1] in ('given', 'converted'):
                                self.env[k] = ('q', 'converted')
                            elif (va or vb)[0] == 'q':
                                self.env[k] = ('q', 'maybe-replaced', va, vb)
                            else:
                                self.env[k] = ('other', 'differs')
                    continue
                self.run(s.body if r else s.orelse)
            elif isinstance(s, ast.Assign) and len(s.targets) == 1 and isinstance(s.targets[0], ast.Name):
                n = s.targets[0].id
                v = self.val(s.value)
                cur = self.env.get(n)
                if cur is not None and cur[0] == 'q' and cur[1] in ('given', 'converted') and v[0] == 'q' and v[1] == 'eye':
                    self.q_replaced = s
                self.env[n] = v
            elif isinstance(s, ast.Assign) and len(s.targets) == 1 and isinstance(s.targets[0], ast.Tuple) and \
                    isinstance(s.value, ast.Name):
                continue
            elif isinstance(s, ast.Expr) and isinstance(s.value, ast.Call) and isinstance(s.value.func, ast.Attribute) \
                    and s.value.func.attr == 'append' and len(s.value.args) == 1:
                self.appended.append((s, U(s.value.func.value), self.val(s.value.args[0])))
            elif isinstance(s, (ast.Assert, ast.Expr, ast.Pass)):
                continue
            elif isinstance(s, ast.Assign):
                continue
            elif isinstance(s, ast.Return):
                self.returned = s
                return
            else:
                raise AnalysisError('fix_measurements: unsupported statement `%s`' % U(s)[:60])


def check_fix(ctx, fi, est):
    ctx.analysed(fi)
    loops = [s for s in fi.body if isinstance(s, ast.For) and unpack4(s) is not None]
    if len(loops) != 1:
        raise AnalysisError('fix_measurements: loop over the measurements not found')
    loop = loops[0]
    names = unpack4(loop)
    Q, y, noise, proj = names
    acc = None
    for kind in ('str', 'strsub', 'list', 'tuple'):
        for q_given in (True, False):
            sp = Spell(fi, names, kind, q_given)
            sp.run(loop.body)
            label = 'proj as %s, Q %s' % ({'strsub': 'str subclass (np.str_)'}.get(kind, kind), 'given' if q_given else 'omitted')
            if len(sp.appended) != 1:
                raise AnalysisError('fix_measurements [%s]: expected one collected measurement per iteration, found %d' % (label, len(sp.appended)))
            stmt, acc, tup = sp.appended[0]
            if tup[0] != 'tuple4':
                ctx.ob('spelling', fi, stmt, False, '[%s] the collected value is not a (Q, y, noise, proj) tuple: %r' % (label, tup))
                continue
            q, yy, nn, pp = tup[1:]
            ctx.ob('spelling', fi, stmt, pp == ('proj', 'tuple', 'attrs'),
                   '[%s] proj must end as one tuple of attribute names (hashable clique key); ends as %s' % (label, pp[1:] if pp[0] == 'proj' else pp),
                   construct='proj normalisation [%s]' % label)
            ctx.ob('spelling', fi, stmt, yy == ('in', 'y') and nn == ('in', 'noise'),
                   '[%s] answers and noise level are passed through as given' % label, construct='y, noise kept [%s]' % label)
            if q_given:
                ok = q[0] == 'q' and q[1] in ('given', 'converted') and sp.q_replaced is None
                ctx.ob('spelling', fi, sp.q_replaced or stmt, ok,
                       '[%s] a supplied query must be used as given (it may be converted, never replaced); collected %r%s'
                       % (label, q, '' if sp.q_replaced is None else ': `%s` can run for a supplied Q' % U(sp.q_replaced)),
                       construct='Q kept [%s]' % label)
            else:
                ok = q[0] == 'q' and q[1] == 'eye' and q[2] == ('proj', 'tuple', 'attrs')
                ctx.ob('spelling', fi, stmt, ok,
                       '[%s] an omitted query means the identity on the marginal: eye(domain.size(proj)) computed from the normalised '
                       'tuple; collected %r' % (label, q), construct='Q default [%s]' % label)
    rets = [r for r in fi.body if isinstance(r, ast.Return)]
    ctx.ob('spelling', fi, rets[-1] if rets else fi.node, bool(rets) and acc is not None and U(rets[-1].value) == acc,
           'the list of normalised measurements is what is returned')
    # estimate uses the normalised list
    ctx.analysed(est)
    m = est.params[1]
    first = est.body[0] if est.body else None
    ok = isinstance(first, ast.Assign) and U(first.targets[0]) == m and U(first.value) == 'self.fix_measurements(%s)' % m
    if ok:
        ctx.ob('spelling', est, first or est.node, ok, 'estimate must replace the measurement list by its normalised form before anything else uses it')
        return
    # not normalised at the entry point: then EVERY method that walks the measurement tuples has to normalise its own argument first (the
    # solvers hand the caller's list to _setup and, for RDA / IG, to _lipschitz as well)
    n_cons = 0
    for q_ in ('_setup', '_lipschitz'):
        cons = ctx.repo.func(INF, 'FactoredInference.' + q_)
        p_ = cons.params[1]
        walks = [x for x in ast.walk(cons.node) if isinstance(x, ast.For) and U(x.iter) == p_]
        if not walks:
            continue
        n_cons += 1
        body = [s_ for s_ in cons.node.body if not (isinstance(s_, ast.Expr) and isinstance(s_.value, ast.Constant))]
        norm_at = [i_ for i_, s_ in enumerate(body) if isinstance(s_, ast.Assign) and len(s_.targets) == 1 and U(s_.targets[0]) == p_
                   and U(s_.value) == 'self.fix_measurements(%s)' % p_]
        first_use = min([i_ for i_, s_ in enumerate(body) if any(isinstance(x, ast.Name) and x.id == p_ and isinstance(x.ctx, ast.Load) for x in ast.walk(s_))] or [10 ** 9])
        ok_c = bool(norm_at) and norm_at[0] <= first_use
        ctx.ob('spelling', cons, body[norm_at[0]] if norm_at else cons.node, ok_c,
               'estimate no longer normalises the measurement list, so %s - which walks the measurement tuples - must normalise its own argument before '
               'anything else uses it%s' % (q_, '' if ok_c else ': a projection given as a bare string or a list, or an omitted query, reaches the loop as the '
               'caller wrote it'), construct='normalisation of the measurements in ' + q_)
    if n_cons == 0:
        raise AnalysisError('FactoredInference: no method walks the measurement list')


# ---- the smoothness bound ---------------------------------------------------------------------------------------------------------------
def dense_small_case(ctx, fi):
    """ARPACK cannot return k = 1 eigenvalue of a 1 x 1 / 2 x 2 operator, so tiny marginals may be handled densely:
        if p <= K:  G = (Q.H * Q).matmat(np.eye(p));  eig = np.linalg.eigh(G)[0][-1]      else:  eig = eigsh(Q.H * Q, 1)[0][0]
    The dense arm is judged here - `eigh` / `eigvalsh` return the eigenvalues in ASCENDING order, the largest is the LAST one - and the function
    is then analysed with the iterative arm in place of the branch (on a private copy of the tree)."""
    from ..normalise import NormFunc
    from ..srcmodel import clone
    node = clone(fi.node)
    hit = None
    for par in ast.walk(node):
        for fld in ('body', 'orelse'):
            blk = getattr(par, fld, None)
            if not isinstance(blk, list):
                continue
            for st in blk:
                if not (isinstance(st, ast.If) and st.body and st.orelse and isinstance(st.test, ast.Compare) and len(st.test.ops) == 1):
                    continue
                ends = [a[-1] for a in (st.body, st.orelse)]
                if not all(isinstance(e_, ast.Assign) and len(e_.targets) == 1 and isinstance(e_.targets[0], ast.Name) for e_ in ends) \
                        or ends[0].targets[0].id != ends[1].targets[0].id:
                    continue
                it = [any(isinstance(c, ast.Call) and U(c.func).split('.')[-1] in ('eigsh', 'eigs', 'svds') for s_ in a for c in ast.walk(s_)) for a in (st.body, st.orelse)]
                de = [any(isinstance(c, ast.Call) and U(c.func).split('.')[-1] in ('eigh', 'eigvalsh', 'eigvals', 'eig') for s_ in a for c in ast.walk(s_)) for a in (st.body, st.orelse)]
                if it == [False, True] and de == [True, False]:
                    hit = (blk, st, st.body, st.orelse, True)
                elif it == [True, False] and de == [False, True]:
                    hit = (blk, st, st.orelse, st.body, False)
    if hit is None:
        return fi
    blk, st, dense, iterative, dense_when_true = hit
    from ..normalise import Defs, expand
    val = expand(dense[-1].value, Defs(dense[:-1]), comps=True)
    t = U(val).replace(' ', '')
    # which eigenvalue
    m = re.fullmatch(r'(?:np|numpy|scipy)\.linalg\.eigh\((.+)\)\[0\]\[(-?\d+)\]', t) or re.fullmatch(r'(?:np|numpy|scipy)\.linalg\.eigvalsh\((.+)\)\[(-?\d+)\]', t)
    mx = re.fullmatch(r'(?:np|numpy|scipy)\.linalg\.eigvalsh\((.+)\)\.max\(\)', t) or re.fullmatch(r'(?:np\.)?max\((?:np|numpy|scipy)\.linalg\.eigvalsh\((.+)\)\)', t) \
        or re.fullmatch(r'(?:np|numpy|scipy)\.linalg\.eigh\((.+)\)\[0\]\.max\(\)', t)
    if not m and not mx:
        raise AnalysisError('_lipschitz: the dense arm computes `%s`, which is in no recognised form' % U(val)[:80])
    G = (m or mx).group(1)
    largest = bool(mx) or m.group(2) == '-1'
    ctx.ob('lipschitz-form', fi, dense[-1], largest,
           'small marginals are handled densely: eigh / eigvalsh return the eigenvalues in ASCENDING order, the largest is the last one; the source takes %s'
           % ('the largest' if largest else 'entry %s - the SMALLEST eigenvalue of Q^T Q (zero for any query with fewer independent rows than cells): the step '
              'size bound is no bound' % m.group(2)), construct='dense eigenvalue of the small case')
    # of which matrix: the Gram operator applied to the identity
    mg = re.fullmatch(r'\((\w+)\.(?:H|T)(?:\*|@)\1\)\.(?:matmat|dot|matmul)\(np\.eye\((.+)\)\)', G) or re.fullmatch(r'\((\w+)\.(?:H|T)(?:\*|@)\1\)@np\.eye\((.+)\)', G) \
        or re.fullmatch(r'\(?(\w+)\.(?:H|T)@\1\)?()', G)
    if not mg:
        raise AnalysisError('_lipschitz: the dense arm takes the eigenvalues of `%s`, which is not recognised as Q^T Q applied to the identity' % G[:80])
    # the size test: a one-sided bound on the number of cells (any threshold: both arms compute the same number where both are defined)
    tt = U(st.test).replace(' ', '')
    if not re.fullmatch(r'[\w.()\[\]]+(<=|<|==|>|>=)\d+', tt):
        raise AnalysisError('_lipschitz: the test `%s` choosing between the dense and the iterative eigenvalue is in no recognised form' % U(st.test)[:60])
    i = blk.index(st)
    blk[i:i + 1] = list(iterative)
    ast.fix_missing_locations(node)
    for n in ast.walk(node):
        for ch in ast.iter_child_nodes(n):
            ch._parent = n
    node._parent = getattr(fi.node, '_parent', None)
    return NormFunc(getattr(fi, 'original', fi), node, getattr(fi, 'inlined', []), getattr(fi, 'memo_issues', ()))


def check_lipschitz(ctx, fi, s2):
    from ..normalise import Defs, expand
    Q, _, noise, proj = s2['names']
    cl = s2['cl']
    atoms = Atoms()
    accs = [s for s in ast.walk(s2['outer']) if isinstance(s, ast.AugAssign) and isinstance(s.target, ast.Subscript)]
    if len(accs) != 1:
        raise AnalysisError('_lipschitz: accumulation of the per-clique sum not found')
    acc = accs[0]
    defs = Defs(s2['outer'].body)
    value = expand(acc.value, defs, keep=(Q, noise, proj, cl))
    eig_calls = [c for c in calls_in(value) if U(c.func).split('.')[-1] in ('eigsh', 'eigs', 'svds')]
    if len(eig_calls) != 1:
        raise AnalysisError('_lipschitz: eigenvalue computation / accumulation not found')
    arg = U(expand(eig_calls[0].args[0], defs, keep=(noise, proj, cl))).replace(' ', '')
    # Q may be wrapped: aslinearoperator(Q)
    arg = arg.replace('aslinearoperator(%s)' % Q, Q)
    ok_op = arg in ('%s.H*%s' % (Q, Q), '%s.T*%s' % (Q, Q), '%s.T@%s' % (Q, Q), '%s.H@%s' % (Q, Q))
    branchy = None
    a0 = eig_calls[0].args[0]
    if not ok_op and isinstance(a0, ast.Name):
        # the operator bound in the two arms of `if isinstance(Q, LinearOperator):` - `*` composes LinearOperators (and multiplies scipy.sparse
        # MATRICES) but is the ELEMENTWISE product of dense arrays and sparse arrays; `@` is the matrix product of everything
        arms = []
        for i_ in ast.walk(s2['outer']):
            if isinstance(i_, ast.If) and U(i_.test).replace(' ', '') in ('isinstance(%s,LinearOperator)' % Q, 'isinstance(%s,scipy.sparse.linalg.LinearOperator)' % Q):
                for blk, linop in ((i_.body, True), (i_.orelse, False)):
                    for a_ in blk:
                        if isinstance(a_, ast.Assign) and len(a_.targets) == 1 and U(a_.targets[0]) == a0.id:
                            arms.append((a_, linop))
        if len(arms) == 2:
            branchy = True
            for a_, linop in arms:
                t_ = U(a_.value).replace(' ', '')
                m_ = re.fullmatch(r'aslinearoperator\((.+)\)', t_)
                t_ = m_.group(1) if m_ else t_
                star = t_ in ('%s.H*%s' % (Q, Q), '%s.T*%s' % (Q, Q))
                at = t_ in ('%s.T@%s' % (Q, Q), '%s.H@%s' % (Q, Q))
                if not star and not at:
                    raise AnalysisError('_lipschitz: operator `%s` in no recognised form' % U(a_.value)[:60])
                ok_arm = at or (star and linop)
                ctx.ob('lipschitz-form', fi, a_, ok_arm, 'largest eigenvalue must be that of Q^T Q of the measurement\'s own query; for %s computed of `%s`%s'
                       % ('a LinearOperator' if linop else 'an explicit matrix', t_, '' if ok_arm else
                          ': `*` between an explicit matrix and its transpose is the ELEMENTWISE product for dense arrays and scipy.sparse arrays (a matrix '
                          'product only for scipy.sparse matrices)'), construct='Gram operator (%s)' % ('operator' if linop else 'matrix'))
    if branchy is None:
        ctx.ob('lipschitz-form', fi, eig_calls[0], ok_op, 'largest eigenvalue must be that of Q^T Q of the measurement\'s own query; computed of `%s`' % arg)

    def hook(call, ev):
        f = U(call.func)
        if f.endswith('domain.size') and len(call.args) == 1:
            return sym('size(%s)' % U(call.args[0]))
        return None

    class EigEval(SymEval):
        def ev(self, e):
            if any(c is e or (isinstance(e, ast.Subscript) and any(c is n for n in ast.walk(e))) for c in eig_calls):
                return sym('lambda_max')
            return super().ev(e)
    ev = EigEval({noise: sym(noise)}, atoms, hook=hook)
    got = ev.ev(value)
    want = sym('lambda_max') * sym('size(%s)' % cl) / sym('size(%s)' % proj) / (sym(noise) * sym(noise))
    ctx.ob('lipschitz-form', fi, acc, got.eq(want) and isinstance(acc.op, ast.Add) and U(acc.target.slice) in (cl, s2.get('index_var') or cl),
           'per-measurement term: expected %r added to the bucket of `%s`, source %r' % (want, cl, got))
    rets = [r for r in fi.body if isinstance(r, ast.Return)]
    inits = [s for s in fi.body if isinstance(s, ast.Assign) and isinstance(s.value, ast.DictComp)]
    table = U(acc.target.value)
    by_position = s2.get('index_var') is not None and U(acc.target.slice) == s2.get('index_var')
    ok = bool(rets) and U(rets[-1].value).replace(' ', '') == 'max(%s.values())' % table
    if by_position:
        # buckets in an array, one per position of the searched clique sequence
        ok = bool(rets) and U(rets[-1].value).replace(' ', '') in ('%s.max()' % table, 'max(%s)' % table, 'np.max(%s)' % table, 'float(%s.max())' % table)
    if not ok and rets and isinstance(rets[-1].value, ast.Name):
        # running maximum: L = 0 before the loop, `L = max(L, table[cl])` right after every update of a bucket, L returned.  The terms are
        # non-negative (lambda_max of Q^T Q, sizes, a squared noise scale), so a bucket only grows and the running maximum of the bucket just
        # updated is the maximum over all buckets at the end.
        L = rets[-1].value.id
        linit = [s_ for s_ in fi.body if isinstance(s_, ast.Assign) and len(s_.targets) == 1 and U(s_.targets[0]) == L]
        par = getattr(acc, '_parent', None)
        blk = next((b for b in (getattr(par, 'body', None), getattr(par, 'orelse', None)) if isinstance(b, list) and acc in b), [])
        nxt = blk[blk.index(acc) + 1] if acc in blk and blk.index(acc) + 1 < len(blk) else None
        upd = [s_ for s_ in ast.walk(s2['outer']) if isinstance(s_, (ast.Assign, ast.AugAssign)) and L in [U(t) for t in getattr(s_, 'targets', None) or [s_.target]]]
        forms = ('max(%s,%s[%s])' % (L, table, U(acc.target.slice)), 'max(%s[%s],%s)' % (table, U(acc.target.slice), L))
        ok = len(linit) == 1 and U(linit[0].value) in ('0', '0.0') and fi.body.index(linit[0]) < fi.body.index(s2['outer']) \
            and len(upd) == 1 and upd[0] is nxt and isinstance(nxt, ast.Assign) and U(nxt.value).replace(' ', '') in forms
    ctx.ob('lipschitz-form', fi, rets[-1] if rets else fi.node, ok, 'the bound is the maximum over cliques of the per-clique sums')
    ok = bool(inits) and U(inits[0].value.value) in ('0.0', '0') and U(inits[0].value.generators[0].iter) == 'self.model.cliques'
    if not ok and by_position:
        zinit = [s_ for s_ in fi.body if isinstance(s_, ast.Assign) and len(s_.targets) == 1 and U(s_.targets[0]) == table
                 and U(s_.value).replace(' ', '') in ('np.zeros(len(%s))' % U(s2['seq']).replace(' ', ''),)]
        ok = len(zinit) == 1
        inits = zinit or inits
    if not ok:
        zero_default = [s_ for s_ in fi.body if isinstance(s_, ast.Assign) and len(s_.targets) == 1 and U(s_.targets[0]) == table
                        and U(s_.value).replace(' ', '') in ('defaultdict(float)', 'collections.defaultdict(float)', 'defaultdict(int)',
                                                               'dict.fromkeys(self.model.cliques,0.0)', 'dict.fromkeys(self.model.cliques,0)')]
        ok = len(zero_default) == 1
        inits = zero_default or inits
    ctx.ob('lipschitz-form', fi, inits[0] if inits else fi.node, ok, 'every model clique starts with a zero sum')

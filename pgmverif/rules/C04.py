"""C04 - the optimised objective, its gradient and smoothness bound are the stated ones (structural clauses).

  exactly-once        setup attaches each measurement to exactly one model clique: a search loop whose action is followed by
                      `break` under the containment test set(proj) <= set(clique)
  sibling-order       the smoothness bound buckets measurements by the same search over the same canonical clique sequence as the
                      loss (otherwise the per-clique sums of the bound and of the loss differ)
  residual-form       diff == (Q x - y) / noise                               (linear-operator normal form)
  loss-form           L2: loss += 1/2 <diff, diff>        L1: loss += sum |diff|
  gradient-form       L2: grad == Q^T diff / noise        L1: grad == Q^T sign(diff) / noise      (= d loss / d x)
  projection-order    x is the datavector of marginal.project(proj) - attribute order of the measurement - and the gradient is
                      accumulated into the clique of the loop as a Factor over that same projected domain
  spelling            fix_measurements turns proj given as str / list / tuple into one tuple of attribute names, replaces an
                      omitted query by the identity of size domain.size(proj) (after normalising proj), and returns what it built
  lipschitz-form      per-measurement term == lambda_max(Q^T Q) * size(clique) / size(proj) / noise^2, summed per clique, max taken
Not decided: that eigsh converges; the numeric value of the bound.
"""
import ast

from ..engines.solvers import find_setup
from ..srcmodel import AnalysisError, U, calls_in, walk_shallow, target_names, names_in
from ..symexpr import SymEval, Atoms, Alg, Rat, sym, const

INF = 'src/mbi/inference.py'


# ----------------------------------------------------------------------------------------------- linear forms
class Lin:
    """sum of coef * (operator chain) applied to a base vector; base may be a non-linear atom ('sign'|'abs', Lin)"""

    def __init__(self, terms=None):
        self.terms = []         # (ops tuple, base, Rat)
        for ops, base, c in (terms or []):
            self._add(ops, base, c)

    def _add(self, ops, base, c):
        for i, (o2, b2, c2) in enumerate(self.terms):
            if o2 == ops and base_eq(b2, base):
                self.terms[i] = (o2, b2, c2 + c)
                return
        self.terms.append((ops, base, c))

    def clean(self):
        return [(o, b, c) for o, b, c in self.terms if not c.iszero()]

    def __add__(self, o):
        return Lin(self.terms + o.terms)

    def __neg__(self):
        return Lin([(o, b, -c) for o, b, c in self.terms])

    def __sub__(self, o):
        return self + (-o)

    def scale(self, r):
        return Lin([(o, b, c * r) for o, b, c in self.terms])

    def apply(self, op):
        return Lin([((op,) + o, b, c) for o, b, c in self.terms])

    def eq(self, other):
        d = (self - other).clean()
        return not d

    def __repr__(self):
        return ' + '.join('%r*%s%s' % (c, ''.join(o + '.' for o in ops), b if isinstance(b, str) else '%s(%r)' % b)
                          for ops, b, c in self.clean()) or '0'


def base_eq(a, b):
    if isinstance(a, str) or isinstance(b, str):
        return a == b
    return a[0] == b[0] and a[1].eq(b[1])


class Quad:
    def __init__(self, coef, a, b):
        self.coef, self.a, self.b = coef, a, b

    def eq(self, o):
        return isinstance(o, Quad) and self.coef.eq(o.coef) and \
            ((self.a.eq(o.a) and self.b.eq(o.b)) or (self.a.eq(o.b) and self.b.eq(o.a)))

    def __repr__(self):
        return '%r*<%r, %r>' % (self.coef, self.a, self.b)


class L1Norm:
    def __init__(self, coef, a):
        self.coef, self.a = coef, a

    def eq(self, o):
        return isinstance(o, L1Norm) and self.coef.eq(o.coef) and (self.a.eq(o.a) or self.a.eq(-o.a))

    def __repr__(self):
        return '%r*sum|%r|' % (self.coef, self.a)


class LinEval:
    def __init__(self, vectors, operators, scalars):
        self.vec = dict(vectors)       # name -> Lin
        self.ops = set(operators)
        self.sc = dict(scalars)        # name -> Alg
        self.atoms = Atoms()

    def scalar(self, e):
        return SymEval(self.sc, self.atoms, strict=True).ev(e)

    def is_scalar(self, e):
        try:
            v = self.scalar(e)
            return v
        except AnalysisError:
            return None

    def op_name(self, e):
        if isinstance(e, ast.Name) and e.id in self.ops:
            return e.id
        if isinstance(e, ast.Attribute) and e.attr in ('T', 'H') and isinstance(e.value, ast.Name) and e.value.id in self.ops:
            return e.value.id + '^T'
        return None

    def ev(self, e):
        """-> Lin | Quad | L1Norm | ('scalar', Alg)"""
        if isinstance(e, ast.Name) and e.id in self.vec:
            return self.vec[e.id]
        s = self.is_scalar(e)
        if s is not None:
            return ('scalar', s)
        if isinstance(e, ast.IfExp):
            a, b = self.ev(e.body), self.ev(e.orelse)
            if isinstance(a, Lin) and isinstance(b, Lin) and a.eq(b):
                return a
            raise AnalysisError('conditional expression with different branches: `%s`' % U(e))
        if isinstance(e, ast.UnaryOp) and isinstance(e.op, ast.USub):
            v = self.ev(e.operand)
            if isinstance(v, Lin):
                return -v
        if isinstance(e, ast.BinOp):
            if isinstance(e.op, ast.MatMult):
                op = self.op_name(e.left)
                r = self.ev(e.right)
                if op is not None and isinstance(r, Lin):
                    return r.apply(op)
                l = self.ev(e.left)
                if isinstance(l, Lin) and isinstance(r, Lin):
                    return Quad(Rat.const(1), l, r)
                raise AnalysisError('unrecognised matrix product `%s`' % U(e))
            l, r = self.ev(e.left), self.ev(e.right)
            if isinstance(e.op, (ast.Add, ast.Sub)):
                if isinstance(l, Lin) and isinstance(r, Lin):
                    return l + r if isinstance(e.op, ast.Add) else l - r
            if isinstance(e.op, ast.Mult):
                for a, b in ((l, r), (r, l)):
                    if isinstance(a, tuple) and isinstance(b, Lin):
                        return b.scale(a[1].rat())
                    if isinstance(a, tuple) and isinstance(b, Quad):
                        return Quad(b.coef * a[1].rat(), b.a, b.b)
                    if isinstance(a, tuple) and isinstance(b, L1Norm):
                        return L1Norm(b.coef * a[1].rat(), b.a)
            if isinstance(e.op, ast.Div):
                if isinstance(l, Lin) and isinstance(r, tuple):
                    return l.scale(Rat.const(1) / r[1].rat())
                if isinstance(l, Quad) and isinstance(r, tuple):
                    return Quad(l.coef / r[1].rat(), l.a, l.b)
            raise AnalysisError('expression outside the linear-operator dialect: `%s`' % U(e))
        if isinstance(e, ast.Call):
            f = U(e.func)
            last = f.split('.')[-1]
            # Q.dot(x), Q.T.dot(x)
            if last == 'dot' and isinstance(e.func, ast.Attribute) and len(e.args) == 1:
                op = self.op_name(e.func.value)
                r = self.ev(e.args[0])
                if op is not None and isinstance(r, Lin):
                    return r.apply(op)
                l = self.ev(e.func.value)
                if isinstance(l, Lin) and isinstance(r, Lin):
                    return Quad(Rat.const(1), l, r)
            if f in ('np.dot', 'numpy.dot') and len(e.args) == 2:
                l, r = self.ev(e.args[0]), self.ev(e.args[1])
                if isinstance(l, Lin) and isinstance(r, Lin):
                    return Quad(Rat.const(1), l, r)
            if last == 'sign':
                arg = e.args[0] if e.args else e.func.value
                v = self.ev(arg)
                if isinstance(v, Lin):
                    return Lin([((), ('sign', v), Rat.const(1))])
            if last == 'sum' and isinstance(e.func, ast.Attribute) and not e.args:
                inner = e.func.value
                if isinstance(inner, ast.Call) and U(inner.func) in ('abs', 'np.abs', 'numpy.abs', 'np.absolute') and len(inner.args) == 1:
                    v = self.ev(inner.args[0])
                    if isinstance(v, Lin):
                        return L1Norm(Rat.const(1), v)
                v = self.ev(inner)
                if isinstance(v, Quad):
                    return v
            if f in ('np.sum', 'numpy.sum') and len(e.args) == 1:
                inner = e.args[0]
                if isinstance(inner, ast.Call) and U(inner.func) in ('abs', 'np.abs', 'numpy.abs') and len(inner.args) == 1:
                    v = self.ev(inner.args[0])
                    if isinstance(v, Lin):
                        return L1Norm(Rat.const(1), v)
                if isinstance(inner, ast.BinOp) and isinstance(inner.op, (ast.Mult, ast.Pow)):
                    if isinstance(inner.op, ast.Pow) and U(inner.right) == '2':
                        v = self.ev(inner.left)
                        if isinstance(v, Lin):
                            return Quad(Rat.const(1), v, v)
                    if isinstance(inner.op, ast.Mult):
                        a, b = self.ev(inner.left), self.ev(inner.right)
                        if isinstance(a, Lin) and isinstance(b, Lin):
                            return Quad(Rat.const(1), a, b)
            if f in ('np.linalg.norm',) and len(e.args) == 2 and U(e.args[1]) == '1':
                v = self.ev(e.args[0])
                if isinstance(v, Lin):
                    return L1Norm(Rat.const(1), v)
            if f == 'float' and len(e.args) == 1:
                return self.ev(e.args[0])
        raise AnalysisError('expression outside the linear-operator dialect: `%s`' % U(e)[:80])


# ----------------------------------------------------------------------------------------------- rules
def run(ctx):
    repo = ctx.repo
    ctx.explanation = (
        'Structural search-loop rules (exactly-once, sibling order) plus symbolic normal forms: the residual, loss increment '
        'and gradient of _marginal_loss are evaluated in a linear-operator dialect (sums of coefficient * operator chain * base '
        'vector, coefficients rational functions of noise) for both metrics and compared with the calculus identity; the '
        'Lipschitz term is normalised as a rational function; fix_measurements is evaluated abstractly for every spelling of '
        'proj and Q.')
    ctx.rule_text = 'one obligation per search loop, per form and metric, per spelling of a measurement, per term of the bound'
    ctx.trusted = ['grad 1/2||Ax+b||^2 = A^T(Ax+b); d|u|/du = sign(u)', 'the norm of a projection matrix squared is size(clique)/size(proj)']
    setup = find_setup(repo, INF, 'FactoredInference')
    lip = repo.func(INF, 'FactoredInference._lipschitz')
    loss = repo.func(INF, 'FactoredInference._marginal_loss')
    fix = repo.func(INF, 'FactoredInference.fix_measurements')
    est = repo.func(INF, 'FactoredInference.estimate')
    s1 = search_loop(ctx, setup, action='append')
    s2 = search_loop(ctx, lip, action='accumulate')
    check_sibling(ctx, setup, s1, lip, s2)
    check_groups_reset(ctx, setup, s1)
    check_loss(ctx, loss)
    check_fix(ctx, fix, est)
    check_lipschitz(ctx, lip, s2)
    ctx.floor('C04 obligations', len(ctx.obligations), 20)


def find_search(fi):
    """the loop `for cl in SEQ: if <containment>: ACTION; break` nested in a loop over measurements"""
    for outer in walk_shallow(fi.node):
        if isinstance(outer, ast.For) and isinstance(outer.target, ast.Tuple) and len(outer.target.elts) == 4:
            for inner in ast.walk(outer):
                if isinstance(inner, ast.For) and inner is not outer and isinstance(inner.target, ast.Name) \
                        and any(isinstance(s, ast.If) for s in inner.body):
                    return outer, inner
    raise AnalysisError('%s: clique search loop not found' % fi.qualname)


def search_loop(ctx, fi, action):
    ctx.analysed(fi)
    outer, inner = find_search(fi)
    proj = U(outer.target.elts[3])
    cl = inner.target.id
    ifs = [s for s in inner.body if isinstance(s, ast.If)]
    from .C14 import is_subset_test
    ok_shape = len(ifs) == 1 and len(inner.body) == 1 and not ifs[0].orelse and not inner.orelse
    test_ok = ok_shape and is_subset_test(ifs[0].test, proj, cl)
    ctx.ob('exactly-once', fi, ifs[0] if ifs else inner, test_ok,
           'a measurement belongs to a clique that contains its attributes: test must be set(%s) <= set(%s)' % (proj, cl))
    body = ifs[0].body if ifs else []
    has_break = bool(body) and isinstance(body[-1], ast.Break)
    ctx.ob('exactly-once', fi, body[-1] if body else inner, has_break,
           'the search must stop at the first containing clique: without `break` the measurement is counted once per containing clique',
           construct='break after the action in ' + fi.name)
    return dict(outer=outer, inner=inner, proj=proj, cl=cl, body=body, seq=inner.iter)


def check_groups_reset(ctx, setup, s1):
    """the per-clique groups are rebuilt from empty on every setup, before the first measurement is attached"""
    resets = [s for s in setup.body if isinstance(s, ast.Assign) and any(U(t) == 'self.groups' for t in s.targets)]
    ok = False
    where = setup.node
    if resets:
        where = resets[-1]
        v = resets[-1].value
        empty = (isinstance(v, ast.Call) and U(v.func) in ('defaultdict', 'dict', 'collections.defaultdict')) or \
            (isinstance(v, ast.Dict) and not v.keys) or (isinstance(v, ast.DictComp) and U(v.value) in ('[]', 'list()'))
        ok = empty and resets[-1].lineno < s1['outer'].lineno
    ctx.ob('exactly-once', setup, where, ok,
           'setup must rebind self.groups to a fresh empty container (unconditionally, before attaching measurements): groups that '
           'survive from an earlier call make old measurements count again in the loss',
           construct=U(where)[:80] if resets else 'no reset of self.groups in ' + setup.name)


def normalise_seq(fi, expr, setup_fi):
    """resolve single-assignment local aliases and the model's constructor-argument field"""
    defs = {}
    for s in walk_shallow(fi.node):
        if isinstance(s, ast.Assign) and len(s.targets) == 1 and isinstance(s.targets[0], ast.Name):
            defs.setdefault(s.targets[0].id, []).append(s)
    alias = {}
    # `self.model = model` makes the local an alias of self.model
    for s in walk_shallow(fi.node):
        if isinstance(s, ast.Assign) and len(s.targets) == 1 and U(s.targets[0]) == 'self.model' and isinstance(s.value, ast.Name):
            alias[s.value.id] = 'self.model'
    text = U(expr)
    tree = ast.parse(text, mode='eval')

    class Sub(ast.NodeTransformer):
        def visit_Name(self, node):
            if node.id in alias:
                return ast.parse(alias[node.id], mode='eval').body
            ds = defs.get(node.id, [])
            # the definition reaching the search loop: the last assignment before it in source order
            ds = sorted([d for d in ds if d.lineno < expr.lineno], key=lambda d: d.lineno)
            if ds and isinstance(ds[-1].value, (ast.Attribute, ast.Name)) and U(ds[-1].value).startswith('self.'):
                return ast.parse(U(ds[-1].value), mode='eval').body
            return node
    tree = Sub().visit(tree)
    text = U(tree)
    # GraphicalModel(self.domain, ...) stores its first argument as .domain
    ctor = [c for c in calls_in(setup_fi.node) if isinstance(c.func, ast.Name) and c.func.id == 'GraphicalModel']
    if ctor and U(ctor[0].args[0]) == 'self.domain':
        text = text.replace('self.model.domain', 'self.domain')
    return text


def check_sibling(ctx, setup, s1, lip, s2):
    a = normalise_seq(setup, s1['seq'], setup)
    b = normalise_seq(lip, s2['seq'], setup)
    ctx.ob('sibling-order', lip, s2['inner'], a == b,
           'loss groups measurements by the first containing clique of `%s`; the bound searches `%s` - the two assignments must coincide'
           % (a, b))
    # the loss iterates the groups built by setup
    grp = [s for s in s1['body'] if isinstance(s, ast.Expr) and isinstance(s.value, ast.Call) and U(s.value.func).endswith('.append')]
    ok = len(grp) == 1 and U(grp[0].value.func) == 'self.groups[%s].append' % s1['cl']
    ctx.ob('exactly-once', setup, grp[0] if grp else s1['inner'], ok,
           'the matched clique `%s` receives the measurement: self.groups[%s].append(m)' % (s1['cl'], s1['cl']))
    if grp:
        m = grp[0].value.args[0]
        mdef = None
        for s in s1['outer'].body:
            if isinstance(s, ast.Assign) and U(s.targets[0]) == U(m):
                mdef = s
        want = '(%s)' % ', '.join(U(e) for e in s1['outer'].target.elts)
        ctx.ob('exactly-once', setup, mdef or grp[0], mdef is not None and U(mdef.value) == want,
               'the stored measurement must be the tuple %s of the loop' % want)


def check_loss(ctx, fi):
    """Works on the three copies of _marginal_loss: the two estimators' (loop over cliques, then over the clique's
    group, with a projection) and PublicInference's (one loop over self.measurements, no projection)."""
    ctx.analysed(fi)
    marg = fi.params[1]
    tops = [s for s in fi.body if isinstance(s, ast.For)]
    if len(tops) != 1:
        raise AnalysisError('%s: main loop not found' % fi.qualname)
    top = tops[0]
    pre = {}
    if isinstance(top.target, ast.Name):
        outer = top
        cl = outer.target.id
        inner = [s for s in outer.body if isinstance(s, ast.For)]
        if len(inner) != 1 or not isinstance(inner[0].target, ast.Tuple) or len(inner[0].target.elts) != 4:
            raise AnalysisError('%s: loop over the measurements of a clique not found' % fi.qualname)
        inner = inner[0]
        Q, y, noise, proj = [U(e) for e in inner.target.elts]
        ctx.ob('projection-order', fi, inner, U(inner.iter) == 'self.groups[%s]' % cl and U(outer.iter) == marg,
               'the measurements evaluated for clique `%s` must be the ones setup attached to it (self.groups[%s])' % (cl, cl))
        for s in outer.body:
            if isinstance(s, ast.Assign) and len(s.targets) == 1 and isinstance(s.targets[0], ast.Name):
                pre[s.targets[0].id] = s.value
        shape = 'grouped'
    elif isinstance(top.target, ast.Tuple) and len(top.target.elts) == 4:
        inner = top
        Q, y, noise, cl = [U(e) for e in inner.target.elts]
        proj = None
        ctx.ob('projection-order', fi, inner, U(inner.iter) == 'self.measurements',
               'every stored measurement contributes exactly once (loop over self.measurements)')
        shape = 'flat'
    else:
        raise AnalysisError('%s: unrecognised loop structure' % fi.qualname)
    # ---- straight-line prefix of the inner body, then the metric branch ---------------------------------
    body = inner.body
    branch = [s for s in body if isinstance(s, ast.If)]
    if len(branch) != 1:
        raise AnalysisError('%s: metric branch not found' % fi.qualname)
    branch = branch[0]
    t = branch.test
    if not (isinstance(t, ast.Compare) and isinstance(t.comparators[0], ast.Constant) and t.comparators[0].value == 'L1'
            and isinstance(t.ops[0], ast.Eq)):
        raise AnalysisError('_marginal_loss: unrecognised metric test `%s`' % U(t))
    defs = {}
    xname = None
    for s in body:
        if s is branch:
            break
        if isinstance(s, ast.Assign) and len(s.targets) == 1 and isinstance(s.targets[0], ast.Name):
            defs[s.targets[0].id] = s
    # x: the datavector of the (projected) marginal
    for name, s in defs.items():
        v = s.value
        if isinstance(v, ast.Call) and isinstance(v.func, ast.Attribute) and v.func.attr == 'datavector' and not v.args:
            xname = name
            xsrc = v.func.value
    if xname is None:
        raise AnalysisError('%s: data vector of the marginal not found' % fi.qualname)
    mu2 = U(xsrc)
    mu2_def = defs.get(mu2)
    if shape == 'grouped':
        ok_proj = False
        if mu2_def is not None and isinstance(mu2_def.value, ast.Call) and isinstance(mu2_def.value.func, ast.Attribute) \
                and mu2_def.value.func.attr == 'project' and len(mu2_def.value.args) == 1 and U(mu2_def.value.args[0]) == proj:
            mu = U(mu2_def.value.func.value)
            src = pre.get(mu)
            ok_proj = src is not None and U(src) == '%s[%s]' % (marg, cl)
        ctx.ob('projection-order', fi, mu2_def or defs[xname], ok_proj,
               'x must be the data vector of %s[%s].project(%s): Factor.project answers in the attribute order of the measurement; '
               'source: %s = `%s`' % (marg, cl, proj, mu2, U(mu2_def.value) if mu2_def is not None else '?'))
    else:
        ok = mu2_def is not None and U(mu2_def.value) == '%s[%s]' % (marg, cl)
        ctx.ob('projection-order', fi, mu2_def or defs[xname], ok,
               'x must be the data vector of %s[%s], the marginal the measurement was taken on' % (marg, cl))
    scal = {noise: sym(noise)}
    ev = LinEval({xname: Lin([((), 'x', Rat.const(1))]), y: Lin([((), 'y', Rat.const(1))])}, {Q}, scal)
    env_stmts = [s for s in body if s is not branch and isinstance(s, ast.Assign) and len(s.targets) == 1
                 and isinstance(s.targets[0], ast.Name) and s.targets[0].id not in (xname, mu2)]

    def run_stmts(stmts, loss_out, grad_out):
        for s in stmts:
            if isinstance(s, ast.Assign) and len(s.targets) == 1 and isinstance(s.targets[0], ast.Name):
                v = ev.ev(s.value)
                n = s.targets[0].id
                if isinstance(v, tuple):
                    ev.sc[n] = v[1]
                elif isinstance(v, Lin):
                    ev.vec[n] = v
                else:
                    raise AnalysisError('_marginal_loss: `%s` is not a vector or scalar' % U(s))
            elif isinstance(s, ast.AugAssign) and isinstance(s.target, ast.Name) and isinstance(s.op, ast.Add):
                loss_out.append((s, ev.ev(s.value)))
            elif isinstance(s, ast.AugAssign) and isinstance(s.target, ast.Subscript):
                grad_out.append(s)
            elif isinstance(s, (ast.Expr, ast.Pass)):
                pass
            else:
                raise AnalysisError('_marginal_loss: unsupported statement `%s`' % U(s)[:60])
    pre_stmts = body[:body.index(branch)]
    post_stmts = body[body.index(branch) + 1:]
    D = Lin([(((Q,), 'x', Rat.const(1) / Rat.sym(noise))), ((), 'y', Rat.const(-1) / Rat.sym(noise))])
    for metric, stmts in (('L1', branch.body), ('L2', branch.orelse)):
        ev.vec = {xname: Lin([((), 'x', Rat.const(1))]), y: Lin([((), 'y', Rat.const(1))])}
        ev.sc = {noise: sym(noise)}
        losses, grads = [], []
        run_stmts([s for s in pre_stmts if not (isinstance(s, ast.Assign) and U(s.targets[0]) in (xname, mu2))], losses, grads)
        run_stmts(stmts, losses, grads)
        run_stmts(post_stmts, losses, grads)
        # residual
        diffs = [n for n, v in ev.vec.items() if n not in (xname, y) and v.eq(D)]
        ctx.ob('residual-form', fi, defs.get(diffs[0]) if diffs and diffs[0] in defs else inner, bool(diffs),
               '[%s] a residual (Q x - y)/noise must be formed; vectors: %s' % (metric, {n: v for n, v in ev.vec.items() if n not in (xname, y)}),
               construct='residual [%s]' % metric)
        if len(losses) != 1:
            raise AnalysisError('_marginal_loss[%s]: expected one loss increment, found %d' % (metric, len(losses)))
        s, v = losses[0]
        want = Quad(Rat.const(1) / Rat.const(2), D, D) if metric == 'L2' else L1Norm(Rat.const(1), D)
        ctx.ob('loss-form', fi, s, hasattr(v, 'eq') and not isinstance(v, Lin) and v.eq(want),
               '[%s] loss increment: expected %r, source %r' % (metric, want, v), construct='%s [%s]' % (U(s), metric))
        if len(grads) != 1:
            raise AnalysisError('_marginal_loss[%s]: expected one gradient accumulation' % metric)
        g = grads[0]
        if metric == 'L2':
            wantg = D.apply(Q + '^T').scale(Rat.const(1) / Rat.sym(noise))
        else:
            wantg = Lin([((Q + '^T',), ('sign', D), Rat.const(1) / Rat.sym(noise))])
        # gradient[cl] += Factor(mu2.domain, grad)
        val = g.value
        ok_acc = U(g.target) in ('gradient[%s]' % cl,) or (isinstance(g.target, ast.Subscript) and U(g.target.slice) == cl)
        ok_dom = isinstance(val, ast.Call) and len(val.args) == 2 and U(val.args[0]) == mu2 + '.domain'
        gv = ev.ev(val.args[1]) if isinstance(val, ast.Call) and len(val.args) == 2 else None
        ctx.ob('gradient-form', fi, g, isinstance(gv, Lin) and gv.eq(wantg),
               '[%s] gradient w.r.t. x: expected %r, source %r' % (metric, wantg, gv), construct='%s [%s]' % (U(g), metric))
        ctx.ob('projection-order', fi, g, ok_acc and ok_dom and isinstance(g.op, ast.Add),
               '[%s] the gradient must be added to gradient[%s] as a Factor over %s.domain (the domain x was laid out by)' % (metric, cl, mu2),
               construct='accumulation %s [%s]' % (U(g), metric))
    # the returned pair
    rets = [r for r in fi.body if isinstance(r, ast.Return)]
    ok = bool(rets) and isinstance(rets[-1].value, ast.Tuple) and len(rets[-1].value.elts) == 2
    ctx.ob('loss-form', fi, rets[-1] if rets else fi.node, ok, 'returns (loss, gradient)')


class Spell:
    """abstract evaluation of fix_measurements' loop body for one spelling of (proj, Q)"""

    def __init__(self, fi, proj, Q, kind, q_given):
        self.fi, self.proj, self.Q = fi, proj, Q
        self.pk = {'str': ('str', 'name'), 'list': ('list', 'attrs'), 'tuple': ('tuple', 'attrs')}[kind]
        self.q = 'given' if q_given else 'none'
        self.q_given = q_given
        self.q_replaced = None

    def type_test(self, t):
        """decide tests on the type of proj / on Q is None; None = not about them"""
        if isinstance(t, ast.UnaryOp) and isinstance(t.op, ast.Not):
            r = self.type_test(t.operand)
            return None if r is None else (not r)
        if isinstance(t, ast.Compare) and len(t.ops) == 1:
            l, r, op = t.left, t.comparators[0], t.ops[0]
            if isinstance(l, ast.Call) and U(l.func) == 'type' and U(l.args[0]) == self.proj and isinstance(r, ast.Name):
                same = self.pk[0] == r.id
                if isinstance(op, (ast.Is, ast.Eq)):
                    return same
                if isinstance(op, (ast.IsNot, ast.NotEq)):
                    return not same
            if U(l) == self.Q and isinstance(r, ast.Constant) and r.value is None:
                isnone = self.q == 'none'
                return isnone if isinstance(op, (ast.Is, ast.Eq)) else (not isnone)
        if isinstance(t, ast.Call) and U(t.func) == 'isinstance' and U(t.args[0]) == self.proj:
            k = t.args[1]
            ks = [U(x) for x in k.elts] if isinstance(k, ast.Tuple) else [U(k)]
            return self.pk[0] in ks
        return None

    def assign_proj(self, v):
        k, c = self.pk
        t = U(v)
        if t in ('tuple(%s)' % self.proj, 'list(%s)' % self.proj):
            newk = 'tuple' if t.startswith('tuple') else 'list'
            self.pk = (newk, 'attrs' if k in ('list', 'tuple') else 'characters of the name')
        elif t in ('(%s,)' % self.proj, '[%s]' % self.proj):
            newk = 'tuple' if t.startswith('(') else 'list'
            self.pk = (newk, 'attrs' if k == 'str' else 'nested sequence')
        else:
            self.pk = ('?', '`%s`' % t)

    def run(self, stmts):
        for s in stmts:
            if isinstance(s, ast.If):
                r = self.type_test(s.test)
                if r is None and isinstance(s.test, ast.BoolOp) and isinstance(s.test.op, ast.Or):
                    parts = [self.type_test(v) for v in s.test.values]
                    if any(p is True for p in parts):
                        r = True
                    elif all(p is False for p in parts):
                        r = False
                if r is None and self.proj not in {n.id for n in ast.walk(s.test) if isinstance(n, ast.Name)}:
                    # a test on something else (e.g. the query): the branch may or may not run
                    self.run(s.body)
                    self.run(s.orelse)
                    continue
                if r is None:
                    raise AnalysisError('fix_measurements: undecidable test `%s`' % U(s.test))
                self.run(s.body if r else s.orelse)
            elif isinstance(s, ast.Assign) and len(s.targets) == 1 and U(s.targets[0]) == self.proj:
                self.assign_proj(s.value)
            elif isinstance(s, ast.Assign) and len(s.targets) == 1 and U(s.targets[0]) == self.Q:
                if self.q_given and self.Q not in {n.id for n in ast.walk(s.value) if isinstance(n, ast.Name)}:
                    self.q_replaced = s      # a supplied query is thrown away
                self.q = ('eye', U(s.value), self.pk)
            elif isinstance(s, (ast.Assert, ast.Expr, ast.Pass)):
                continue
            elif isinstance(s, ast.Assign):
                continue
            else:
                raise AnalysisError('fix_measurements: unsupported statement `%s`' % U(s)[:60])


def check_fix(ctx, fi, est):
    ctx.analysed(fi)
    loops = [s for s in fi.body if isinstance(s, ast.For) and isinstance(s.target, ast.Tuple) and
             (len(s.target.elts) == 4 or (len(s.target.elts) == 2 and isinstance(s.target.elts[1], ast.Tuple) and len(s.target.elts[1].elts) == 4))]
    if len(loops) != 1:
        raise AnalysisError('fix_measurements: loop over the measurements not found')
    loop = loops[0]
    tup = loop.target if len(loop.target.elts) == 4 else loop.target.elts[1]
    Q, y, noise, proj = [U(e) for e in tup.elts]
    for kind in ('str', 'list', 'tuple'):
        for q_given in (True, False):
            sp = Spell(fi, proj, Q, kind, q_given)
            sp.run(loop.body)
            label = 'proj as %s, Q %s' % (kind, 'given' if q_given else 'omitted')
            ctx.ob('spelling', fi, loop, sp.pk == ('tuple', 'attrs'),
                   '[%s] proj must end as one tuple of attribute names (hashable clique key); ends as %s of %s' % (label, sp.pk[0], sp.pk[1]),
                   construct='proj normalisation [%s]' % label)
            if q_given:
                ctx.ob('spelling', fi, sp.q_replaced or loop, sp.q_replaced is None,
                       '[%s] a supplied query must be used as given (it may be converted, never replaced)%s'
                       % (label, '' if sp.q_replaced is None else ': `%s` can run for a supplied Q' % U(sp.q_replaced)),
                       construct='Q kept [%s]' % label)
            if not q_given:
                ok = isinstance(sp.q, tuple) and sp.q[2] == ('tuple', 'attrs') and \
                    sp.q[1].replace(' ', '') in ('sparse.eye(self.domain.size(%s))' % proj, 'sparse.identity(self.domain.size(%s))' % proj,
                                                 'np.eye(self.domain.size(%s))' % proj, 'sparse.eye(self.domain.size(%s),self.domain.size(%s))' % (proj, proj))
                ctx.ob('spelling', fi, loop, ok,
                       '[%s] an omitted query means the identity on the marginal: Q = eye(domain.size(proj)) computed after proj is a tuple; got %s'
                       % (label, sp.q if not isinstance(sp.q, tuple) else '`%s` with proj %s' % (sp.q[1], sp.q[2])),
                       construct='Q default [%s]' % label)
    apps = [c for c in calls_in(loop) if isinstance(c.func, ast.Attribute) and c.func.attr == 'append' and len(c.args) == 1]
    ok = len(apps) == 1 and U(apps[0].args[0]).replace(' ', '') == '(%s,%s,%s,%s)' % (Q, y, noise, proj)
    acc = U(apps[0].func.value) if apps else None
    rets = [r for r in fi.body if isinstance(r, ast.Return)]
    ctx.ob('spelling', fi, apps[0] if apps else loop, ok and bool(rets) and U(rets[-1].value) == acc,
           'the normalised (Q, y, noise, proj) is what is collected and returned')
    # estimate uses the normalised list
    ctx.analysed(est)
    m = est.params[1]
    first = est.body[0] if est.body else None
    ok = isinstance(first, ast.Assign) and U(first.targets[0]) == m and U(first.value) == 'self.fix_measurements(%s)' % m
    ctx.ob('spelling', est, first or est.node, ok, 'estimate must replace the measurement list by its normalised form before anything else uses it')


def check_lipschitz(ctx, fi, s2):
    Q, _, noise, proj = [U(e) for e in s2['outer'].target.elts]
    cl = s2['cl']
    atoms = Atoms()

    def hook(call, ev):
        f = U(call.func)
        if f.endswith('domain.size') and len(call.args) == 1:
            return sym('size(%s)' % U(call.args[0]))
        return None
    env = {}
    acc = None
    eig_ok = None
    for s in s2['body']:
        if isinstance(s, ast.Assign) and len(s.targets) == 1 and isinstance(s.targets[0], ast.Name):
            n = s.targets[0].id
            if any(U(c.func).split('.')[-1] in ('eigsh', 'eigs', 'svds') for c in calls_in(s.value)):
                c = [c for c in calls_in(s.value) if U(c.func).split('.')[-1] in ('eigsh', 'eigs', 'svds')][0]
                arg = U(c.args[0]).replace(' ', '')
                eig_ok = (s, arg in ('%s.H*%s' % (Q, Q), '%s.T*%s' % (Q, Q), '%s.T@%s' % (Q, Q), '%s.H@%s' % (Q, Q)))
                env[n] = sym('lambda_max')
                continue
            try:
                ev = SymEval(env, atoms, hook=hook)
                env[n] = ev.ev(s.value)
            except AnalysisError:
                pass
        if isinstance(s, ast.AugAssign) and isinstance(s.target, ast.Subscript):
            acc = s
    if acc is None or eig_ok is None:
        raise AnalysisError('_lipschitz: eigenvalue computation / accumulation not found')
    ctx.ob('lipschitz-form', fi, eig_ok[0], eig_ok[1], 'largest eigenvalue must be that of Q^T Q of the measurement\'s own query')
    env.setdefault(noise, sym(noise))
    ev = SymEval(env, atoms, hook=hook)
    got = ev.ev(acc.value)
    want = sym('lambda_max') * sym('size(%s)' % cl) / sym('size(%s)' % proj) / (sym(noise) * sym(noise))
    ctx.ob('lipschitz-form', fi, acc, got.eq(want) and isinstance(acc.op, ast.Add) and U(acc.target.slice) == cl,
           'per-measurement term: expected %r added to the bucket of `%s`, source %r' % (want, cl, got))
    rets = [r for r in fi.body if isinstance(r, ast.Return)]
    inits = [s for s in fi.body if isinstance(s, ast.Assign) and isinstance(s.value, ast.DictComp)]
    ok = bool(rets) and U(rets[-1].value).replace(' ', '') == 'max(%s.values())' % U(acc.target.value)
    ctx.ob('lipschitz-form', fi, rets[-1] if rets else fi.node, ok, 'the bound is the maximum over cliques of the per-clique sums')
    ok = bool(inits) and U(inits[0].value.value) in ('0.0', '0') and U(inits[0].value.generators[0].iter) == 'self.model.cliques'
    ctx.ob('lipschitz-form', fi, inits[0] if inits else fi.node, ok, 'every model clique starts with a zero sum')

"""C05 - mechanisms never spend more privacy than the (epsilon, delta) budget (structural clauses).

For every mechanism entry and every valuation of its configuration flags the cost interpreter (E5) discovers all noisy
releases and private selections, types the sensitivity of each released statistic / quality score under the mechanism's
adjacency notion, derives each release's cost as a rational form, sums over the loop nests (trip counts, unit-norm and
partition lemmas) and compares with the budget:
  typed-release     every released statistic / selection quality has a derivable sensitivity
  coverage          every DP-primitive site the taint analysis (E4) reaches for this mechanism is accounted for by a cost term
  budget            MST: measure + select + measure == rho;  MWEM+PGM (noise x bounded): rounds*(release + selection) == rho
                    resp. == epsilon;  Adaptive Grid (default / given split): step1 + step2 + step3 == rho   (identities of
                    rational functions - they hold for every parameter value)
  AIM (adaptive loop, no closed form): ledger discipline -
    ledger-charge   the ledger's initial value and every in-loop increment equal the summed cost of the releases they pay for
                    (same scale / epsilon values, no intervening change)
    ledger-guard    the continuation test is `rho - ledger < K * charge` with K >= 1, so continuing implies ledger + charge <= rho;
                    the final round re-derives sigma, epsilon so that its charge is exactly rho - ledger and terminates the loop
    ledger-base     the ledger's initial value is <= rho for all parameters          [F6: it is not]
    rho-binding     the budget the ledger is compared with (self.rho, set by Mechanism.__init__) is cdp_rho of this construction's own
                    (epsilon, delta) - or a constant fraction of it, or 0
Assumptions are recorded in the evidence (A-Q: unit-column-norm query matrices in Adaptive Grid; cdp_rho sound (C07);
zCDP composition, eps-DP => eps^2/8-zCDP, parallel composition within one marginal).
  unit-sensitivity    Adaptive Grid's aggregate block is masked by (I - Q1) applied FIRST to the data vector in every product that makes it up
  iterator-reuse      a one-shot iterator that a loop has walked to the end is not walked again (a count taken from it afterwards is 0)
  (typed-release also: a value computed from private quantities by a construction no sensitivity rule covers is private, not public)
Not decided: floating point; that Q really has unit column norm.
"""
import ast
import itertools

from ..engines.effects import World, CostExec, tagged, release_cost, sum_over_loops, Tag, tag_of
from ..engines.symexec import Opaque, SymExec
from ..srcmodel import AnalysisError, U, walk_shallow, calls_in, target_names
from ..symexpr import Alg, Rat, sym, const

FILES = ['mechanisms/mst.py', 'mechanisms/aim.py', 'mechanisms/mwem+pgm.py', 'mechanisms/adaptive_grid.py', 'mechanisms/mechanism.py',
         'mechanisms/cdp2adp.py']
MST, AIM, MWEM, AG, MECH = FILES[0], FILES[1], FILES[2], FILES[3], FILES[4]


def run(ctx):
    repo = ctx.repo
    ctx.explanation = (
        'Symbolic constant propagation with inlining (E5): noise scales and selection coefficients are folded to rational/sqrt '
        'normal forms in the budget symbols, sensitivities are derived by typing the released statistics, loop nests contribute '
        'trip counts, and the summed cost is compared with the budget as an identity of rational functions, per configuration. '
        'AIM is decided by an inductive ledger invariant. Release sites are cross-checked against the taint analysis (E4).')
    ctx.rule_text = 'one obligation per release (typed), per configuration (budget identity), per taint-discovered primitive site (coverage), per AIM ledger obligation'
    ctx.trusted = ['zCDP composition is additive; an eps-DP selection is eps^2/8-zCDP; Gaussian noise sigma on an L2-sensitivity-D statistic is D^2/(2 sigma^2)-zCDP',
                   'cdp_rho(eps, delta) is a sound conversion (C07)', 'the exponential mechanism with logits c*q is 2*c*Delta(q)-DP']
    covered = {}
    configs = 0
    # ---- MST -------------------------------------------------------------------------------------------
    w, total, label = run_config(ctx, MST, 'MST', {}, env={'epsilon': sym('epsilon'), 'delta': sym('delta')})
    budget_ob(ctx, repo.nfunc(MST, 'MST'), total, sym('rho'), 'MST', w)
    collect(covered, w)
    configs += 1
    # ---- MWEM+PGM ----------------------------------------------------------------------------------------
    # a third value stands for every spelling the code tolerates without naming it ('normal', 'Gaussian', None ...): whatever branch the
    # calibration takes for it, the sampling site must take the matching one
    for noise, bounded in itertools.product(('gaussian', 'laplace', '<any other value>'), (True, False)):
        flags = {'noise': noise, 'bounded': bounded, 'workload': 'given', 'rounds': 'given'}
        env = {'rounds': sym('rounds'), 'epsilon': sym('epsilon'), 'delta': sym('delta'), 'alpha': sym('alpha'),
               'workload': Opaque('workload', Tag('public')), 'maxsize_mb': sym('maxsize_mb'), 'pgm_iters': sym('pgm_iters')}
        w, total, label = run_config(ctx, MWEM, 'mwem_pgm', flags, env=env, bounded=bounded, pure=(noise == 'laplace'))
        budget_ob(ctx, repo.nfunc(MWEM, 'mwem_pgm'), total, sym('epsilon') if noise == 'laplace' else sym('rho'),
                  'mwem_pgm[noise=%s, bounded=%s]' % (noise, bounded), w)
        collect(covered, w)
        configs += 1
    # ---- Adaptive Grid ------------------------------------------------------------------------------------------
    for split in (None, 'given'):
        env = {'epsilon': sym('epsilon'), 'delta': sym('delta'), 'threshold': sym('threshold'), 'targets': Opaque('targets', Tag('public'))}
        w, total, label = run_config(ctx, AG, 'adagrid', {'split_strategy': split}, env=env)
        budget_ob(ctx, repo.nfunc(AG, 'adagrid'), total, sym('rho'), 'adagrid[split_strategy=%s]' % ('default' if split is None else 'given'), w)
        collect(covered, w)
        configs += 1
    ctx.floor('closed-form budget configurations', configs, 9)
    # ---- AIM -------------------------------------------------------------------------------------------------------
    w = check_aim(ctx)
    check_rho_binding(ctx)
    collect(covered, w)
    check_coverage(ctx, covered)
    check_measurement_matrix(ctx)


ESTABLISHED_PARAMS = {
    'MST': {'data', 'epsilon', 'delta'},
    'mwem_pgm': {'data', 'epsilon', 'delta', 'workload', 'rounds', 'maxsize_mb', 'pgm_iters', 'noise', 'bounded', 'alpha'},
    'adagrid': {'data', 'epsilon', 'delta', 'threshold', 'targets', 'split_strategy', 'iters'},
}


def is_established_param(q, p):
    return q not in ESTABLISHED_PARAMS or p in ESTABLISHED_PARAMS[q]


def collect(covered, w):
    for r in w.releases:
        covered[r.key()] = r
    covered.setdefault('#assumptions', set()).update(w.assumptions)


def run_config(ctx, rel, q, flags, env=None, bounded=False, pure=False, cls=None, self_env=None):
    repo = ctx.repo
    fi = repo.func(rel, q)
    ctx.analysed(fi)
    w = World(repo, FILES, bounded, pure)
    e = {'data': tagged('data', 'data')}
    e.update(env or {})
    # an optional parameter this configuration table does not know (added later) is analysed at its default: every call that was possible
    # before still means what it meant; what a non-default value promises (e.g. a public bound on record weights) is outside the identity
    if env is not None:
        for p_, d_ in fi.defaults().items():
            if p_ not in e and p_ not in flags and p_ != 'self' and isinstance(d_, ast.Constant) and isinstance(d_.value, (int, float)) \
                    and not isinstance(d_.value, bool) and not is_established_param(q, p_):
                e[p_] = const(d_.value)
                ctx.assume('optional parameter `%s` of %s is analysed at its default %r' % (p_, q, d_.value))
    ex = CostExec(w, fi, flags=flags, env=e, cls=cls, self_env=self_env)
    ex.run()
    label = '%s[%s]' % (q, ', '.join('%s=%s' % kv for kv in sorted(flags.items()) if kv[0] not in ('workload', 'rounds')) or 'default')
    for a in w.assumptions:
        ctx.assume(a)
    total = None
    seen_problem_nodes = set()
    for rel_, func, node, text in w.problems:
        seen_problem_nodes.add(id(node))
        ctx.ob('typed-release', (rel_, func), node, False, '[%s] %s' % (label, text), construct='%s [%s]' % (U(node)[:60], label))
    for r in w.releases:
        c, how = release_cost(r, pure)
        notes = []
        t, err = (sum_over_loops(c, r, w, notes) if c is not None else (None, how))
        desc = ('%s release `%s`' % (r.dist, U(r.stat)[:40])) if r.kind == 'noise' else 'selection over `%s`' % U(r.logits)[:40]
        if t is None:
            if id(r.node) not in seen_problem_nodes:
                ctx.ob('typed-release', (r.rel, r.func), r.node, False, '[%s] %s: %s' % (label, desc, err),
                       construct='%s [%s]' % (U(r.node)[:60], label))
            continue
        ctx.ob('typed-release', (r.rel, r.func), r.node, True,
               '[%s] %s: cost per execution %r (%s), over its loop nest %r%s' % (label, desc, c, how, t, ('; ' + '; '.join(notes)) if notes else ''),
               construct='%s [%s]' % (U(r.node)[:60], label))
        r.total = t
        total = t if total is None else total + t
    return w, total, label


def simplex_subst(value, w):
    """fractions of a normalised split sum to one: substitute the last by 1 - the others"""
    for names in getattr(w, 'simplex', []):
        if not value.is_rat():
            continue
        last = 'frac:%s' % names[-1]
        rest = Rat.const(1)
        for n in names[:-1]:
            rest = rest - Rat.sym('frac:%s' % n)
        r = value.rat()
        value = Alg(Rat(r.n.subs(last, rest.n), r.d.subs(last, rest.n))) if rest.d.isconst() else value
    return value


def budget_ob(ctx, fi, total, budget, label, w):
    if total is None:
        ctx.ob('budget', fi, fi.node, False, '[%s] no release could be costed' % label, construct='budget of ' + label)
        return
    total = simplex_subst(total, w)
    ok = total.eq(budget)
    diff = None
    if not ok:
        try:
            diff = total - budget
        except AnalysisError:
            diff = None
    ctx.ob('budget', fi, fi.node, ok,
           '[%s] summed cost of all reachable releases: %r; budget: %r%s' % (label, total, budget, '' if ok else '  (difference %r)' % diff),
           construct='budget of ' + label)


# ------------------------------------------------------------------------------------------------------------ AIM
def check_aim(ctx):
    repo = ctx.repo
    fi = repo.nfunc(AIM, 'AIM.run')
    ctx.analysed(fi)
    w = World(repo, FILES, False, False)
    self_env = {'rho': sym('rho'), 'rounds': sym('rounds'), 'max_model_size': sym('max_model_size'),
                'structural_zeros': Opaque('zeros', Tag('public')), 'prng': Opaque('prng', Tag('public')), 'bounded': Opaque('b', Tag('public'))}
    env = {'data': tagged('data', 'data'), 'W': Opaque('W', Tag('public'))}
    ex = CostExec(w, fi, flags={'self.rounds': 'given', 'isinstance(qualities, dict)': True, 'base_measure': None},
                  env=env, cls=(AIM, 'AIM'), self_env=self_env)
    ex.run()
    for a in w.assumptions:
        ctx.assume(a)
    for rel_, func, node, text in w.problems:
        ctx.ob('typed-release', (rel_, func), node, False, '[AIM] ' + text)
    # ---- the adaptive loop and its ledger -----------------------------------------------------------------------
    loops = [s for s in fi.body if isinstance(s, ast.While)]
    if len(loops) != 1:
        raise AnalysisError('AIM.run: adaptive while loop not found')
    loop = loops[0]
    guard = None
    from ..srcmodel import canon_compare
    for s in loop.body:
        if isinstance(s, ast.If) and isinstance(s.test, ast.Compare):
            s.test = canon_compare(s.test)          # `K*charge > rho - ledger` is the same guard
        if isinstance(s, ast.If) and isinstance(s.test, ast.Compare) and len(s.test.ops) == 1 and \
                isinstance(s.test.ops[0], (ast.Lt, ast.LtE)) and isinstance(s.test.left, ast.BinOp) and \
                isinstance(s.test.left.op, ast.Sub) and U(s.test.left.left) == 'self.rho' and isinstance(s.test.left.right, ast.Name):
            guard = s
    if guard is None:
        raise AnalysisError('AIM.run: budget guard `self.rho - <ledger> < ...` not found')
    ledger = guard.test.left.right.id
    incs = [s for s in loop.body if isinstance(s, ast.AugAssign) and U(s.target) == ledger and isinstance(s.op, ast.Add)]
    inits = [s for s in fi.body if isinstance(s, ast.Assign) and U(s.targets[0]) == ledger]
    ok = len(incs) >= 1 and len(inits) == 1 and loop.body.index(guard) < loop.body.index(incs[0])
    ctx.ob('ledger-charge', fi, guard, ok,
           'ledger `%s`: initialised once before the loop, incremented once per round after the budget guard' % ledger,
           construct='ledger discovery: ' + U(guard.test))
    if not ok:
        return w
    inc, init = incs[-1], inits[0]
    charge_expr = incs[0].value
    for extra in incs[1:]:
        charge_expr = ast.BinOp(left=charge_expr, op=ast.Add(), right=extra.value)
    ast.fix_missing_locations(ast.Expression(body=charge_expr)) if len(incs) > 1 else None
    pre = [r for r in w.releases if not any(l[0] is loop for l in r.loops)]
    inl = [r for r in w.releases if any(l[0] is loop for l in r.loops)]
    # ---- values at the points of interest: replay the events ----------------------------------------------------
    init_val = inc_val = None
    for ev in w.events:
        if ev[0] == 'assign' and ev[3] is init:
            init_val = ev[2]
        if ev[0] == 'assign' and ev[3] is inc:
            inc_val = ev[2]
    # cost of pre-loop releases
    def total_of(rels, stop_at=None):
        tot = const(0)
        for r in rels:
            c, how = release_cost(apply_dominance(r), False)
            if c is None:
                return None, 'release at line %d: %s' % (r.node.lineno, how)
            r2 = r
            loops_ = [l for l in r.loops if l[0] is not stop_at]
            saved = r.loops
            r.loops = loops_
            t, err = sum_over_loops(c, r, w, [])
            r.loops = saved
            if t is None:
                return None, err
            tot = tot + t
        return tot, None
    pre_cost, err = total_of(pre)
    ok = pre_cost is not None and isinstance(init_val, Alg) and init_val.eq(pre_cost)
    ctx.ob('ledger-charge', fi, init, ok,
           'initial charge %r must equal the cost of the %d release site(s) before the loop: %s'
           % (init_val, len(pre), repr(pre_cost) if pre_cost is not None else err))
    # in-loop: the increment is `ledger_before + charge`; charge = inc_val - ledger_before
    in_cost, err = total_of(inl, stop_at=loop)
    charge = None
    if isinstance(inc_val, Alg):
        # the ledger before the increment is the havocked loop symbol
        before = [s for s in (inc_val.rat().symbols() if inc_val.is_rat() else []) if s.startswith(ledger + '@')]
        if len(before) == 1:
            charge = inc_val - sym(before[0])
    ok = charge is not None and in_cost is not None and charge.eq(in_cost)
    ctx.ob('ledger-charge', fi, inc, ok,
           'per-round charge %r must equal the cost of the %d release site(s) of the round (a selection bounded by the max-weight '
           'lemma and a Gaussian release): %s' % (charge, len(inl), repr(in_cost) if in_cost is not None else err))
    # ---- guard ---------------------------------------------------------------------------------------------------------
    check_guard(ctx, fi, w, loop, guard, inc, ledger, charge_expr)
    # ---- base case ---------------------------------------------------------------------------------------------------------
    ok = False
    slack = None
    if isinstance(init_val, Alg) and init_val.is_rat():
        slack = Rat.sym('rho') - init_val.rat()
        ok = slack.sign_definite_nonneg() and slack.n.all_coeffs_nonneg()
    ctx.ob('ledger-base', fi, init, ok,
           'the budget charged before the adaptive loop, %r, must not exceed rho for any parameters; rho - charge = %r is not '
           'sign-definite: it is negative whenever rounds < 0.9 * (number of one-way marginals)' % (init_val, slack)
           if not ok else 'initial charge %r <= rho for all parameters' % init_val)
    return w


def apply_dominance(r):
    """selection whose declared sensitivity is the max over the candidates' sensitivities: each candidate's
    sensitivity is dominated by it, so eps_eff <= 2 * c * declared"""
    if r.kind == 'selection' and getattr(r, 'sens_max', None) is not None and r.D is not None:
        import copy
        r2 = copy.copy(r)
        r2.D = r.sens_max
        return r2
    return r


def check_guard(ctx, fi, w, loop, guard, inc, ledger, charge_expr):
    """`self.rho - L < K*C`: C must be the round's charge (as charged by `inc`) and K >= 1"""
    t = guard.test
    rhs = t.comparators[0]
    K, C = None, None
    if isinstance(rhs, ast.BinOp) and isinstance(rhs.op, ast.Mult):
        for a, b in ((rhs.left, rhs.right), (rhs.right, rhs.left)):
            if isinstance(a, ast.Constant) and isinstance(a.value, (int, float)):
                K, C = a.value, b
    if C is None:
        K, C = 1, rhs
    ok = K is not None and K >= 1 and U(C).replace(' ', '').replace('(', '').replace(')', '') and same_charge(C, charge_expr)
    ctx.ob('ledger-guard', fi, guard, bool(ok),
           'continuing requires rho - %s >= %s * charge with the factor >= 1 and `charge` the very expression the round is charged '
           '(`%s`), so ledger + charge <= rho after the round; test: `%s`' % (ledger, K, U(charge_expr), U(t)))
    # the final round: re-derived sigma / epsilon make the charge exactly the remaining budget, and the loop terminates
    ex = SymExec(fi, env={'rho_sym': sym('rho')}, vectors=True)
    ex.env['self.rho'] = sym('rho')
    ex.env[ledger] = sym('used')
    ex.block(guard.body)
    try:
        final = ex.value(charge_expr)
    except AnalysisError:
        final = None
    ok = isinstance(final, Alg) and final.eq(sym('rho') - sym('used'))
    ctx.ob('ledger-guard', fi, guard.body[0] if guard.body else guard, ok,
           'in the final round the re-derived sigma / epsilon must make the charge exactly rho - %s; got %r' % (ledger, final),
           construct='final round of ' + U(t))
    term = [s for s in guard.body if isinstance(s, ast.Assign) and isinstance(s.value, ast.Constant) and s.value.value is True]
    cond = isinstance(loop.test, ast.UnaryOp) and isinstance(loop.test.op, ast.Not) and term and U(loop.test.operand) == U(term[0].targets[0])
    ctx.ob('ledger-guard', fi, loop, bool(cond), 'the final round sets the flag that ends the loop (`while not <flag>`)')


def same_charge(a, b):
    """the guard's charge expression and the increment are the same rational function of sigma, epsilon"""
    try:
        ev = SymExec.__new__(SymExec)
        from ..symexpr import SymEval
        x = SymEval({}, None).ev(a)
        y = SymEval({}, None).ev(b)
        return x.eq(y)
    except AnalysisError:
        return False


# ------------------------------------------------------------------------------------------------------------ coverage
def T(e):
    return U(e).replace(' ', '')


def check_measurement_matrix(ctx):
    """Adaptive Grid's noise is calibrated to L2 sensitivity 1 of the stacked query matrix Q = [Q1; Q2]: Q1 holds unit rows for the cells
    measured one by one, Q2 the aggregates over the REMAINING cells.  That only holds if the aggregates are masked, in the coordinates of
    the measured marginal itself, by the complement (I - Q1) - i.e. (I - Q1) is the factor applied FIRST to the data vector (the rightmost
    factor of every product that makes up Q2).  A mask applied elsewhere in the product (before a permutation of the cells) selects
    other cells: some cell is then counted by its unit row and by an aggregate row, and the column norm exceeds 1."""
    repo = ctx.repo
    fi = repo.nfunc(AG, 'adagrid')
    agg = repo.nfunc(AG, 'get_aggregate')

    def rightmost(e, defs):
        """the factor of a (scaled) matrix product that is applied first"""
        for _ in range(12):
            if isinstance(e, ast.BinOp) and isinstance(e.op, ast.MatMult):
                e = e.right
            elif isinstance(e, ast.BinOp) and isinstance(e.op, ast.Mult):
                # scalar * matrix: the matrix side is the one that is (defined as) a product / a known matrix name
                l, r = e.left, e.right
                pick = None
                for side in (r, l):
                    x = defs.get(side.id) if isinstance(side, ast.Name) else side
                    if isinstance(x, ast.BinOp) and isinstance(x.op, ast.MatMult):
                        pick = side
                        break
                if pick is None:
                    return e
                e = pick
            elif isinstance(e, ast.Name) and e.id in defs and isinstance(defs[e.id], ast.BinOp):
                e = defs[e.id]
            elif isinstance(e, ast.Call) and isinstance(e.func, ast.Attribute) and e.func.attr in ('tocsr', 'tocsc', 'tocoo') and not e.args:
                e = e.func.value
            else:
                return e
        return e

    # summary of get_aggregate: which parameter (if any) is the rightmost factor of every stacked term
    gdefs = {}
    for s_ in ast.walk(agg.node):
        if isinstance(s_, ast.Assign) and len(s_.targets) == 1 and isinstance(s_.targets[0], ast.Name):
            gdefs[s_.targets[0].id] = s_.value
    rets = [r for r in walk_shallow(agg.node) if isinstance(r, ast.Return) and r.value is not None]
    if len(rets) != 1:
        raise AnalysisError('get_aggregate: expected one return')
    rv = rets[0].value
    masked_param = None
    applied = None
    if isinstance(rv, ast.BinOp) and isinstance(rv.op, ast.MatMult):
        applied = [rightmost(rv, gdefs)]
    elif isinstance(rv, ast.Call) and U(rv.func).split('.')[-1] == 'vstack' and len(rv.args) == 1 and isinstance(rv.args[0], ast.Name):
        lst = rv.args[0].id
        applied = [rightmost(c_.args[0], gdefs) for c_ in calls_in(agg.node)
                   if isinstance(c_.func, ast.Attribute) and c_.func.attr == 'append' and U(c_.func.value) == lst and len(c_.args) == 1]
        if not applied:
            raise AnalysisError('get_aggregate: the stacked terms were not found')
    else:
        raise AnalysisError('get_aggregate: result `%s` is in no recognised form' % U(rv)[:60])
    names = {U(a) for a in applied}
    extra = [p_ for p_ in agg.params[3:]]
    if len(names) == 1 and list(names)[0] in extra:
        masked_param = list(names)[0]

    n = 0
    for st in ast.walk(fi.node):
        if not (isinstance(st, ast.Assign) and len(st.targets) == 1 and isinstance(st.value, ast.Call) and U(st.value.func).split('.')[-1] == 'vstack'
                and len(st.value.args) == 1 and isinstance(st.value.args[0], (ast.List, ast.Tuple)) and len(st.value.args[0].elts) == 2):
            continue
        q1, q2 = st.value.args[0].elts
        par = getattr(st, '_parent', None)
        block = next((b for b in (getattr(par, 'body', None), getattr(par, 'orelse', None)) if isinstance(b, list) and st in b), None)
        if block is None or not isinstance(q2, ast.Name):
            raise AnalysisError('adagrid: stacked query matrix `%s` is in no recognised form' % U(st)[:60])
        defs = {}
        ident = None
        for p_ in block[:block.index(st)]:
            if isinstance(p_, ast.Assign) and len(p_.targets) == 1 and isinstance(p_.targets[0], ast.Name):
                # the first definition of the unit-row matrix is the full one (zero rows are removed afterwards)
                if isinstance(p_.value, ast.Call) and U(p_.value.func) == 'get_identity':
                    ident = p_.targets[0].id
                if p_.targets[0].id not in defs or p_.targets[0].id != ident:
                    defs[p_.targets[0].id] = p_.value
        if ident is None or q2.id not in defs:
            raise AnalysisError('adagrid: the unit-row matrix / the aggregate matrix of `%s` were not found' % U(st)[:60])
        e2 = defs[q2.id]
        eye = [k for k, v in defs.items() if isinstance(v, ast.Call) and U(v.func).split('.')[-1] in ('eye', 'identity')]
        comp = ['%s-%s' % (i_, ident) for i_ in eye]
        n += 1
        if isinstance(e2, ast.Call) and U(e2.func) == 'get_aggregate':
            a_ = list(e2.args) + [None] * 4
            given = a_[3] if a_[3] is not None else next((k.value for k in e2.keywords if k.arg in agg.params[3:]), None)
            if given is None:
                ok, why = False, 'the aggregates are not masked at all'
            elif masked_param is None:
                ok, why = False, ('get_aggregate takes the mask but applies `%s` first to the data vector: the mask acts in the coordinates of the '
                                  'child marginal, not of the measured one' % ', '.join(sorted(names)))
            else:
                ok = T(given) in comp
                why = 'the mask handed to get_aggregate is `%s`' % U(given)
        else:
            rm = rightmost(e2, defs)
            ok = T(rm).strip('()') in comp
            why = 'the factor applied first is `%s`' % U(rm)
        ctx.ob('unit-sensitivity', fi, st, ok,
               'the aggregates stacked under the unit rows `%s` must be restricted to the other cells by (I - %s) applied first to the data vector; %s'
               % (ident, ident, why), construct='aggregate part of ' + U(st)[:50])
    ctx.floor('stacked query matrices in adagrid', n, 2)


def infinite_budget_branch(repo, rel):
    """is the release inside the body of `if <budget parameter> == np.inf:` (the noiseless limit of a mechanism: an infinite budget is
    spent whatever is released)"""
    fi = repo.module(rel.mod.rel).funcs.get(rel.func)
    if fi is None:
        return False
    ln = getattr(rel.node, 'lineno', None)
    for n in ast.walk(fi.node):
        if isinstance(n, ast.If) and isinstance(n.test, ast.Compare) and len(n.test.ops) == 1 and isinstance(n.test.ops[0], ast.Eq):
            sides = [U(n.test.left), U(n.test.comparators[0])]
            if any(s_ in ('np.inf', 'numpy.inf', 'math.inf', "float('inf')") for s_ in sides) and any(s_ in fi.params for s_ in sides):
                if any(getattr(x, 'lineno', None) == ln and U(x) == U(rel.node) for st in n.body for x in ast.walk(st)):
                    return True
    return False


def check_coverage(ctx, covered):
    from .C06 import run_taint
    T, outs = run_taint(ctx.repo)
    n = 0
    for key, rel in sorted(T.releases.items()):
        n += 1
        ok = key in covered
        if not ok and infinite_budget_branch(ctx.repo, rel):
            ctx.note('%s:%s: release at line %d is in the branch taken for an infinite budget (`== inf`): no finite cost to account for'
                     % (rel.mod.rel, rel.func, getattr(rel.node, 'lineno', 0)))
            continue
        ctx.ob('coverage', (rel.mod.rel, rel.func), rel.node, ok,
               'DP primitive site reached by the taint analysis %s a cost term of the budget analysis' % ('has' if ok else 'has NO'))
    ctx.floor('primitive sites cross-checked with E4', n, 9)


def check_rho_binding(ctx):
    """Mechanism.__init__: self.rho is what every class-based mechanism spends against"""
    from ..normalise import Defs, expand
    from ..symexpr import SymEval
    fi = ctx.repo.nfunc(MECH, 'Mechanism.__init__')
    ctx.analysed(fi)
    if len(fi.params) < 3:
        raise AnalysisError('Mechanism.__init__: (epsilon, delta) parameters not found')
    eps, delta = fi.params[1], fi.params[2]
    conv = ctx.repo.func('mechanisms/cdp2adp.py', 'cdp_rho')
    cparams = conv.params
    defs = Defs(fi.body)
    stores = [s for s in ast.walk(fi.node) if isinstance(s, ast.Assign) and any(U(t) == 'self.rho' for t in s.targets)]
    if not stores:
        raise AnalysisError('Mechanism.__init__: no store to self.rho')
    for s in stores:
        v = expand(s.value, defs, keep=(eps, delta))
        problems = []

        def hook(call, ev):
            name = U(call.func).split('.')[-1]
            if name != 'cdp_rho':
                return None
            bound = dict(zip(cparams, call.args))
            for k in call.keywords:
                bound[k.arg] = k.value
            if set(bound) != set(cparams[:2]):
                raise AnalysisError('Mechanism.__init__: unrecognised call `%s`' % U(call))
            a, b = U(bound[cparams[0]]), U(bound[cparams[1]])
            if (a, b) == (eps, delta):
                return sym('rho')
            if (a, b) == (delta, eps):
                problems.append('`%s` passes (delta, epsilon) for (%s, %s)' % (U(call), cparams[0], cparams[1]))
                return sym('rho_of_swapped_arguments')
            raise AnalysisError('Mechanism.__init__: the budget is `%s`, not the conversion of this construction\'s own (%s, %s): whether it '
                                'is within the budget is not decided here' % (U(call), eps, delta))
        ev = SymEval({}, None, hook, strict=True)

        def ifexp(e):
            a, b = ev.ev(e.body), ev.ev(e.orelse)
            return a if a.eq(b) else None
        ev.ifexp = ifexp
        vals = []
        todo = [v]
        while todo:
            x = todo.pop()
            if isinstance(x, ast.IfExp):
                todo.extend([x.body, x.orelse])
            else:
                vals.append(x)
        for x in vals:
            try:
                val = ev.ev(x)
            except AnalysisError as e:
                if 'Mechanism.__init__' in str(e):
                    raise
                raise AnalysisError('Mechanism.__init__: the budget `%s` is not in a recognised form (%s)' % (U(x)[:80], e))
            ok = None
            if val.eq(const(0)):
                ok, why = True, 'is 0'
            elif val.is_rat():
                from ..symexpr import Poly
                n_, d_ = val.rat().n, val.rat().d
                P = Poly.sym('rho') * d_
                k0 = sorted(P.t)[0]
                c = n_.t.get(k0, 0) / P.t[k0]
                if (n_ - Poly.const(c) * P).iszero():
                    ok, why = (0 <= c <= 1), 'is %s * cdp_rho(%s, %s)' % (c, eps, delta)
            if problems:
                ok, why = False, problems[0]
            if ok is None:
                raise AnalysisError('Mechanism.__init__: cannot compare the budget `%s` with cdp_rho(%s, %s)' % (U(x)[:80], eps, delta))
            ctx.ob('rho-binding', fi, s, ok, 'the zCDP budget of the mechanism may not exceed cdp_rho(%s, %s) of its own construction; `%s` %s'
                   % (eps, delta, U(x)[:80], why), construct='self.rho = ... %s' % U(x)[:60])

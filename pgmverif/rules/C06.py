"""C06 - private data reaches mechanism output only through the DP primitives.

  public-sink        non-interference modulo the two declassifiers `T + noise(...)` and `choice(n, p=T)`: for the four entry points
                     (MST, AIM.run, mwem_pgm, adagrid) and everything they reach in mechanisms/, no value derived from the private
                     dataset reaches a branch / loop / comprehension condition, a noise scale or size, the candidate count of a
                     selection, an argument of the post-processing engine, or the entry's return value.  The record count may flow
                     to the engine only under the `bounded` flag (neighbours then have equal size).
  releases-found     the analysis discovers the DP primitive sites it declassifies through (floor: a vanished primitive is an
                     analysis error, not a pass)
  domain-restored    MST returns its synthetic data through the undo map produced by the very compression it applied; the other three
                     sample a model whose engine was built on the input dataset's own domain
Not decided: that every synthetic value lies inside its attribute's range (runtime).
"""
import ast

from ..engines.taint import Taint, AV, CLEAN
from ..srcmodel import AnalysisError, U, calls_in, walk_shallow, target_names

FILES = ['mechanisms/mst.py', 'mechanisms/aim.py', 'mechanisms/mwem+pgm.py', 'mechanisms/adaptive_grid.py', 'mechanisms/mechanism.py',
         'mechanisms/cdp2adp.py']
ENTRIES = [
    ('mechanisms/mst.py', 'MST', None),
    ('mechanisms/aim.py', 'AIM.run', 'AIM'),
    ('mechanisms/mwem+pgm.py', 'mwem_pgm', None),
    ('mechanisms/adaptive_grid.py', 'adagrid', None),
]


def private_dataset():
    return AV(True, kind='dataset', dom=CLEAN(), why='the private dataset')


def run_taint(repo):
    T = Taint(repo, FILES)
    outs = {}
    T.receivers = {}
    for rel, q, cls in ENTRIES:
        fi = repo.func(rel, q)
        mod = T.mods[rel]
        args = []
        for p in fi.params:
            if p == 'self':
                a = AV(kind='obj', cls=(rel, cls))
                a.env = {}
                args.append(a)
                T.receivers[q] = a
            elif p == 'data':
                args.append(private_dataset())
            elif p == 'W':
                args.append(AV(kind='list', v=AV(kind='tuple', elems=[CLEAN(), CLEAN()])))
            else:
                break
        if 'data' not in fi.params:
            raise AnalysisError('%s lost its `data` parameter' % q)
        outs[q] = T.call(fi.node, mod, args, {}, None, qual=q)
    return T, outs


def run(ctx):
    repo = ctx.repo
    ctx.explanation = (
        'Inter-procedural, flow-sensitive taint analysis (abstract interpretation with inlining of repository callees, structured '
        'abstract values) of the four mechanism entry points with the additive-noise and choice(p=) primitives as the only '
        'declassifiers; every condition, noise parameter, post-processing argument and return value is a sink. This is a '
        'relational (two-run) property decided for all datasets at once; one execution can never observe it.')
    ctx.rule_text = 'one obligation per sink site (must be public), per entry return value, per release site, per returned dataset'
    ctx.trusted = ['calls into mbi and numpy are modelled as: result depends on all arguments and the receiver',
                   'FactoredInference.estimate / GraphicalModel.synthetic_data are pure post-processing of their arguments']
    T, outs = run_taint(repo)
    for rel, q, cls in ENTRIES:
        ctx.analysed(repo.nfunc(rel, q))
    # ---- sinks ------------------------------------------------------------------------------------------
    bad_keys = {}
    for mod, func, node, what, why in T.violations:
        bad_keys.setdefault((mod.rel, getattr(node, 'lineno', 0), getattr(node, 'col_offset', 0), what), (mod, func, node, why))
    n = 0
    for key, tainted in sorted(T.sinks.items()):
        rel, line, col, what = key
        n += 1
        if tainted:
            mod, func, node, why = bad_keys[key]
            ctx.ob('public-sink', (rel, func), node, False, '%s: derives from %s without passing through a DP primitive' % (what, why or 'private data'))
        else:
            o = ctx.ob('public-sink', (rel, '*'), 'sink', True, what, construct='%s:%d:%d %s' % (rel, line, col, what))
            o.line = line
    ctx.floor('sink sites checked', n, 40)
    for q, v in outs.items():
        rel = [r for r, qq, c in ENTRIES if qq == q][0]
        fi = repo.func(rel, q)
        ctx.ob('public-sink', fi, fi.node, not v.anyt(),
               'the value returned by %s %s' % (q, 'is public' if not v.anyt() else 'derives from %s without passing through a DP primitive' % (v.reason() or 'private data')),
               construct='return value of ' + q)
    # ---- state left on the mechanism object: as observable as the return value -------------------------------------------------------------------
    n_state = 0
    for q, me in sorted(T.receivers.items()):
        rel = [r for r, qq, c in ENTRIES if qq == q][0]
        fi = repo.func(rel, q)
        for attr, v in sorted((me.env or {}).items()):
            n_state += 1
            if v.anyt():
                ctx.ob('public-sink', fi, fi.node, False,
                       'self.%s, left on the mechanism object after %s, derives from %s without passing through a DP primitive (whoever holds the object reads it)'
                       % (attr, q, v.reason() or 'private data'), construct='state self.%s after %s' % (attr, q))
    ctx.counters['attributes left on mechanism objects'] = n_state
    # ---- releases ------------------------------------------------------------------------------------------
    rels = list(T.releases.values())
    for r in sorted(rels, key=lambda r: (r.mod.rel, r.node.lineno)):
        ctx.ob('releases-found', (r.mod.rel, r.func), r.node, True,
               '%s release of `%s` (reached through %s)' % (r.kind, U(r.data_expr)[:50], ' > '.join(r.stack[-3:])))
    ctx.floor('DP primitive sites declassified through', len(rels), 9)
    ctx.floor('private accessor sites', len(T.accessors), 8)
    ctx.counters['noise releases'] = sum(1 for r in rels if r.kind == 'noise')
    ctx.counters['selection releases'] = sum(1 for r in rels if r.kind == 'selection')
    for nte in sorted(set(T.notes)):
        ctx.note(nte)
    check_domains(ctx)


def local_defs(fi):
    out = {}
    for s in walk_shallow(fi.node):
        if isinstance(s, ast.Assign) and len(s.targets) == 1 and isinstance(s.targets[0], ast.Name):
            out.setdefault(s.targets[0].id, []).append(s.value)
    return out


def check_domains(ctx):
    repo = ctx.repo
    # ---- MST: undo map pairing ----------------------------------------------------------------------------------
    mst = repo.nfunc('mechanisms/mst.py', 'MST')
    undo = None
    for s in walk_shallow(mst.node):
        if isinstance(s, ast.Assign) and isinstance(s.targets[0], ast.Tuple) and isinstance(s.value, ast.Call) \
                and U(s.value.func) == 'compress_domain' and len(s.targets[0].elts) == 3:
            undo = U(s.targets[0].elts[2])
    rets = [r for r in walk_shallow(mst.node) if isinstance(r, ast.Return)]
    if undo is None:
        ctx.ob('domain-restored', mst, mst.node, all('compress_domain' not in U(c.func) for c in calls_in(mst.node)),
               'MST no longer compresses the domain: nothing to undo', construct='no compress_domain in MST')
    else:
        for r in rets:
            ok = isinstance(r.value, ast.Call) and U(r.value.func) == undo and len(r.value.args) == 1
            ctx.ob('domain-restored', mst, r, ok,
                   'the data was compressed (supports of size < domain size are merged); the returned dataset must go through the '
                   'undo map `%s` of that compression; returns `%s`' % (undo, U(r.value)[:60]))
    cd = repo.nfunc('mechanisms/mst.py', 'compress_domain')
    rets = [r for r in walk_shallow(cd.node) if isinstance(r, ast.Return)]
    defs = local_defs(cd)
    for r in rets:
        ok = False
        if isinstance(r.value, ast.Tuple) and len(r.value.elts) == 3:
            fwd, _, back = r.value.elts
            b = defs.get(U(back), [back])[-1] if isinstance(back, ast.Name) else back
            # the undo map as a lambda or as a nested function with a single return: (parameter, returned call)
            param_, body_ = None, None
            if isinstance(b, ast.Lambda) and len(b.args.args) == 1:
                param_, body_ = b.args.args[0].arg, b.body
            elif isinstance(back, ast.Name):
                nested = [n for n in cd.node.body if isinstance(n, ast.FunctionDef) and n.name == back.id]
                if len(nested) == 1 and len(nested[0].args.args) == 1:
                    stmts_ = [x for x in nested[0].body if not (isinstance(x, ast.Expr) and isinstance(x.value, ast.Constant))]
                    if len(stmts_) == 1 and isinstance(stmts_[0], ast.Return):
                        param_, body_ = nested[0].args.args[0].arg, stmts_[0].value
            extras_ok = set()
            if isinstance(fwd, ast.Name):
                # `compressed, aux = transform_data(data, S)`: the forward map hands back bookkeeping of its own, which the undo map may take
                fname_ = fwd.id
                for a_ in walk_shallow(cd.node):
                    if isinstance(a_, ast.Assign) and len(a_.targets) == 1 and isinstance(a_.targets[0], ast.Tuple) and a_.targets[0].elts \
                            and U(a_.targets[0].elts[0]) == fname_ and isinstance(a_.value, ast.Call) and U(a_.value.func) == 'transform_data':
                        extras_ok = {U(e_) for e_ in a_.targets[0].elts[1:]}
                        fwd = a_.value
                    elif isinstance(a_, ast.Assign) and len(a_.targets) == 1 and U(a_.targets[0]) == fname_ and isinstance(a_.value, ast.Call) \
                            and U(a_.value.func) == 'transform_data':
                        fwd = a_.value
            ok = isinstance(fwd, ast.Call) and U(fwd.func) == 'transform_data' and len(fwd.args) == 2 and \
                body_ is not None and isinstance(body_, ast.Call) and U(body_.func) == 'reverse_data' and \
                len(body_.args) >= 2 and U(body_.args[1]) == U(fwd.args[1]) and U(body_.args[0]) == param_ and \
                all(U(x_) in extras_ok for x_ in body_.args[2:]) and not body_.keywords
        ctx.ob('domain-restored', cd, r, ok, 'the undo map must reverse the forward map with the same supports table: '
               'transform_data(data, S) paired with lambda d: reverse_data(d, S)')
    # ---- the forward and the backward map keep the attribute set ---------------------------------------------------
    for q in ('transform_data', 'reverse_data'):
        fi = repo.nfunc('mechanisms/mst.py', q)
        ctx.analysed(fi)
        data = fi.params[0]
        loops = [s for s in fi.body if isinstance(s, ast.For) and U(s.iter) in (data + '.domain', data + '.domain.attrs')]
        rets = [r for r in walk_shallow(fi.node) if isinstance(r, ast.Return)]
        dom_name = None
        rv_ = rets[-1].value if rets else None
        if isinstance(rv_, ast.Tuple) and rv_.elts and isinstance(rv_.elts[0], ast.Call) and U(rv_.elts[0].func) == 'Dataset':
            rv_ = rv_.elts[0]                      # (dataset, bookkeeping)
        if rv_ is not None and isinstance(rv_, ast.Call) and U(rv_.func) == 'Dataset' and len(rv_.args) >= 2:
            dom_name = U(rv_.args[1])
        ok, why = False, 'unrecognised shape'
        if len(loops) == 1 and dom_name:
            col = U(loops[0].target)
            stores = [s for s in loops[0].body if isinstance(s, ast.Assign) and isinstance(s.targets[0], ast.Subscript)
                      and U(s.targets[0].slice) == col]
            dict_names = {U(s.targets[0].value) for s in stores}
            # newdom = Domain.fromdict(<dict>) after the loop; the dict must not be filtered / rebuilt in between
            after = fi.body[fi.body.index(loops[0]) + 1:]
            rebuilt = []
            src = None
            for s in after:
                if isinstance(s, ast.Assign) and len(s.targets) == 1 and isinstance(s.targets[0], ast.Name):
                    if U(s.targets[0]) == dom_name and isinstance(s.value, ast.Call) and U(s.value.func) in ('Domain.fromdict',) \
                            and U(s.value.args[0]) in dict_names:
                        src = U(s.value.args[0])
                    elif U(s.targets[0]) in dict_names and U(s.targets[0]) != dom_name:
                        rebuilt.append(s)
                    elif U(s.targets[0]) in dict_names and not (isinstance(s.value, ast.Call) and U(s.value.func) == 'Domain.fromdict'):
                        rebuilt.append(s)
            skips = [n for n in ast.walk(loops[0]) if isinstance(n, ast.Continue)]
            ok = bool(stores) and src is not None and not rebuilt and not skips
            why = 'stores %d, built from `%s`, rebuilt/filtered %s, skipped iterations %d' % (len(stores), src, [U(x)[:50] for x in rebuilt], len(skips))
        if not loops and dom_name:
            # the whole table at once: D = {col: <size> for col in data.domain} - every attribute, in the input's order; an `if` in the comprehension
            # leaves attributes out (entries added later come AFTER the others: the returned domain is a permutation of the input's)
            comps = [a for a in walk_shallow(fi.node) if isinstance(a, ast.Assign) and len(a.targets) == 1 and isinstance(a.value, ast.DictComp)
                     and len(a.value.generators) == 1 and U(a.value.generators[0].iter) in (data + '.domain', data + '.domain.attrs')
                     and U(a.value.key) == U(a.value.generators[0].target)]
            built = [a for a in walk_shallow(fi.node) if isinstance(a, ast.Assign) and len(a.targets) == 1 and U(a.targets[0]) == dom_name
                     and isinstance(a.value, ast.Call) and U(a.value.func) == 'Domain.fromdict' and a.value.args]
            if len(comps) == 1 and len(built) == 1 and U(built[0].value.args[0]) == U(comps[0].targets[0]):
                filt = comps[0].value.generators[0].ifs
                ok = not filt
                why = 'table built at once over `%s`%s' % (U(comps[0].value.generators[0].iter), '' if ok else
                                                           ', but only for the attributes with `%s`: the rest is added afterwards, behind them - the attribute '
                                                           'ORDER of the returned domain is no longer the input\'s' % U(filt[0])[:50])
        ctx.ob('domain-restored', fi, loops[0] if loops else fi.node, ok,
               '%s must give every attribute of its input an entry of the domain it returns (unconditional store per attribute, no '
               'filtering afterwards): an attribute dropped here is never restored by the undo map; %s' % (q, why))
    # ---- the other three: engine built on the input's own domain --------------------------------------------------------
    for rel, q in (('mechanisms/aim.py', 'AIM.run'), ('mechanisms/mwem+pgm.py', 'mwem_pgm'), ('mechanisms/adaptive_grid.py', 'adagrid')):
        fi = repo.func(rel, q)
        data = 'data'
        defs = local_defs(fi)
        engines = [c for c in calls_in(fi.node) if isinstance(c.func, ast.Name) and c.func.id == 'FactoredInference']
        if not engines:
            raise AnalysisError('%s: no FactoredInference construction found' % q)
        # data must not be rebound (e.g. to a compressed dataset) before the engine is built
        rebound = [s for s in walk_shallow(fi.node) if isinstance(s, (ast.Assign, ast.AugAssign)) and
                   data in [n for t in (s.targets if isinstance(s, ast.Assign) else [s.target]) for n in target_names(t)]]
        for c in engines:
            d = c.args[0] if c.args else None
            if isinstance(d, ast.Name) and d.id in defs and len(defs[d.id]) == 1:
                d = defs[d.id][0]
            ok = d is not None and U(d) == data + '.domain' and not rebound
            ctx.ob('domain-restored', fi, c, ok,
                   'the engine whose model is sampled must be built on the input dataset\'s own domain (`%s.domain`); built on `%s`%s'
                   % (data, U(c.args[0]) if c.args else None, '; `data` is rebound' if rebound else ''))
        rets = [r for r in walk_shallow(fi.node) if isinstance(r, ast.Return)]
        for r in rets:
            v = r.value
            if isinstance(v, ast.Name) and v.id in defs:
                v = defs[v.id][-1]
            ok = isinstance(v, ast.Call) and isinstance(v.func, ast.Attribute) and v.func.attr == 'synthetic_data'
            if not ok and isinstance(v, ast.Call) and U(v.func).split('.')[-1] == 'Dataset' and len(v.args) >= 2:
                # Dataset(<the sampled frame, columns picked / cast>, <the input's own domain>)
                def resolve(e):
                    seen = 0
                    while isinstance(e, ast.Name) and e.id in defs and len(defs[e.id]) == 1 and seen < 8:
                        e, seen = defs[e.id][0], seen + 1
                    return e
                dom_ok = U(resolve(v.args[1])) == data + '.domain' and not rebound
                x = resolve(v.args[0])
                while True:
                    if isinstance(x, ast.Call) and isinstance(x.func, ast.Attribute) and x.func.attr in ('astype', 'copy', 'reset_index', 'reindex'):
                        x = resolve(x.func.value)
                    elif isinstance(x, ast.Subscript):
                        x = resolve(x.value)
                    else:
                        break
                sampled = isinstance(x, ast.Attribute) and x.attr == 'df' and isinstance(resolve(x.value), ast.Call) and \
                    isinstance(resolve(x.value).func, ast.Attribute) and resolve(x.value).func.attr == 'synthetic_data'
                if not sampled:
                    raise AnalysisError('%s: returns `%s`, whose records this analysis cannot trace to a synthetic_data() sample' % (q, U(r.value)[:60]))
                ctx.ob('domain-restored', fi, r, dom_ok, 'the sampled records are returned over the input dataset\'s own domain (`%s.domain`); returns `%s`'
                       % (data, U(r.value)[:60]))
                continue
            ctx.ob('domain-restored', fi, r, ok, 'the returned dataset is sampled from the fitted model (`<model>.synthetic_data()`); returns `%s`' % U(r.value)[:60])

"""C07 - zCDP <-> (eps, delta) conversions (structural clauses on mechanisms/cdp2adp.py).

  delta-formula      the delta computed from the searched order alpha is, as a normal form, the published bound
                     exp((a-1)(a*rho-eps) + a*log(1-1/a)) / (a-1)          (Canonne-Kamath-Steinke 2020, Prop. 12)
  derivative         the quantity whose sign steers the search is d/d alpha of log(delta-formula)   (structural
                     differentiation of the source's own formula)
  alpha-range        the lower end of the order bracket is a literal > 1, and the upper end is provably to the right of the
                     optimum: derivative(amax) >= 0 via  log(1-1/a) >= -1/(a-1)  or  >= -log 2 (a >= 2), sign-definite
  orientation        a negative derivative moves the lower end (log delta is convex in alpha)
  midpoint           each of the three searches bisects its own bracket: mid = (lo + hi)/2
  sound-side         in cdp_eps / cdp_rho the end that is assigned when `cdp_delta(.) <= delta` holds is the end returned,
                     and the midpoint is passed in the argument position of the searched quantity
  sound-seed         the sound end starts from a value for which the invariant holds: 0 for rho (with cdp_delta(0, .) = 0),
                     rho + 2 sqrt(rho log(1/delta)) for eps (Bun-Steinke 2016, Prop. 1.3)
  clamp              cdp_delta returns min(delta, 1)
  early-exit         the only other returns are the tabled degenerate cases under exact tests: rho == 0 (delta 0 / eps 0) and delta >= 1
Not decided: monotonicity, mutual inversion within tolerance, comparison with the exact Gaussian delta (numeric).
"""
import ast

from ..srcmodel import AnalysisError, U, calls_in, walk_shallow, target_names
from ..symexpr import SymEval, Atoms, Alg, Rat, const, sym

CDP = 'mechanisms/cdp2adp.py'


def parse(s):
    return ast.parse(s, mode='eval').body


class Search:
    """structure of one bracket search: for ...: mid = f(lo, hi); if TEST: A = mid else: B = mid"""

    def __init__(self, fi):
        self.fi = fi
        loops = [s for s in fi.body if isinstance(s, (ast.For, ast.While))]
        if len(loops) != 1:
            raise AnalysisError('%s: expected exactly one search loop' % fi.qualname)
        self.loop = loops[0]
        body = self.loop.body
        mids = [s for s in body if isinstance(s, ast.Assign) and len(s.targets) == 1 and isinstance(s.targets[0], ast.Name)]
        ifs = [s for s in body if isinstance(s, ast.If)]
        if len(ifs) != 1 or not mids:
            raise AnalysisError('%s: unrecognised search body' % fi.qualname)
        self.branch = ifs[0]
        self.test = ifs[0].test

        def assigned(block):
            out = []
            for s in block:
                if isinstance(s, ast.Assign) and len(s.targets) == 1 and isinstance(s.targets[0], ast.Name):
                    out.append((s.targets[0].id, s.value, s))
            return out
        t, f = assigned(ifs[0].body), assigned(ifs[0].orelse)
        if len(t) != 1 or len(f) != 1:
            raise AnalysisError('%s: each branch of the search must move exactly one end of the bracket' % fi.qualname)
        self.true_var, self.true_val, self.true_stmt = t[0]
        self.false_var, self.false_val, self.false_stmt = f[0]
        self.mid_var = U(self.true_val)
        self.mid_stmt = None
        self.defs_in_loop = {}
        for s in mids:
            self.defs_in_loop[s.targets[0].id] = s
        if self.mid_var not in self.defs_in_loop or U(self.false_val) != self.mid_var:
            raise AnalysisError('%s: both branches must assign the midpoint variable' % fi.qualname)
        self.mid_stmt = self.defs_in_loop[self.mid_var]
        # initial values of the two ends (last assignment before the loop)
        self.inits = {}
        for s in fi.body:
            if s is self.loop:
                break
            if isinstance(s, ast.Assign) and len(s.targets) == 1 and isinstance(s.targets[0], ast.Name):
                self.inits[s.targets[0].id] = s
        for v in (self.true_var, self.false_var):
            if v not in self.inits:
                raise AnalysisError('%s: bracket end `%s` has no initial value before the loop' % (fi.qualname, v))
        self.after = fi.body[fi.body.index(self.loop) + 1:]


def run(ctx):
    repo = ctx.repo
    ctx.explanation = (
        'Symbolic normal forms (rational functions over Fractions with log/exp atoms, structural differentiation) of the '
        'formulas in cdp2adp.py compared with the published bounds, plus a bisection typestate: which bracket end is moved '
        'under which condition, which end is returned, and what it is seeded with. No numeric evaluation.')
    ctx.rule_text = 'one obligation per formula identity, bracket end, branch orientation, midpoint, seed and return'
    ctx.trusted = ['Canonne-Kamath-Steinke 2020 Prop. 12 / Cor. 13 and Bun-Steinke 2016 Prop. 1.3 as transcribed in this rule',
                   'log delta(alpha) is convex in alpha; log(1-x) >= -x/(1-x)']
    cd = repo.nfunc(CDP, 'cdp_delta')
    ce = repo.nfunc(CDP, 'cdp_eps')
    cr = repo.nfunc(CDP, 'cdp_rho')
    check_cdp_delta(ctx, cd)
    check_inverse(ctx, ce, cd, searched=1, kind='eps')
    check_inverse(ctx, cr, cd, searched=0, kind='rho')
    ctx.floor('obligations on cdp2adp.py', len(ctx.obligations), 12)


def check_cdp_delta(ctx, fi):
    ctx.analysed(fi)
    rho, eps = fi.params[0], fi.params[1]
    S = Search(fi)
    alpha = S.mid_var
    atoms = Atoms()
    ev = SymEval({}, atoms)
    # ---- which end is the lower one ----------------------------------------------------------
    a, b = S.true_var, S.false_var
    ia, ib = ev.ev(S.inits[a].value), ev.ev(S.inits[b].value)
    if (ib - ia).is_rat() and (ib - ia).rat().sign_definite_nonneg() and not (ib - ia).rat().iszero():
        lo, hi = a, b
    elif (ia - ib).is_rat() and (ia - ib).rat().sign_definite_nonneg():
        lo, hi = b, a
    else:
        ctx.ob('alpha-range', fi, S.inits[a], False, 'cannot order the initial bracket ends `%s`=%s and `%s`=%s' % (a, ia, b, ib))
        return
    lo_init, hi_init = ev.ev(S.inits[lo].value), ev.ev(S.inits[hi].value)
    ok = lo_init.is_rat() and lo_init.rat().isconst() and lo_init.rat().constval() > 1
    ctx.ob('alpha-range', fi, S.inits[lo], ok, 'lower end of the order bracket must be a literal > 1 (alpha in (1, inf)); is %s' % lo_init)
    # ---- midpoint ------------------------------------------------------------------------------
    mid = ev.ev(S.mid_stmt.value)
    want = (sym(lo) + sym(hi)) / const(2)
    ctx.ob('midpoint', fi, S.mid_stmt, mid.eq(want), 'search must bisect its own bracket: %s = (%s + %s)/2' % (alpha, lo, hi))
    # ---- the steering quantity and the final formula ---------------------------------------------------
    t = S.test
    if not (isinstance(t, ast.Compare) and len(t.ops) == 1 and isinstance(t.left, ast.Name)
            and isinstance(t.comparators[0], ast.Constant) and t.comparators[0].value == 0):
        raise AnalysisError('cdp_delta: unrecognised steering test `%s`' % U(t))
    dvar = t.left.id
    if dvar not in S.defs_in_loop:
        raise AnalysisError('cdp_delta: steering quantity `%s` not computed in the loop' % dvar)
    deriv_src = ev.ev(S.defs_in_loop[dvar].value).rat()
    # final delta expression: the assignment after the loop feeding the return
    delta_stmt = None
    for s in S.after:
        if isinstance(s, ast.Assign) and len(s.targets) == 1 and isinstance(s.targets[0], ast.Name):
            delta_stmt = s
    rets = [r for r in S.after if isinstance(r, ast.Return)]
    if delta_stmt is None or len(rets) != 1:
        raise AnalysisError('cdp_delta: final delta computation / return not found')
    dname = delta_stmt.targets[0].id
    delta_src = ev.ev(delta_stmt.value).rat()
    oracle = SymEval({'a': sym(alpha), 'rho': sym(rho), 'eps': sym(eps)}, atoms, strict=True).ev(
        parse('exp((a-1)*(a*rho-eps) + a*log(1-1/a)) / (a-1)')).rat()
    ctx.ob('delta-formula', fi, delta_stmt, delta_src.eq(oracle),
           'delta must equal exp((a-1)(a*rho-eps) + a*log(1-1/a))/(a-1) with a=%s; source normal form %r' % (alpha, delta_src))
    dlog = delta_src.diff(alpha, atoms) / delta_src
    ctx.ob('derivative', fi, S.defs_in_loop[dvar], dlog.eq(deriv_src),
           'steering quantity must be d/d%s log(delta): expected %r, source %r' % (alpha, dlog, deriv_src))
    # ---- orientation ---------------------------------------------------------------------------------
    op = t.ops[0]
    neg_branch_var = S.true_var if isinstance(op, (ast.Lt, ast.LtE)) else (S.false_var if isinstance(op, (ast.Gt, ast.GtE)) else None)
    ctx.ob('orientation', fi, S.branch, neg_branch_var == lo,
           'log delta is convex in alpha: a negative derivative means the optimum lies to the right, so the LOWER end `%s` must move; '
           'the source moves `%s`' % (lo, neg_branch_var))
    # ---- upper end is to the right of the optimum ------------------------------------------------------
    hi_rat = hi_init.rat() if hi_init.is_rat() else None
    proved, tried = False, []
    if hi_rat is not None:
        r_, e_ = Rat.sym(rho), Rat.sym(eps)
        base = (Rat.const(2) * hi_rat - Rat.const(1)) * r_ - e_
        b1 = base - Rat.const(1) / (hi_rat - Rat.const(1))          # log(1-1/a) >= -1/(a-1)
        tried.append(('log(1-1/a) >= -1/(a-1)', b1))
        if (hi_rat - Rat.const(1)).sign_definite_nonneg() and b1.sign_definite_nonneg():
            proved = True
        from fractions import Fraction
        b2 = base - Rat.const(Fraction(6932, 10000))                 # a >= 2: log(1-1/a) >= -log 2
        tried.append(('a >= 2 and log(1-1/a) >= -log 2', b2))
        if (hi_rat - Rat.const(2)).sign_definite_nonneg() and b2.sign_definite_nonneg():
            proved = True
    ctx.ob('alpha-range', fi, S.inits[hi], proved,
           'upper end `%s` = %s must be provably right of the optimal order (derivative(%s) >= 0 for all rho, eps > 0); '
           'lower bounds tried: %s' % (hi, hi_init, hi, '; '.join('%s -> %r' % x for x in tried)),
           construct='upper end: ' + U(S.inits[hi]))
    # ---- clamp and degenerate case ----------------------------------------------------------------------
    rv = rets[0].value
    ok = isinstance(rv, ast.Call) and U(rv.func) in ('min',) and {U(x) for x in rv.args} in ({dname, '1.0'}, {dname, '1'})
    ctx.ob('clamp', fi, rets[0], ok, 'cdp_delta must return min(delta, 1)')
    mod = fi.module
    early_exits(ctx, fi, lambda t: is_exact_zero_test(t, rho, mod), rets, 'rho == 0')
    zero = zero_case(fi, rho)
    ctx.ob('sound-seed', fi, zero or fi.node, zero is not None,
           'cdp_delta(0, eps) must be 0 (rho = 0 is the seed of the rho search): early return `if %s == 0: return 0`' % rho,
           construct=U(zero) if zero is not None else 'no rho == 0 case in cdp_delta')


def is_exact_zero_test(t, name, mod):
    """`name == 0` (or a module-level helper whose body is exactly that comparison)"""
    if isinstance(t, ast.Compare) and len(t.ops) == 1 and U(t.left) == name and isinstance(t.ops[0], ast.Eq) \
            and U(t.comparators[0]) in ('0', '0.0'):
        return True
    if isinstance(t, ast.Call) and isinstance(t.func, ast.Name) and len(t.args) == 1 and U(t.args[0]) == name \
            and t.func.id in mod.funcs:
        h = mod.funcs[t.func.id]
        body = h.body
        if len(body) == 1 and isinstance(body[0], ast.Return) and len(h.params) == 1:
            return is_exact_zero_test(body[0].value, h.params[0], mod)
    return False


def zero_case(fi, rho):
    from ..normalise import Defs, expand
    defs = Defs(fi.body)
    for s in fi.body:
        if isinstance(s, ast.If) and is_exact_zero_test(expand(s.test, defs), rho, fi.module) and \
                len(s.body) == 1 and isinstance(s.body[0], ast.Return) and U(s.body[0].value) in ('0', '0.0'):
            return s
    return None


def early_exits(ctx, fi, allowed_tests, final_returns, what):
    """every return other than the final one must be one of the tabled degenerate cases (exact tests)"""
    n = 0
    for r in walk_shallow(fi.node):
        if not isinstance(r, ast.Return) or any(r is f for f in final_returns):
            continue
        n += 1
        par = getattr(r, '_parent', None)
        from ..normalise import Defs, expand
        ok = isinstance(par, ast.If) and r in par.body and len(par.body) == 1 and allowed_tests(expand(par.test, Defs(fi.body))) \
            and r.value is not None and U(r.value) in ('0', '0.0')
        ctx.ob('early-exit', fi, par if isinstance(par, ast.If) else r, ok,
               '%s: an early return must be one of the degenerate cases with an exact test (%s) returning 0; found `%s` under `%s`'
               % (fi.name, what, U(r), U(par.test) if isinstance(par, ast.If) else 'no test'))
    return n


def check_inverse(ctx, fi, cd, searched, kind):
    """cdp_eps (searched=1: eps is the 2nd argument of cdp_delta) / cdp_rho (searched=0)"""
    ctx.analysed(fi)
    S = Search(fi)
    atoms = Atoms()
    ev = SymEval({}, atoms)
    other_param = fi.params[0]       # rho for cdp_eps, eps for cdp_rho
    delta_param = fi.params[1]
    t = S.test
    if not (isinstance(t, ast.Compare) and len(t.ops) == 1 and isinstance(t.left, ast.Call)
            and U(t.left.func) == cd.name and len(t.left.args) == 2):
        raise AnalysisError('%s: search test must compare %s(...) with delta; got `%s`' % (fi.qualname, cd.name, U(t)))
    call = t.left
    op = t.ops[0]
    rhs = U(t.comparators[0])
    args = [U(a) for a in call.args]
    want_args = [None, None]
    want_args[searched] = S.mid_var
    want_args[1 - searched] = other_param
    ctx.ob('sound-side', fi, call, args == want_args and rhs == delta_param,
           'the midpoint `%s` must be passed as the %s argument of %s, the other argument is the parameter `%s`, and the result '
           'is compared with `%s`; got %s(%s) vs %s' % (S.mid_var, 'second (eps)' if searched else 'first (rho)', cd.name,
                                                          other_param, delta_param, cd.name, ', '.join(args), rhs),
           construct=U(t))
    if isinstance(op, (ast.LtE, ast.Lt)):
        sound, unsound = S.true_var, S.false_var
    elif isinstance(op, (ast.GtE, ast.Gt)):
        sound, unsound = S.false_var, S.true_var
    else:
        raise AnalysisError('%s: unrecognised comparison in the search test' % fi.qualname)
    rets = [r for r in S.after if isinstance(r, ast.Return)]
    if len(rets) != 1:
        raise AnalysisError('%s: expected one return after the search loop' % fi.qualname)
    ctx.ob('sound-side', fi, rets[0], U(rets[0].value) == sound,
           'the end assigned while `%s(.) <= %s` holds is `%s`; the function must return it (returns `%s`)'
           % (cd.name, delta_param, sound, U(rets[0].value)))
    mod = fi.module

    def allowed(t):
        parts = t.values if isinstance(t, ast.BoolOp) and isinstance(t.op, ast.Or) else [t]
        for x in parts:
            big_delta = isinstance(x, ast.Compare) and len(x.ops) == 1 and U(x.left) == delta_param and \
                isinstance(x.ops[0], (ast.GtE, ast.Gt)) and U(x.comparators[0]) in ('1', '1.0')
            zero_rho = kind == 'eps' and is_exact_zero_test(x, other_param, mod)
            if not (big_delta or zero_rho):
                return False
        return True
    early_exits(ctx, fi, allowed, rets, 'delta >= 1' + (' or rho == 0' if kind == 'eps' else ''))
    mid = ev.ev(S.mid_stmt.value)
    ctx.ob('midpoint', fi, S.mid_stmt, mid.eq((sym(S.true_var) + sym(S.false_var)) / const(2)),
           'search must bisect its own bracket: %s = (%s + %s)/2' % (S.mid_var, S.true_var, S.false_var))
    # direction: delta decreases in eps and increases in rho, so the sound end is the upper one for eps, the lower for rho
    init_sound = ev.ev(S.inits[sound].value)
    if kind == 'rho':
        ok = init_sound.is_rat() and init_sound.rat().iszero()
        ctx.ob('sound-seed', fi, S.inits[sound], ok,
               'the sound end of the rho search must start at 0 (cdp_delta(0, eps) = 0 <= delta); starts at %s' % init_sound)
    else:
        want = SymEval({'rho': sym(other_param), 'delta': sym(delta_param)}, atoms, strict=True).ev(
            parse('rho + 2*sqrt(rho*log(1/delta))'))
        ctx.ob('sound-seed', fi, S.inits[sound], init_sound.eq(want),
               'the sound end of the eps search must start at rho + 2 sqrt(rho log(1/delta)) (standard bound, for which '
               'cdp_delta <= delta); starts at %s' % init_sound)
        # and the early exits keep eps = 0 only where anything goes
    # the unsound end must start on the other side of the sound one
    init_unsound = ev.ev(S.inits[unsound].value)
    d = (init_unsound - init_sound) if kind == 'rho' else (init_sound - init_unsound)
    ok = all(c.sign_definite_nonneg() for c, r in d.terms)
    ctx.ob('sound-side', fi, S.inits[unsound], ok,
           'the other end `%s` must start on the %s side of the sound end' % (unsound, 'upper' if kind == 'rho' else 'lower'))

"""C07 - zCDP <-> (eps, delta) conversions (structural clauses on mechanisms/cdp2adp.py).

  delta-formula      the delta computed from the searched order alpha is, as a normal form, the published bound
                     exp((a-1)(a*rho-eps) + a*log(1-1/a)) / (a-1)          (Canonne-Kamath-Steinke 2020, Prop. 12)
  derivative         the quantity whose sign steers the search is d/d alpha of log(delta-formula)   (structural
                     differentiation of the source's own formula)
  alpha-range        the lower end of the order bracket is a literal > 1, and the upper end is provably to the right of the
                     optimum: derivative(amax) >= 0 via  log(1-1/a) >= -1/(a-1)  or  >= -log 2 (a >= 2), sign-definite
  orientation        a negative derivative moves the lower end (log delta is convex in alpha)
  midpoint           each of the three searches bisects its own bracket: mid = (lo + hi)/2
  sound-side         in cdp_eps / cdp_rho the end that is assigned when `cdp_delta(.) <= delta` holds is the end returned,
                     and the midpoint is passed in the argument position of the searched quantity
  sound-seed         the sound end starts from a value for which the invariant holds: 0 for rho (with cdp_delta(0, .) = 0),
                     rho + 2 sqrt(rho log(1/delta)) for eps (Bun-Steinke 2016, Prop. 1.3)
  clamp              cdp_delta returns min(delta, 1)
  search-termination a search leaves its loop early only at a fixed point of the bisection (midpoint == an end of the bracket), never on
                     an absolute width tolerance
  search-skip        when the number of passes of a search depends on a condition (`range(0 if C else N)`), C must imply that the search
                     would end at the preset value anyway: the steering test, evaluated at the preset end of the bracket, already keeps
                     that end fixed (the steering quantity is monotone in the searched variable).  C and that requirement are compared
                     as affine thresholds  N(rho, eps) + t >= 0  with numeric constants
  early-exit         the only other returns are the tabled degenerate cases under exact tests: rho == 0 (delta 0 / eps 0) and delta >= 1
  probe-step          a conditional move of a bracket end before the search loop is one more bisection step at a point strictly inside the bracket,
                     moving the end the loop moves for the sign of the steering quantity at that point; module-level state may only feed such probes.
                     New optional parameters of cdp_delta are fixed at their defaults; an explicit value at a call site must be the expression
                     cdp_delta computes itself for the same arguments (sound-side)
Not decided: monotonicity, mutual inversion within tolerance, comparison with the exact Gaussian delta (numeric).
"""
import ast

from ..srcmodel import AnalysisError, U, calls_in, walk_shallow, target_names
from ..symexpr import SymEval, Atoms, Alg, Rat, const, sym
from ..normalise import single_exit
from ..engines.blockeval import BlockEval, T, clone
import copy

CDP = 'mechanisms/cdp2adp.py'


def parse(s):
    return ast.parse(s, mode='eval').body


class Replace(ast.NodeTransformer):
    def __init__(self, fn):
        self.fn = fn

    def visit(self, node):
        r = self.fn(node)
        return r if r is not None else self.generic_visit(node)


def strip_not(t, pol=True):
    while isinstance(t, ast.UnaryOp) and isinstance(t.op, ast.Not):
        t, pol = t.operand, not pol
    return t, pol


FLIP = {ast.Lt: ast.Gt, ast.Gt: ast.Lt, ast.LtE: ast.GtE, ast.GtE: ast.LtE, ast.Eq: ast.Eq, ast.NotEq: ast.NotEq}
NEGOP = {ast.Lt: ast.GtE, ast.GtE: ast.Lt, ast.Gt: ast.LtE, ast.LtE: ast.Gt}


def demorgan_chain(t):
    """not (a < m < b)  ->  m <= a or m >= b"""
    if isinstance(t, ast.UnaryOp) and isinstance(t.op, ast.Not) and isinstance(t.operand, ast.Compare) and len(t.operand.ops) == 2 \
            and all(isinstance(o, ast.Lt) for o in t.operand.ops):
        a, m, b = t.operand.left, t.operand.comparators[0], t.operand.comparators[1]
        return ast.BoolOp(op=ast.Or(), values=[ast.Compare(left=clone(m), ops=[ast.LtE()], comparators=[clone(a)]),
                                               ast.Compare(left=clone(m), ops=[ast.GtE()], comparators=[clone(b)])])
    return t


class Search:
    """Value-level structure of one bracket search, read off the *expanded* function (engines/blockeval.py):
    per pass over the loop body each bracket end X becomes `MID if TEST else X` (or the mirror image); locals, hoisted
    temporaries, tuple/conditional assignment, guard clauses and single-exit style all denote the same terms."""

    MID = '__mid__'

    def returns_to_breaks(self, body):
        """for ..: ..; if C: return V        ->   for ..: ..; if C: break          when the function ends `return W` right after the loop
        return W                                    return W                        (V is remembered: it must be W, see check_termination)"""
        for i, st in enumerate(body):
            if isinstance(st, (ast.For, ast.While)) and i + 1 < len(body) and isinstance(body[i + 1], ast.Return) and body[i + 1].value is not None and i + 2 == len(body):
                W = body[i + 1].value
                for blk_owner in ast.walk(st):
                    for fld in ('body', 'orelse'):
                        blk = getattr(blk_owner, fld, None)
                        if not isinstance(blk, list):
                            continue
                        for j, x in enumerate(blk):
                            if isinstance(x, ast.If) and not x.orelse and len(x.body) == 1 and isinstance(x.body[0], ast.Return) and x.body[0].value is not None:
                                self.early_returns.append((x, x.body[0].value, W))
                                new = ast.If(test=demorgan_chain(x.test), body=[ast.copy_location(ast.Break(), x.body[0])], orelse=[])
                                blk[j] = ast.copy_location(new, x)
                                ast.fix_missing_locations(blk[j])
        return body

    def __init__(self, fi):
        self.fi = fi
        self.early_returns = []
        stmts, _ = single_exit(self.returns_to_breaks(clone(fi.body)), '__ret__')
        be = BlockEval(fi.qualname, loop_ok=lambda s: True)
        be.run(stmts)
        self.stmts = stmts
        if len(be.loops_done) != 1:
            raise AnalysisError('%s: expected exactly one search loop' % fi.qualname)
        self.loop, self.entry, body_env, self.loop_pc = be.loops_done[0]
        ends = {}
        for k, v in body_env.items():
            if isinstance(v, ast.IfExp) and (T(v.body) == k) != (T(v.orelse) == k):
                test, pol = strip_not(v.test)
                moved_when_true = (T(v.orelse) == k) == pol
                ends[k] = (test, moved_when_true, v.orelse if T(v.body) == k else v.body)
        if len(ends) != 2:
            raise AnalysisError('%s: unrecognised search body: bracket ends that move conditionally: %s' % (fi.qualname, sorted(ends)))
        (a, (ta, pa, ma)), (b, (tb, pb, mb)) = sorted(ends.items())
        if T(ta) != T(tb) or pa == pb:
            raise AnalysisError('%s: the two bracket ends must move under complementary outcomes of one test' % fi.qualname)
        if T(ma) != T(mb):
            raise AnalysisError('%s: both branches must assign the same midpoint; got `%s` and `%s`' % (fi.qualname, U(ma), U(mb)))
        self.true_var, self.false_var = (a, b) if pa else (b, a)
        self.mid_expr = ma
        mid_text = T(ma)
        self.mid_vars = {k for k, v in body_env.items() if T(v) == mid_text}
        self.mid_var = sorted(self.mid_vars)[0] if self.mid_vars else '<midpoint>'
        self.test = self.with_mid(ta)
        for v in (self.true_var, self.false_var):
            if v not in self.entry:
                raise AnalysisError('%s: bracket end `%s` has no initial value before the loop' % (fi.qualname, v))
        self.inits = {v: self.entry[v] for v in (self.true_var, self.false_var)}
        if '__ret__' not in be.env:
            raise AnalysisError('%s: no result' % fi.qualname)
        self.result = self.with_mid(be.env['__ret__'], after_loop=True)
        # leaves of the conditional result
        self.leaves = []

        def leaves(e, path):
            if isinstance(e, ast.IfExp):
                t, pol = strip_not(e.test)
                leaves(e.body, path + [(t, pol)])
                leaves(e.orelse, path + [(t, not pol)])
            else:
                self.leaves.append((e, path))
        leaves(self.result, [])
        loopvars = set(body_env) | {self.MID}
        self.final = [(e, p) for e, p in self.leaves if {n.id for n in ast.walk(e) if isinstance(n, ast.Name)} & loopvars]
        self.early = [(e, p) for e, p in self.leaves if not ({n.id for n in ast.walk(e) if isinstance(n, ast.Name)} & loopvars)]
        if len(self.final) != 1:
            raise AnalysisError('%s: expected one result computed from the search (found %d)' % (fi.qualname, len(self.final)))

    def with_mid(self, e, after_loop=False):
        mid_text = T(self.mid_expr)

        def fn(n):
            if T(n) == mid_text and not isinstance(n, ast.Name):
                return ast.Name(id=self.MID, ctx=ast.Load())
            if after_loop and isinstance(n, ast.Name) and n.id in self.mid_vars:
                return ast.Name(id=self.MID, ctx=ast.Load())
            return None
        return Replace(fn).visit(clone(e))

    def where(self, var):
        """a statement to anchor the report at: first assignment of `var` in the source"""
        for n in ast.walk(self.fi.node):
            if isinstance(n, ast.Assign) and any(var in target_names(t) for t in n.targets):
                return n
        return self.loop

    def compare(self):
        """the steering test as (left, op class, right) with polarity folded in"""
        t = self.test
        if not (isinstance(t, ast.Compare) and len(t.ops) == 1):
            raise AnalysisError('%s: unrecognised search test `%s`' % (self.fi.qualname, U(t)))
        return t.left, type(t.ops[0]), t.comparators[0]


def run(ctx):
    repo = ctx.repo
    ctx.explanation = (
        'Symbolic normal forms (rational functions over Fractions with log/exp atoms, structural differentiation) of the '
        'formulas in cdp2adp.py compared with the published bounds, plus a bisection typestate: which bracket end is moved '
        'under which condition, which end is returned, and what it is seeded with. No numeric evaluation.')
    ctx.rule_text = 'one obligation per formula identity, bracket end, branch orientation, midpoint, seed and return'
    ctx.trusted = ['Canonne-Kamath-Steinke 2020 Prop. 12 / Cor. 13 and Bun-Steinke 2016 Prop. 1.3 as transcribed in this rule',
                   'log delta(alpha) is convex in alpha; log(1-x) >= -x/(1-x)']
    cd = repo.nfunc(CDP, 'cdp_delta')
    ce = repo.nfunc(CDP, 'cdp_eps')
    cr = repo.nfunc(CDP, 'cdp_rho')
    # helpers that compute cdp_delta's optional arguments stay calls in the inverse searches (their body is analysed inside cdp_delta)
    helpers = {U(c.func) for e_ in default_computations(cd).values() for c in ast.walk(e_) if isinstance(c, ast.Call) and isinstance(c.func, ast.Name)}
    if helpers:
        from ..normalise import normalised_keeping
        ce = normalised_keeping(repo, repo.func(CDP, 'cdp_eps'), helpers)
        cr = normalised_keeping(repo, repo.func(CDP, 'cdp_rho'), helpers)
    check_cdp_delta(ctx, cd)
    check_inverse(ctx, ce, cd, searched=1, kind='eps')
    check_inverse(ctx, cr, cd, searched=0, kind='rho')
    ctx.floor('obligations on cdp2adp.py', len(ctx.obligations), 12)


def default_computations(cd):
    """new optional parameters of cdp_delta that default to None and are computed when absent: {param: expression in cdp_delta's own
    parameters} read off `if p is None: p = E` at the top level of the (un-inlined) function"""
    raw = getattr(cd, 'original', cd)
    out = {}
    for st in raw.node.body:
        if isinstance(st, ast.If) and isinstance(st.test, ast.Compare) and len(st.test.ops) == 1 and isinstance(st.test.ops[0], ast.Is) \
                and isinstance(st.test.left, ast.Name) and U(st.test.comparators[0]) == 'None' and len(st.body) == 1 and not st.orelse \
                and isinstance(st.body[0], ast.Assign) and U(st.body[0].targets[0]) == st.test.left.id:
            out[st.test.left.id] = st.body[0].value
    return out


def split_probes(fi):
    """-> (fi without them, [probe statements], [stores into module-level state]).  A probe is a conditional before the search loop that
    assigns a name the loop assigns (a bracket end); module-level state (`_last[0] = alpha`) is bookkeeping for such probes."""
    from ..normalise import NormFunc
    node = clone(fi.node)
    loops = [i for i, s_ in enumerate(node.body) if isinstance(s_, (ast.For, ast.While))]
    if len(loops) != 1:
        return fi, [], []
    li = loops[0]
    loop_assigned = {n.id for n in ast.walk(node.body[li]) if isinstance(n, ast.Name) and isinstance(n.ctx, ast.Store)}
    local = {n.id for n in ast.walk(node) if isinstance(n, ast.Name) and isinstance(n.ctx, ast.Store)} | set(fi.params)
    probes, state, keep = [], [], []
    for i, s_ in enumerate(node.body):
        stored = {n.id for n in ast.walk(s_) if isinstance(n, ast.Name) and isinstance(n.ctx, ast.Store)}
        if i < li and isinstance(s_, ast.If) and stored & loop_assigned:
            probes.append(s_)
        elif isinstance(s_, ast.Assign) and len(s_.targets) == 1 and isinstance(s_.targets[0], ast.Subscript) \
                and isinstance(s_.targets[0].value, ast.Name) and s_.targets[0].value.id not in local:
            state.append(s_)
        else:
            keep.append(s_)
    if not probes and not state:
        return fi, [], []
    node.body = keep
    ast.fix_missing_locations(node)
    for n in ast.walk(node):
        for ch in ast.iter_child_nodes(n):
            ch._parent = n
    return NormFunc(getattr(fi, 'original', fi), node, getattr(fi, 'inlined', []), getattr(fi, 'memo_issues', ())), probes, state


def check_probes(ctx, fi, S, probes, state):
    """A probe before the loop is one more bisection step at a point of its own choosing: sound for ANY point h strictly inside the
    bracket, provided the end that moves to h is the one the loop itself would move for the sign of the steering quantity AT h.  Any other
    change of a bracket end (moved without the steering quantity being evaluated at the new position) can put the optimum outside the
    bracket; the search then sticks at that end.  The probe point may come from anywhere (e.g. remembered from an earlier call): no
    claim is made about its value."""
    ends = {S.true_var: True, S.false_var: False}

    def paths(stmts, conds, assigns):
        for i, s_ in enumerate(stmts):
            if isinstance(s_, ast.If):
                rest = stmts[i + 1:]
                out = []
                out += paths(s_.body + rest, conds + [(s_.test, True)], dict(assigns))
                out += paths(s_.orelse + rest, conds + [(s_.test, False)], dict(assigns))
                return out
            if isinstance(s_, ast.Assign) and len(s_.targets) == 1 and isinstance(s_.targets[0], ast.Name):
                assigns = dict(assigns)
                assigns.setdefault(s_.targets[0].id, []).append((s_, s_.value, list(conds)))
            elif isinstance(s_, ast.Assign) and len(s_.targets) == 1 and isinstance(s_.targets[0], ast.Tuple) and isinstance(s_.value, ast.Tuple):
                assigns = dict(assigns)
                for t_, v_ in zip(s_.targets[0].elts, s_.value.elts):
                    if isinstance(t_, ast.Name):
                        assigns.setdefault(t_.id, []).append((s_, v_, list(conds)))
            elif not isinstance(s_, (ast.Pass, ast.Expr)):
                raise AnalysisError('%s: statement `%s` in a probe before the search is not decided' % (fi.qualname, U(s_)[:60]))
        return [assigns]

    def conjuncts(conds):
        out = []
        for t, pol in conds:
            t, pol = strip_not(t, pol)
            if pol and isinstance(t, ast.BoolOp) and isinstance(t.op, ast.And):
                out += [(x, True) for x in t.values]
            else:
                out.append((t, pol))
        return out

    def inside(h, conds):
        """do the conditions put h strictly between the two ends?"""
        below, above = set(), set()
        for t, pol in conjuncts(conds):
            if not pol or not isinstance(t, ast.Compare):
                continue
            terms = [t.left] + list(t.comparators)
            for (x, op, y) in zip(terms, t.ops, terms[1:]):
                if isinstance(op, (ast.Lt, ast.LtE)):
                    lo_, hi_ = x, y
                elif isinstance(op, (ast.Gt, ast.GtE)):
                    lo_, hi_ = y, x
                else:
                    continue
                if T(hi_) == h and T(lo_) in ends:
                    below.add(T(lo_))
                if T(lo_) == h and T(hi_) in ends:
                    above.add(T(hi_))
        return len(below) == 1 and len(above) == 1 and below != above

    def steer_at(h, conds):
        """polarity of the loop's own steering test evaluated at h, if the path has established one"""
        want = Replace(lambda n: ast.parse(h, mode='eval').body if isinstance(n, ast.Name) and n.id == S.MID else None).visit(clone(S.test))
        atoms = Atoms()
        for t, pol in conjuncts(conds):
            t, pol = strip_not(t, pol)
            if T(t) == T(want):
                return pol
            if isinstance(t, ast.Compare) and isinstance(want, ast.Compare) and len(t.ops) == 1 and type(t.ops[0]) is type(want.ops[0]):
                try:
                    ev = SymEval({}, atoms)
                    if (ev.ev(t.left) - ev.ev(t.comparators[0])).eq(ev.ev(want.left) - ev.ev(want.comparators[0])):
                        return pol
                except AnalysisError:
                    pass
        return None
    n = 0
    for P in probes:
        for assigns in paths([P], [], {}):
            for var, lst in assigns.items():
                if var not in ends:
                    continue
                for st, val, conds in lst:
                    n += 1
                    h = T(val)
                    pol = steer_at(h, conds)
                    ok = pol is not None and pol == ends[var] and inside(h, conds)
                    why = 'the steering quantity is not evaluated at the new position' if pol is None else \
                        ('the loop moves the other end for this sign of the steering quantity' if pol != ends[var] else
                         ('the new position is not known to lie strictly inside the bracket' if not inside(h, conds) else 'one more bisection step at `%s`' % h))
                    ctx.ob('probe-step', fi, st, ok,
                           'before the search loop the bracket end `%s` is moved to `%s`: %s' % (var, U(val)[:60], why),
                           construct='probe `%s = %s`' % (var, U(val)[:50]))
    # module-level state: may only feed probes
    names = {s_.targets[0].value.id for s_ in state}
    for nm in names:
        reads = [x for x in ast.walk(getattr(fi, 'original', fi).node) if isinstance(x, ast.Name) and x.id == nm and isinstance(x.ctx, ast.Load)]
        feeding = set()
        for s_ in getattr(fi, 'original', fi).node.body:
            if isinstance(s_, ast.Assign) and len(s_.targets) == 1 and isinstance(s_.targets[0], ast.Name) and any(x in reads for x in ast.walk(s_.value)):
                feeding.add(s_.targets[0].id)
        for x in reads:
            par = getattr(x, '_parent', None)
            top = x
            while getattr(top, '_parent', None) is not None and top._parent is not getattr(fi, 'original', fi).node:
                top = top._parent
            ok_use = (isinstance(top, ast.Assign) and len(top.targets) == 1 and (isinstance(top.targets[0], ast.Name) or top in state
                                                                                 or U(top.targets[0]).startswith(nm))) \
                or any(top is P_ or U(top) == U(P_) for P_ in probes)
            if not ok_use:
                raise AnalysisError('%s: module-level state `%s` is read outside the probes before the search' % (fi.qualname, nm))
        # a local fed from the state may only be used inside the probes
        body_wo = [s_ for s_ in fi.node.body]
        for loc in feeding:
            used = [x for s_ in body_wo for x in ast.walk(s_) if isinstance(x, ast.Name) and x.id == loc and isinstance(x.ctx, ast.Load)]
            if used:
                raise AnalysisError('%s: `%s` (read from module-level state) is used outside the probes before the search' % (fi.qualname, loc))
    return n


def check_cdp_delta(ctx, fi):
    ctx.analysed(fi)
    from ..normalise import at_defaults
    fi, _extra = at_defaults(fi, tuple(fi.params[:2]))
    rho, eps = fi.params[0], fi.params[1]
    fi, probes, state = split_probes(fi)
    S = Search(fi)
    if probes or state:
        check_probes(ctx, fi, S, probes, state)
    check_termination(ctx, fi, S)
    check_skip(ctx, fi, S)
    alpha = S.MID
    atoms = Atoms()
    ev = SymEval({}, atoms)
    # ---- which end is the lower one ----------------------------------------------------------
    a, b = S.true_var, S.false_var
    # `max(1.01, L)`: the literal floor raised to a lower bound L on the optimal order.  The derivative (2a-1)rho - eps + log(1-1/a) is log(1-1/a) < 0
    # at a = (1 + eps/rho)/2, so the optimum lies above that value: L may be it, nothing larger
    S.inits = dict(S.inits)
    for end in (a, b):
        x = S.inits[end]
        if isinstance(x, ast.Call) and U(x.func) == 'max' and len(x.args) == 2 and not x.keywords and any(isinstance(y, ast.Constant) for y in x.args):
            lit = next(y for y in x.args if isinstance(y, ast.Constant))
            L = next(y for y in x.args if y is not lit)
            Lv = ev.ev(L)
            bound = SymEval({'rho': sym(rho), 'eps': sym(eps)}, atoms, strict=True).ev(parse('(1 + eps/rho)/2'))
            d_ = Lv - bound
            if Lv.eq(bound) or (d_.is_rat() and (const(0) - d_).rat().sign_definite_nonneg()):
                okL, whyL = True, 'at most the lower bound (1 + eps/rho)/2 on the optimal order'
            elif d_.is_rat() and d_.rat().sign_definite_nonneg():
                okL, whyL = False, 'ABOVE the lower bound (1 + eps/rho)/2 by %s: for large rho the search starts above the optimal order and returns a looser delta' % d_
            else:
                raise AnalysisError('cdp_delta: lower end raised to `%s`, which this analysis cannot compare with (1 + eps/rho)/2' % U(L)[:60])
            ctx.ob('alpha-range', fi, S.where(end), okL, 'the lower end of the order bracket is raised to `%s`: %s' % (U(L)[:60], whyL), construct='raised lower end of the order bracket')
            S.inits[end] = lit
    ia, ib = ev.ev(S.inits[a]), ev.ev(S.inits[b])
    if (ib - ia).is_rat() and (ib - ia).rat().sign_definite_nonneg() and not (ib - ia).rat().iszero():
        lo, hi = a, b
    elif (ia - ib).is_rat() and (ia - ib).rat().sign_definite_nonneg():
        lo, hi = b, a
    else:
        ctx.ob('alpha-range', fi, S.where(a), False, 'cannot order the initial bracket ends `%s`=%s and `%s`=%s' % (a, ia, b, ib))
        return
    lo_init, hi_init = ev.ev(S.inits[lo]), ev.ev(S.inits[hi])
    # the searched variable may be the order itself or the order minus one (lam = alpha - 1, the quantity the bound is written in): the
    # parameterisation is read off the final formula
    shift = 0
    try:
        fin0, _ = S.final[0]
        d0 = fin0
        if isinstance(fin0, ast.Call) and U(fin0.func) in ('min', 'builtins.min') and len(fin0.args) == 2:
            d0 = [x for x in fin0.args if U(x) not in ('1', '1.0')][0]
        src0 = ev.ev(d0).rat()
        for c_ in (0, 1):
            orc = SymEval({'a': sym(alpha) + const(c_), 'rho': sym(rho), 'eps': sym(eps)}, atoms, strict=True).ev(
                parse('exp((a-1)*(a*rho-eps) + a*log(1-1/a)) / (a-1)')).rat()
            if src0.eq(orc):
                shift = c_
                break
    except AnalysisError:
        shift = 0
    if shift:
        ctx.note('the order search runs over the order minus %d' % shift)
        lo_init, hi_init = lo_init + const(shift), hi_init + const(shift)
    from fractions import Fraction as _Fr
    ok = lo_init.is_rat() and lo_init.rat().isconst() and 1 < lo_init.rat().constval() <= _Fr(101, 100)
    ctx.ob('alpha-range', fi, S.where(lo), ok, 'lower end of the order bracket must be a literal in (1, 1.01] (alpha in (1, inf); a higher floor '
           'excludes the optimal order for large rho / small eps and the bound is no longer the optimum); as an order it is %s' % lo_init,
           construct='lower end of the order bracket')
    # ---- midpoint ------------------------------------------------------------------------------
    mid = ev.ev(S.mid_expr)
    want = (sym(lo) + sym(hi)) / const(2)
    ctx.ob('midpoint', fi, S.where(S.mid_var), mid.eq(want), 'search must bisect its own bracket: %s = (%s + %s)/2; is `%s`' % (S.mid_var, lo, hi, U(S.mid_expr)),
           construct='midpoint of the order search')
    # ---- the steering quantity and the final formula ---------------------------------------------------
    l, op, r = S.compare()
    if isinstance(l, ast.Constant) and l.value == 0 and op in FLIP:
        l, op, r = r, FLIP[op], l
    if not (isinstance(r, ast.Constant) and r.value == 0):
        raise AnalysisError('cdp_delta: unrecognised steering test `%s`' % U(S.test))
    deriv_src = ev.ev(l).rat()
    final, _ = S.final[0]
    ok = isinstance(final, ast.Call) and U(final.func) in ('min', 'builtins.min') and len(final.args) == 2 and \
        any(U(x) in ('1', '1.0') for x in final.args)
    log_clamp = False
    if not ok and isinstance(final, ast.Call) and U(final.func) in ('math.exp', 'np.exp', 'exp') and len(final.args) == 1:
        # the clamp taken in the log domain: `1.0 if E >= 0 else exp(E)` IS min(exp(E), 1) - here exp(E) is the whole result (nothing divides it afterwards)
        E_ = final.args[0]
        for item in list(S.early):
            e_, path_ = item
            t_, pol_ = path_[-1] if path_ else (None, True)
            if t_ is not None and pol_ and U(e_) in ('1', '1.0') and isinstance(t_, ast.Compare) and len(t_.ops) == 1 and isinstance(t_.ops[0], (ast.GtE, ast.Gt)) \
                    and T(t_.comparators[0]) in ('0', '0.0') and T(t_.left) == T(E_):
                S.early.remove(item)
                log_clamp = True
    ctx.ob('clamp', fi, S.loop, ok or log_clamp, 'cdp_delta must return min(delta, 1); returns `%s`%s' % (U(final)[:160], ', and 1.0 where its exponent is non-negative' if log_clamp else ''),
           construct='clamp of the result')
    dexpr = final
    if ok:
        dexpr = [x for x in final.args if U(x) not in ('1', '1.0')][0]
    # a floor at 0 under the clamp does nothing: the bound exp(..)/(alpha - 1) is positive for alpha > 1.  A POSITIVE floor is kept (and
    # then does not match the published formula: the reported delta is no longer the optimum of the bound)
    if isinstance(dexpr, ast.Call) and U(dexpr.func) in ('max', 'builtins.max') and len(dexpr.args) == 2 and not dexpr.keywords and \
            any(isinstance(x, ast.Constant) and x.value == 0 and not isinstance(x.value, bool) for x in dexpr.args):
        dexpr = [x for x in dexpr.args if not (isinstance(x, ast.Constant) and x.value == 0)][0]
    delta_src = ev.ev(dexpr).rat()
    oracle = SymEval({'a': sym(alpha) + const(shift), 'rho': sym(rho), 'eps': sym(eps)}, atoms, strict=True).ev(
        parse('exp((a-1)*(a*rho-eps) + a*log(1-1/a)) / (a-1)')).rat()
    ctx.ob('delta-formula', fi, S.loop, delta_src.eq(oracle),
           'delta must equal exp((a-1)(a*rho-eps) + a*log(1-1/a))/(a-1) with a = the searched order; source normal form %r' % (delta_src,),
           construct='delta at the searched order')
    dlog = delta_src.diff(alpha, atoms) / delta_src
    ctx.ob('derivative', fi, S.loop, dlog.eq(deriv_src),
           'steering quantity must be d/dalpha log(delta): expected %r, source %r' % (dlog, deriv_src), construct='steering quantity of the order search')
    # ---- orientation ---------------------------------------------------------------------------------
    neg_branch_var = S.true_var if op in (ast.Lt, ast.LtE) else (S.false_var if op in (ast.Gt, ast.GtE) else None)
    ctx.ob('orientation', fi, S.loop, neg_branch_var == lo,
           'log delta is convex in alpha: a negative derivative means the optimum lies to the right, so the LOWER end `%s` must move; '
           'the source moves `%s`' % (lo, neg_branch_var), construct='orientation of the order search')
    # ---- upper end is to the right of the optimum ------------------------------------------------------
    hi_rat = hi_init.rat() if hi_init.is_rat() else None
    proved, tried = False, []
    if hi_rat is not None:
        r_, e_ = Rat.sym(rho), Rat.sym(eps)
        base = (Rat.const(2) * hi_rat - Rat.const(1)) * r_ - e_
        b1 = base - Rat.const(1) / (hi_rat - Rat.const(1))          # log(1-1/a) >= -1/(a-1)
        tried.append(('log(1-1/a) >= -1/(a-1)', b1))
        if (hi_rat - Rat.const(1)).sign_definite_nonneg() and b1.sign_definite_nonneg():
            proved = True
        from fractions import Fraction
        b2 = base - Rat.const(Fraction(6932, 10000))                 # a >= 2: log(1-1/a) >= -log 2
        tried.append(('a >= 2 and log(1-1/a) >= -log 2', b2))
        if (hi_rat - Rat.const(2)).sign_definite_nonneg() and b2.sign_definite_nonneg():
            proved = True
    ctx.ob('alpha-range', fi, S.where(hi), proved,
           'upper end `%s` = %s must be provably right of the optimal order (derivative(%s) >= 0 for all rho, eps > 0); '
           'lower bounds tried: %s' % (hi, hi_init, hi, '; '.join('%s -> %r' % x for x in tried)),
           construct='upper end of the order bracket')
    # ---- degenerate case ----------------------------------------------------------------------
    mod = fi.module
    early_exits(ctx, fi, S, lambda t: is_exact_zero_test(t, rho, mod), 'rho == 0')
    zero = [1 for e, p in S.early if p and p[-1][1] and is_exact_zero_test(p[-1][0], rho, mod) and U(e) in ('0', '0.0')]
    ctx.ob('sound-seed', fi, fi.node, bool(zero),
           'cdp_delta(0, eps) must be 0 (rho = 0 is the seed of the rho search): early return `if %s == 0: return 0`' % rho,
           construct='rho == 0 case of cdp_delta')


def is_exact_zero_test(t, name, mod):
    """`name == 0` (or a module-level helper whose body is exactly that comparison)"""
    if isinstance(t, ast.Compare) and len(t.ops) == 1 and U(t.left) == name and isinstance(t.ops[0], ast.Eq) \
            and U(t.comparators[0]) in ('0', '0.0'):
        return True
    if isinstance(t, ast.Call) and isinstance(t.func, ast.Name) and len(t.args) == 1 and U(t.args[0]) == name \
            and t.func.id in mod.funcs:
        h = mod.funcs[t.func.id]
        body = h.body
        if len(body) == 1 and isinstance(body[0], ast.Return) and len(h.params) == 1:
            return is_exact_zero_test(body[0].value, h.params[0], mod)
    return False


def early_exits(ctx, fi, S, allowed_tests, what):
    """every result other than the searched one must be one of the tabled degenerate cases (exact tests) and be 0"""
    for e, path in S.early:
        # the deciding condition of the leaf is the last one on its path; earlier ones only exclude other leaves
        t, pol = path[-1] if path else (None, True)
        ok = t is not None and pol and allowed_tests(t) and U(e) in ('0', '0.0')
        if t is not None and not pol:
            # `X if not (c) else 0`: the leaf is taken when c holds
            ok = False
        if not ok and t is not None:
            # the search's OWN acceptance test, evaluated at the far end of the bracket on the unsound side: if it already holds there, that
            # end is sound and no candidate beyond it exists, so the search would converge to it (e.g. cdp_eps: cdp_delta(rho, 0) <= delta -> 0)
            other_end = S.false_var
            at_end = Replace(lambda n: clone(S.inits[other_end]) if isinstance(n, ast.Name) and n.id == S.MID else None).visit(clone(S.test))
            def num(x):
                try:
                    return float(ast.literal_eval(x))
                except Exception:
                    return None
            same_value = T(e) == T(S.inits[other_end]) or (num(e) is not None and num(e) == num(S.inits[other_end]))
            tt, tpol = strip_not(t, pol)
            at, apol = strip_not(at_end, True)
            def norm_num(x):
                return Replace(lambda n: ast.Constant(value=float(n.value)) if isinstance(n, ast.Constant) and isinstance(n.value, (int, float))
                               and not isinstance(n.value, bool) else None).visit(clone(x))
            if same_value and T(norm_num(tt)) == T(norm_num(at)) and tpol == apol:
                ctx.ob('early-exit', fi, fi.node, True,
                       '%s: `%s` is returned when the acceptance test of the search already holds at that end of the bracket (`%s`)' % (fi.name, U(e), U(t)),
                       construct='early result `%s` when `%s`' % (U(e), U(t)))
                continue
        if not ok and t is not None and pol and U(e) in ('0', '0.0'):
            # `.. and <a cruder bound> < <smallest positive double>`: the cruder bound has underflowed to exactly 0.  Whether the search would
            # return exactly 0.0 there as well is a fact about floating-point evaluation this analysis does not decide
            parts = t.values if isinstance(t, ast.BoolOp) and isinstance(t.op, ast.And) else [t]
            tiny = ('sys.float_info.min*sys.float_info.epsilon', '5e-324', 'np.nextafter(0,1)', 'np.nextafter(0.0,1.0)', 'np.finfo(float).smallest_subnormal')
            if any(isinstance(x, ast.Compare) and len(x.ops) == 1 and isinstance(x.ops[0], (ast.Lt, ast.LtE)) and T(x.comparators[0]) in tiny for x in parts):
                raise AnalysisError('%s: early result 0.0 when another bound has underflowed to zero (`%s`): whether the search returns exactly 0.0 there '
                                    'too is a floating-point fact outside this analysis' % (fi.name, U(t)[:90]))
        if not ok and t is not None and pol and U(e) in ('1', '1.0') and isinstance(t, ast.Compare) and len(t.ops) == 1 \
                and isinstance(t.ops[0], (ast.GtE, ast.Gt)) and T(t.comparators[0]) in ('0', '0.0'):
            # the clamp taken early: the searched result is min(exp(E) / (order - 1), 1); `1.0 when G >= 0`
            exps = []
            for c_ in ast.walk(fi.node):
                if isinstance(c_, ast.Call) and U(c_.func) in ('math.exp', 'np.exp', 'exp') and len(c_.args) == 1:
                    a_ = c_.args[0]
                    if isinstance(a_, ast.Name):
                        d_ = [x.value for x in ast.walk(fi.node) if isinstance(x, ast.Assign) and len(x.targets) == 1 and U(x.targets[0]) == a_.id]
                        a_ = d_[0] if len(d_) == 1 else a_
                    a_ = Replace(lambda n: ast.Name(id=S.MID, ctx=ast.Load()) if isinstance(n, ast.Name) and n.id in S.mid_vars else None).visit(clone(a_))
                    exps.append(a_)
            G = t.left
            if len(exps) == 1 and T(G) == T(exps[0]):
                raise AnalysisError('%s: the result 1.0 is returned early when the whole exponent `%s` is non-negative; that equals the clamp min(exp(E)/(order-1), 1) only '
                                    'where order <= 2 or E < 0 at the order the search settles on - a fact about the optimum this analysis does not decide' % (fi.name, U(G)[:60]))
            if len(exps) == 1 and isinstance(exps[0], ast.BinOp) and isinstance(exps[0].op, ast.Add) and T(G) in (T(exps[0].left), T(exps[0].right)):
                other_ = exps[0].right if T(G) == T(exps[0].left) else exps[0].left
                ctx.ob('early-exit', fi, fi.node, False,
                       '%s: the result 1.0 is returned early when `%s >= 0`, which is only PART of the exponent of the bound: the omitted term `%s` is negative, so the bound '
                       'can be far below 1 where the test holds (small rho: every eps up to about sqrt(rho)) - a looser value than the optimum of the published bound'
                       % (fi.name, U(G)[:60], U(other_)[:40]), construct='early result `1.0` when `%s`' % U(t)[:60])
                continue
        ctx.ob('early-exit', fi, fi.node, ok,
               '%s: a result not computed by the search must be one of the degenerate cases with an exact test (%s) and be 0; found `%s` when `%s%s`'
               % (fi.name, what, U(e), '' if pol else 'not ', U(t) if t is not None else 'always'),
               construct='early result `%s` when `%s%s`' % (U(e), '' if pol else 'not ', U(t) if t is not None else 'always'))


def check_termination(ctx, fi, S):
    """a search may leave its loop early only at a floating-point fixed point of the bisection (the midpoint coincides with an end of
    the bracket); a width / tolerance test stops while the answer can still be far (relative to its size) from the bracket ends"""
    from ..normalise import Defs, expand
    lo_hi = {S.true_var, S.false_var}
    for x_, V_, W_ in getattr(S, 'early_returns', []):
        same = T(V_) == T(W_)
        if not same and not (isinstance(V_, ast.Name) and (V_.id in S.mid_vars or V_.id in (S.true_var, S.false_var))):
            raise AnalysisError('%s: the search loop returns `%s` early, which is neither the result of the search nor one of its bracket values' % (fi.qualname, U(V_)[:40]))
        ctx.ob('search-termination', fi, x_, same,
               'an early exit of the search returns `%s`; the result of the search is `%s`%s' % (U(V_), U(W_), '' if same else
               ' - only that end of the bracket has passed the acceptance test; the midpoint / the other end has not, so the value handed out can be on the wrong side of the bound'),
               construct='value returned by the early exit of ' + fi.name)
    guarded = set()
    pars = []
    for n in ast.walk(S.loop):
        if isinstance(n, ast.If) and any(isinstance(x, ast.Break) for x in n.body):
            pars.append(n)
            guarded |= {id(x) for x in n.body if isinstance(x, ast.Break)}
    if any(isinstance(b, ast.Break) and id(b) not in guarded for b in ast.walk(S.loop)):
        raise AnalysisError('%s: unconditional / unrecognised early exit from the search loop' % fi.qualname)
    for par in pars:
        before = []
        for st in S.loop.body:
            if st is par or par in list(ast.walk(st)):
                break
            before.append(st)
        t = expand(par.test, Defs(before), keep=tuple(lo_hi))
        parts = t.values if isinstance(t, ast.BoolOp) and isinstance(t.op, ast.Or) else [t]
        mid_t = T(S.mid_expr)
        fixed = True
        tol = False
        for p_ in parts:
            ok = False
            if isinstance(p_, ast.Compare) and len(p_.ops) == 1:
                l, r = T(p_.left), T(p_.comparators[0])
                op = type(p_.ops[0])
                sides = {l, r}
                if mid_t in sides and (sides - {mid_t}) <= lo_hi and op in (ast.LtE, ast.GtE, ast.Eq):
                    ok = True
                if isinstance(p_.left, ast.BinOp) and isinstance(p_.left.op, ast.Sub) and {T(p_.left.left), T(p_.left.right)} == lo_hi \
                        and isinstance(p_.comparators[0], ast.Constant):
                    tol = True
                if isinstance(p_.left, ast.Call) and U(p_.left.func) in ('abs', 'math.fabs', 'np.abs') and isinstance(p_.comparators[0], ast.Constant):
                    tol = True
            fixed = fixed and ok
        if fixed:
            ctx.ob('search-termination', fi, par, True, 'early exit only when the midpoint coincides with an end of the bracket (fixed point): `%s`' % U(par.test),
                   construct='early exit of the search in ' + fi.name)
        elif tol:
            ctx.ob('search-termination', fi, par, False,
                   'the search stops on an absolute width / tolerance test `%s`: for small answers the bracket is still wide relative to the '
                   'answer (the conversions stop being tight and mutually inverse)' % U(par.test), construct='early exit of the search in ' + fi.name)
        else:
            raise AnalysisError('%s: early exit `%s` of the search loop is neither a fixed-point nor a tolerance test' % (fi.qualname, U(par.test)))


def check_skip(ctx, fi, S):
    """a search whose number of passes depends on a condition"""
    import math
    from fractions import Fraction
    from ..symexpr import Poly
    loop = S.loop
    if not isinstance(loop, ast.For):
        return
    it = loop.iter
    if isinstance(it, ast.Name) and it.id not in fi.params:
        # a module-level constant shared by the searches
        mdefs = [a.value for a in fi.module.tree.body if isinstance(a, ast.Assign) and len(a.targets) == 1 and U(a.targets[0]) == it.id]
        if len(mdefs) == 1:
            d = mdefs[0]
            dt = T(d)
            import re as _re
            m1 = _re.fullmatch(r'(?:tuple|list)\(itertools\.repeat\(None,(\d+)\)\)|(?:tuple|list)\(range\((\d+)\)\)|range\((\d+)\)|\[None\]\*(\d+)|\(None,\)\*(\d+)', dt)
            m2 = _re.fullmatch(r'itertools\.repeat\(None,(\d+)\)|iter\(.+\)|\(.+for.+in.+\)', dt)
            if m1:
                n_ = next(g for g in m1.groups() if g)
                it = ast.parse('range(%s)' % n_, mode='eval').body
                ctx.ob('search-termination', fi, loop, int(n_) >= 200, 'the number of halvings `%s = %s` is a re-iterable constant: every call runs all %s rounds'
                       % (loop.iter.id, U(d), n_), construct='shared trip count of ' + fi.name)
            elif m2:
                ctx.ob('search-termination', fi, loop, False,
                       'the number of halvings `%s = %s` is a ONE-SHOT iterator created when the module is imported: the first search uses it up, every later '
                       'call runs zero rounds and returns the start of its bracket' % (loop.iter.id, U(d)), construct='shared trip count of ' + fi.name)
                return
    if not (isinstance(it, ast.Call) and U(it.func) == 'range' and len(it.args) == 1):
        raise AnalysisError('%s: unrecognised trip count `%s` of the search loop' % (fi.qualname, U(it)))

    def at_entry(e, extra=None):
        def fn(n):
            if isinstance(n, ast.Name) and isinstance(n.ctx, ast.Load):
                if extra and n.id in extra:
                    return clone(extra[n.id])
                if n.id in S.entry and not (isinstance(S.entry[n.id], ast.Name) and S.entry[n.id].id == n.id):
                    return clone(S.entry[n.id])
            return None
        return Replace(fn).visit(clone(e))
    count = at_entry(it.args[0])
    if not isinstance(count, ast.IfExp):
        if any(isinstance(n, ast.IfExp) for n in ast.walk(count)):
            raise AnalysisError('%s: unrecognised conditional trip count `%s`' % (fi.qualname, U(count)))
        return
    zero_body = isinstance(count.body, ast.Constant) and count.body.value == 0
    zero_else = isinstance(count.orelse, ast.Constant) and count.orelse.value == 0
    if zero_body == zero_else:
        raise AnalysisError('%s: unrecognised conditional trip count `%s`' % (fi.qualname, U(count)))
    C, cpol = strip_not(count.test)
    if not zero_body:
        cpol = not cpol
    # the value the result is computed from when the loop does not run
    if S.mid_var not in S.entry:
        raise AnalysisError('%s: the search can be skipped but `%s` has no value before the loop' % (fi.qualname, S.mid_var))
    P = S.entry[S.mid_var]
    if T(P) == T(S.inits[S.true_var]):
        end = S.true_var
    elif T(P) == T(S.inits[S.false_var]):
        end = S.false_var
    else:
        raise AnalysisError('%s: the search can be skipped with `%s` = `%s`, which is neither end of the bracket' % (fi.qualname, S.mid_var, U(P)))
    # requirement: at the preset end the steering test keeps that end where it is
    R, rpol = strip_not(at_entry(S.test, {S.MID: P}))
    if end == S.true_var:
        rpol = not rpol
    where = S.where(S.mid_var)
    what = 'skipping the search leaves `%s` at the %s end `%s` of the bracket; that is the value the search ends at exactly when the steering ' \
           'test there reads `%s%s`' % (S.mid_var, 'initial', U(P), '' if rpol else 'not ', U(R))
    if T(C) == T(R) and cpol == rpol:
        ctx.ob('search-skip', fi, where, True, what + '; the skip condition is that very test', construct='skip condition of the search in ' + fi.name)
        return
    # both as g >= 0 over affine forms with numeric constants
    consts = {}

    def hook(call, ev):
        f = U(call.func)
        if f.split('.')[-1] in ('log', 'log1p', 'exp', 'sqrt') and len(call.args) == 1:
            try:
                a = ev.ev(call.args[0])
            except AnalysisError:
                return None
            if a.is_rat() and a.rat().isconst():
                x = float(a.rat().constval())
                try:
                    val = {'log': math.log, 'log1p': math.log1p, 'exp': math.exp, 'sqrt': math.sqrt}[f.split('.')[-1]](x)
                except ValueError:
                    return None
                name = 'const:%s' % U(call).replace(' ', '')
                consts[name] = val
                return sym(name)
        return None

    def affine(cmp_, pol):
        if not (isinstance(cmp_, ast.Compare) and len(cmp_.ops) == 1 and type(cmp_.ops[0]) in NEGOP):
            raise AnalysisError('%s: skip condition `%s` is not a comparison' % (fi.qualname, U(cmp_)))
        op = type(cmp_.ops[0])
        if not pol:
            op = NEGOP[op]
        ev = SymEval({}, Atoms(), hook)
        l, r = ev.ev(cmp_.left), ev.ev(cmp_.comparators[0])
        g = (l - r) if op in (ast.GtE, ast.Gt) else (r - l)
        if not g.is_rat():
            raise AnalysisError('%s: `%s` is outside the affine dialect' % (fi.qualname, U(cmp_)))
        n, d = g.rat().n, g.rat().d
        # the denominator must be positive for positive symbols
        if not all(v > 0 for v in d.t.values()) or any(nm.startswith('const:') for nm in d.symbols()):
            raise AnalysisError('%s: cannot fix the sign of the denominator of `%s`' % (fi.qualname, U(cmp_)))
        var, cst = {}, 0.0
        for k, v in n.t.items():
            free = [(nm, e) for nm, e in k if not nm.startswith('const:')]
            cpart = float(v)
            for nm, e in k:
                if nm.startswith('const:'):
                    cpart *= consts[nm] ** e
            if free:
                key = tuple(free)
                if len(free) != len(k):
                    raise AnalysisError('%s: non-constant coefficient in `%s`' % (fi.qualname, U(cmp_)))
                var[key] = var.get(key, Fraction(0)) + v
            else:
                cst += cpart
        var = {k: v for k, v in var.items() if v != 0}
        if not var:
            raise AnalysisError('%s: `%s` does not depend on the parameters' % (fi.qualname, U(cmp_)))
        k0 = sorted(var)[0]
        scale = abs(var[k0])
        return {k: v / scale for k, v in var.items()}, cst / float(scale)
    vC, tC = affine(C, cpol)
    vR, tR = affine(R, rpol)
    if vC != vR:
        raise AnalysisError('%s: the skip condition `%s%s` and the requirement `%s%s` are not thresholds of one quantity; cannot compare them'
                            % (fi.qualname, '' if cpol else 'not ', U(C), '' if rpol else 'not ', U(R)))
    ok = tC <= tR + 1e-12 * max(1.0, abs(tR))
    ctx.ob('search-skip', fi, where, ok,
           what + '; the skip condition `%s%s` is N + (%.6g) >= 0 and the requirement is N + (%.6g) >= 0 for the same N: %s'
           % ('' if cpol else 'not ', U(C), tC, tR, 'the condition implies the requirement' if ok else
              'the search is also skipped where it would have moved away from the preset value - the result is then not the optimum of the bound'),
           construct='skip condition of the search in ' + fi.name)


def bracket_growth(ctx, fi, S, sound, unsound, kind):
    """a loop before the search that moves the bracket until the other end fails the acceptance test:
         while ACCEPT(U): L = U; U *= k        (k > 1)
    L only ever receives values the test has accepted, U ends as the first value that fails it.  -> (seed of L, seed of U) before that loop,
    or None when there is no such loop.  Any other re-seeding of an end between that loop and the search is reported."""
    body = S.stmts

    def holder(stmts):
        # the statement list that holds the search loop (single-exit form nests the tail under the early-return tests)
        for s_ in stmts:
            if s_ is S.loop:
                return stmts
            for f_ in ('body', 'orelse'):
                sub = getattr(s_, f_, None)
                if isinstance(sub, list) and sub and isinstance(sub[0], ast.stmt) and not isinstance(s_, (ast.For, ast.While)):
                    r_ = holder(sub)
                    if r_ is not None:
                        return r_
        return None
    body = holder(body)
    if body is None:
        return None
    i_search = body.index(S.loop)
    whiles = [s_ for s_ in body[:i_search] if isinstance(s_, ast.While)]
    if not whiles:
        return None
    if len(whiles) > 1:
        raise AnalysisError('%s: more than one loop before the search' % fi.qualname)
    w = whiles[0]
    i_w = body.index(w)
    want = Replace(lambda n: ast.Name(id=unsound, ctx=ast.Load()) if isinstance(n, ast.Name) and n.id == S.MID else None).visit(clone(S.test))
    ok_test = T(w.test) == T(want)
    moves = [s_ for s_ in w.body]
    ok_body = False
    if (len(moves) == 2 and isinstance(moves[0], ast.Assign) and U(moves[0].targets[0]) == sound and U(moves[0].value) == unsound) or len(moves) == 1:
        g = moves[-1]
        k = None
        if isinstance(g, ast.AugAssign) and U(g.target) == unsound and isinstance(g.op, ast.Mult) and isinstance(g.value, ast.Constant):
            k = g.value.value
        elif isinstance(g, ast.Assign) and U(g.targets[0]) == unsound and isinstance(g.value, ast.BinOp) and isinstance(g.value.op, ast.Mult):
            l_, r_ = g.value.left, g.value.right
            if U(l_) == unsound and isinstance(r_, ast.Constant):
                k = r_.value
            elif U(r_) == unsound and isinstance(l_, ast.Constant):
                k = l_.value
        ok_body = k is not None and ((k > 1) if kind == 'rho' else (0 < k < 1))
    if not (ok_test and ok_body) or w.orelse:
        raise AnalysisError('%s: the loop `while %s` before the search is not a recognised bracket-growth loop' % (fi.qualname, U(w.test)[:60]))
    # nothing else may touch the two ends between the growth loop and the search
    for s_ in body[i_w + 1:i_search]:
        for n in ast.walk(s_):
            if isinstance(n, (ast.Assign, ast.AugAssign)):
                for t_ in (n.targets if isinstance(n, ast.Assign) else [n.target]):
                    for nm in target_names(t_):
                        if nm in (sound, unsound):
                            ctx.ob('sound-seed', fi, n, False,
                                   'after the bracket-growth loop the end `%s` is re-seeded with `%s`, a value the acceptance test `%s` has not been '
                                   'evaluated on (if the growth loop does not run at all it is derived from the initial guess only): the invariant of '
                                   'the search does not hold at its start' % (nm, U(n.value)[:60], U(S.test)[:60]),
                                   construct='seed of the sound end of ' + fi.name)
    seeds = {}
    for s_ in body[:i_w]:
        if isinstance(s_, ast.Assign) and len(s_.targets) == 1 and isinstance(s_.targets[0], ast.Name) and s_.targets[0].id in (sound, unsound):
            seeds[s_.targets[0].id] = s_.value
    if sound not in seeds or unsound not in seeds:
        # the sound end has no seed of its own before the growth loop (it is only set inside / after it)
        if sound not in seeds:
            ctx.ob('sound-seed', fi, w, False,
                   'the sound end `%s` has no value before the bracket-growth loop: when that loop does not run, the search starts from a value the '
                   'acceptance test has not been evaluated on' % sound, construct='seed of the sound end of ' + fi.name)
            seeds.setdefault(sound, ast.Constant(value=0.0))
        if unsound not in seeds:
            raise AnalysisError('%s: the other end `%s` has no seed before the growth loop' % (fi.qualname, unsound))
    u0 = seeds[unsound]
    if not (isinstance(u0, ast.Constant) and isinstance(u0.value, (int, float)) and u0.value > 0):
        raise AnalysisError('%s: the growth loop starts from `%s`, not a positive literal' % (fi.qualname, U(u0)))
    ctx.ob('sound-side', fi, w, True,
           'bracket grown before the search: `%s` only receives values the acceptance test has passed, `%s` ends as the first value that fails it'
           % (sound, unsound), construct='bracket growth before the search in ' + fi.name)
    return seeds[sound], u0


def check_inverse(ctx, fi, cd, searched, kind):
    """cdp_eps (searched=1: eps is the 2nd argument of cdp_delta) / cdp_rho (searched=0)"""
    ctx.analysed(fi)
    S = Search(fi)
    check_termination(ctx, fi, S)
    check_skip(ctx, fi, S)
    atoms = Atoms()
    ev = SymEval({}, atoms)
    other_param = fi.params[0]       # rho for cdp_eps, eps for cdp_rho
    delta_param = fi.params[1]
    # `PRE or ACCEPT`: a cheap pre-test may short-cut the acceptance test when it is SUFFICIENT for it.  Trusted lemma (Bun-Steinke 2016,
    # Prop. 1.3, the same that seeds the eps bracket): for eps >= rho, cdp_delta(rho, eps) <= cdp_delta_standard(rho, eps).
    if isinstance(S.test, ast.BoolOp) and isinstance(S.test.op, ast.Or):
        from ..srcmodel import canon_compare
        kept = []
        for d_ in S.test.values:
            conj = d_.values if isinstance(d_, ast.BoolOp) and isinstance(d_.op, ast.And) else [d_]
            std = [c for c in conj if isinstance(c, ast.Compare) and len(c.ops) == 1 and isinstance(canon_compare(c).left, ast.Call)
                   and U(canon_compare(c).left.func) == 'cdp_delta_standard']
            if not std:
                kept.append(d_)
                continue
            c0 = canon_compare(std[0])
            args = [U(a_) for a_ in c0.left.args]
            bound_ok = isinstance(c0.ops[0], (ast.LtE, ast.Lt)) and U(c0.comparators[0]) == delta_param and len(args) == 2
            if kind == 'eps':
                rho_t, eps_t = args if len(args) == 2 else (None, None)
            else:
                rho_t, eps_t = args if len(args) == 2 else (None, None)
            dom = [canon_compare(c) for c in conj if c is not std[0]]
            # eps >= rho   (canonical: rho <= eps)
            domain_ok = any(isinstance(c.ops[0], (ast.LtE, ast.Lt)) and U(c.left) == rho_t and U(c.comparators[0]) == eps_t for c in dom if isinstance(c, ast.Compare))
            ctx.ob('sound-side', fi, S.loop, bound_ok and domain_ok and len(conj) == 2,
                   'a pre-test with the standard bound may replace the acceptance test only where that bound is valid and above the optimised one, '
                   'i.e. together with `%s >= %s`; the pre-test is `%s`%s' % (eps_t, rho_t, U(d_), '' if domain_ok else
                   ': without that condition exp(-(eps-rho)^2/(4 rho)) is small for eps far BELOW rho as well, and a midpoint is accepted that '
                   'the bound itself rejects'), construct='pre-test of the search in ' + fi.name)
        if len(kept) == 1:
            S.test = kept[0]
        elif len(kept) != len(S.test.values):
            S.test = ast.BoolOp(op=ast.Or(), values=kept)
    l, op, r = S.compare()
    if not (isinstance(l, ast.Call) and U(l.func) == cd.name) and isinstance(r, ast.Call) and U(r.func) == cd.name and op in FLIP:
        l, op, r = r, FLIP[op], l
    if isinstance(l, ast.Call) and U(l.func) == cd.name and (len(l.args) > 2 or l.keywords):
        # explicit values for parameters cdp_delta computes itself when they are absent: the bound the search inverts is the OPTIMISED one,
        # so the value handed in must be what cdp_delta would compute for the very same (rho, eps)
        comps = default_computations(cd)
        raw_params = getattr(cd, 'original', cd).params
        given = {raw_params[i]: a_ for i, a_ in enumerate(l.args) if i >= 2 and i < len(raw_params)}
        given.update({k.arg: k.value for k in l.keywords})
        for p_, a_ in given.items():
            if p_ not in comps:
                raise AnalysisError('%s: `%s` passes `%s`, a parameter whose default computation was not found' % (fi.qualname, U(l)[:60], p_))
            sub = {raw_params[0]: l.args[0], raw_params[1]: l.args[1]}
            want_ = Replace(lambda n: clone(sub[n.id]) if isinstance(n, ast.Name) and n.id in sub else None).visit(clone(comps[p_]))
            ctx.ob('sound-side', fi, S.loop, T(a_) == T(want_),
                   'the search inverts the optimised bound: the `%s` handed to %s must be the one it computes itself for the same arguments, `%s`; '
                   'got `%s`%s' % (p_, cd.name, U(want_), U(a_)[:80], '' if T(a_) == T(want_) else
                                   ' - a value fixed for another point of the bracket gives a looser bound, and the search stops at a larger result'),
                   construct='explicit %s in the search test of %s' % (p_, fi.name))
        l = ast.Call(func=l.func, args=list(l.args[:2]), keywords=[])
    if not (isinstance(l, ast.Call) and U(l.func) == cd.name and len(l.args) == 2):
        raise AnalysisError('%s: search test must compare %s(...) with delta; got `%s`' % (fi.qualname, cd.name, U(S.test)))
    call = l
    rhs = U(r)
    args = [U(a_) for a_ in call.args]
    want_args = [None, None]
    want_args[searched] = S.MID
    want_args[1 - searched] = other_param
    ctx.ob('sound-side', fi, S.loop, args == want_args and rhs == delta_param,
           'the midpoint must be passed as the %s argument of %s, the other argument is the parameter `%s`, and the result '
           'is compared with `%s`; got %s(%s) vs %s' % ('second (eps)' if searched else 'first (rho)', cd.name,
                                                          other_param, delta_param, cd.name, ', '.join(args), rhs),
           construct='search test of ' + fi.name)
    if op in (ast.LtE, ast.Lt):
        sound, unsound = S.true_var, S.false_var
    elif op in (ast.GtE, ast.Gt):
        sound, unsound = S.false_var, S.true_var
    else:
        raise AnalysisError('%s: unrecognised comparison in the search test' % fi.qualname)
    final, _ = S.final[0]
    ok_final = U(final) == sound
    clamp_note = ''
    if not ok_final and isinstance(final, ast.Call) and U(final.func) in ('min', 'max') and len(final.args) == 2 and not final.keywords \
            and sound in (U(final.args[0]), U(final.args[1])):
        # a clamp of the result at the far end of the bracket it was searched in never binds (the sound end stays inside the bracket)
        other_arg = final.args[1] if U(final.args[0]) == sound else final.args[0]
        far = S.inits.get(unsound)
        inward = (U(final.func) == 'min') == (kind == 'rho')          # rho: sound end is the lower one, clamp from above
        if far is not None and inward and T(other_arg) == T(far):
            ok_final = True
        else:
            clamp_note = '; the clamp `%s` is not the far end `%s` of the searched bracket and can bind' % (U(final), U(far) if far is not None else '?')
    ctx.ob('sound-side', fi, S.loop, ok_final,
           'the end assigned while `%s(.) <= %s` holds is `%s`; the function must return it (returns `%s`)%s'
           % (cd.name, delta_param, sound, U(final), clamp_note), construct='result of ' + fi.name)
    mod = fi.module

    def allowed(t):
        parts = t.values if isinstance(t, ast.BoolOp) and isinstance(t.op, ast.Or) else [t]
        for x in parts:
            big_delta = isinstance(x, ast.Compare) and len(x.ops) == 1 and U(x.left) == delta_param and \
                isinstance(x.ops[0], (ast.GtE, ast.Gt)) and U(x.comparators[0]) in ('1', '1.0')
            big_delta = big_delta or (isinstance(x, ast.Compare) and len(x.ops) == 1 and U(x.comparators[0]) == delta_param and
                                      isinstance(x.ops[0], (ast.LtE, ast.Lt)) and U(x.left) in ('1', '1.0'))
            zero_rho = kind == 'eps' and is_exact_zero_test(x, other_param, mod)
            if not (big_delta or zero_rho):
                return False
        return True
    early_exits(ctx, fi, S, allowed, 'delta >= 1' + (' or rho == 0' if kind == 'eps' else ''))
    mid = ev.ev(S.mid_expr)
    ctx.ob('midpoint', fi, S.where(S.mid_var), mid.eq((sym(S.true_var) + sym(S.false_var)) / const(2)),
           'search must bisect its own bracket: %s = (%s + %s)/2; is `%s`' % (S.mid_var, S.true_var, S.false_var, U(S.mid_expr)),
           construct='midpoint of ' + fi.name)
    # direction: delta decreases in eps and increases in rho, so the sound end is the upper one for eps, the lower for rho
    grown = bracket_growth(ctx, fi, S, sound, unsound, kind)
    if grown is not None:
        S.inits = dict(S.inits)
        S.inits[sound], S.inits[unsound] = grown
    init_sound = ev.ev(S.inits[sound])
    closed_form = False
    if kind == 'rho':
        ok = init_sound.is_rat() and init_sound.rat().iszero()
        if not ok:
            # the standard bound solved for rho: rho + 2 sqrt(rho L) <= eps  iff  sqrt(rho) <= sqrt(L + eps) - sqrt(L),  L = log(1/delta)
            want2 = SymEval({'eps': sym(other_param), 'delta': sym(delta_param)}, atoms, strict=True).ev(
                parse('(sqrt(log(1/delta) + eps) - sqrt(log(1/delta)))**2'))
            try:
                ok = closed_form = init_sound.eq(want2)
            except AnalysisError:
                ok = False
        ctx.ob('sound-seed', fi, S.where(sound), ok,
               'the sound end of the rho search must start at 0 (cdp_delta(0, eps) = 0 <= delta) or at the standard bound solved for rho, '
               '(sqrt(log(1/delta) + eps) - sqrt(log(1/delta)))^2; starts at %s' % init_sound,
               construct='seed of the sound end of ' + fi.name)
    else:
        want = SymEval({'rho': sym(other_param), 'delta': sym(delta_param)}, atoms, strict=True).ev(
            parse('rho + 2*sqrt(rho*log(1/delta))'))
        ctx.ob('sound-seed', fi, S.where(sound), init_sound.eq(want),
               'the sound end of the eps search must start at rho + 2 sqrt(rho log(1/delta)) (standard bound, for which '
               'cdp_delta <= delta); starts at %s' % init_sound, construct='seed of the sound end of ' + fi.name)
    # the unsound end must start on the other side of the sound one
    init_unsound = ev.ev(S.inits[unsound])
    d = (init_unsound - init_sound) if kind == 'rho' else (init_sound - init_unsound)
    ok = all(c.sign_definite_nonneg() for c, r_ in d.terms)
    if grown is not None:
        ok = True          # established by the growth loop: the other end is the first value that fails the acceptance test
    if closed_form and not ok:
        # the closed form is at most eps (it solves rho + 2 sqrt(rho L) = eps): an upper end of at least eps is on the right side
        d2 = init_unsound - sym(other_param)
        ok = all(c.sign_definite_nonneg() for c, r_ in d2.terms)
    ctx.ob('sound-side', fi, S.where(unsound), ok,
           'the other end `%s` must start on the %s side of the sound end' % (unsound, 'upper' if kind == 'rho' else 'lower'),
           construct='seed of the other end of ' + fi.name)

"""C08 - the returned model is one coherent distribution (structural clause: matched pair).

At every exit of every solver of FactoredInference the values stored in model.potentials / model.marginals
are a matched pair: marginals = model.belief_propagation(potentials) of the same parameter vector, or
potentials = model.mle(marginals) of the same marginals, or neither was written since setup.
Additionally `GraphicalModel.mle` (the closed-form refit the second form relies on) must divide each clique
marginal by its projection onto the attributes shared with ALL previously visited cliques.
Not decided: finiteness, non-negativity, sum = total, agreement of overlapping answers (numeric).
"""
import ast

from ..engines.facts import FactAnalysis, St
from ..engines.solvers import find_setup, find_solvers, is_setup_call
from ..srcmodel import AnalysisError, U, attr_chain, calls_in, header

INF = 'src/mbi/inference.py'
GM = 'src/mbi/graphical_model.py'
POT, MARG = 'self.model.potentials', 'self.model.marginals'


class Pair(FactAnalysis):
    def __init__(self, fi, setup, ctx):
        super().__init__(fi)
        self.setup = setup
        self.ctx = ctx

    def model_call(self, call, st, meth):
        f = call.func
        return isinstance(f, ast.Attribute) and f.attr == meth and self.place(f.value, st) in ('self.model', 'model') \
            and len(call.args) >= 1

    def equal_places(self, st, p):
        out = {p}
        changed = True
        while changed:
            changed = False
            for f in st.facts:
                if f[0] == 'EQ' and (f[1] in out) != (f[2] in out):
                    out |= {f[1], f[2]}
                    changed = True
        return out

    MUTATORS = ('combine', 'update', 'pop', 'clear', 'setdefault', 'popitem', '__setitem__', '__delitem__')

    def visit_expr(self, st, e, stmt):
        for c in calls_in(e):
            if self.setup is not None and is_setup_call(c, self.setup):
                self.kill(st, 'self.model')
                st.facts |= {('CLEAN', POT), ('CLEAN', MARG)}
            f = c.func
            if isinstance(f, ast.Attribute) and f.attr in self.MUTATORS:
                # in-place change of a parameter vector: whatever was computed from it is stale
                p = self.place(f.value, st)
                if p is not None:
                    for q in self.equal_places(st, p):
                        st.facts = {x for x in st.facts if not (x[0] in ('SYNC', 'MLE', 'EQ') and self.mentions(x, q))}

    def gen(self, st, places, value, stmt):
        new = set()
        tp = places[0]
        vp = self.place(value, st)
        if vp is not None:
            new.add(('EQ', tp, vp))
        if isinstance(value, ast.Call):
            if isinstance(value.func, ast.Name) and value.func.id == 'GraphicalModel':
                # a freshly constructed model has neither attribute yet
                new.add(('CLEAN', tp + '.marginals'))
                new.add(('CLEAN', tp + '.potentials'))
            if self.model_call(value, st, 'belief_propagation') and not value.keywords:
                xp = self.place(value.args[0], st)
                if xp is not None:
                    for q in self.equal_places(st, xp):
                        new.add(('SYNC', q, tp))
                elif isinstance(value.args[0], (ast.BinOp, ast.UnaryOp)):
                    # the parameter vector is an expression: whoever is bound to the SAME expression later, with none of its names re-bound in
                    # between, holds the parameters these marginals belong to
                    arg = value.args[0]
                    new.add(('SYNCX', U(arg), tp, tuple(sorted({n.id for n in ast.walk(arg) if isinstance(n, ast.Name)}))))
            if self.model_call(value, st, 'mle'):
                xp = self.place(value.args[0], st)
                if xp is not None:
                    for q in self.equal_places(st, xp):
                        new.add(('MLE', tp, q))
        # CliqueVector({cl: X[cl] - X[cl].max() for cl in X}): every table shifted by a scalar of its own.  A per-clique additive constant does not
        # change the distribution (everything downstream normalises), so the marginals that belong to X belong to the shifted vector as well -
        # provided the scalar is finite for a table with -inf cells: its max / logsumexp is, its mean is not
        if isinstance(value, ast.Call) and U(value.func) == 'CliqueVector' and len(value.args) == 1 and isinstance(value.args[0], ast.DictComp):
            dc = value.args[0]
            if len(dc.generators) == 1 and not dc.generators[0].ifs and isinstance(dc.generators[0].iter, ast.Name) and isinstance(dc.value, ast.BinOp) \
                    and isinstance(dc.value.op, ast.Sub) and U(dc.key) == U(dc.generators[0].target):
                X, c = dc.generators[0].iter.id, U(dc.generators[0].target)
                elem = '%s[%s]' % (X, c)
                lt, rt = U(dc.value.left).replace(' ', ''), U(dc.value.right).replace(' ', '')
                if lt == elem and rt in (elem + '.max()', elem + '.logsumexp()', elem + '.values.max()', 'np.max(%s.values)' % elem):
                    xp = self.place(dc.generators[0].iter, st)
                    for f in list(st.facts):
                        if f[0] == 'SYNC' and xp is not None and f[1] in self.equal_places(st, xp):
                            new.add(('SYNC', tp, f[2]))
                elif lt == elem and rt in (elem + '.values.mean()', 'np.mean(%s.values)' % elem, elem + '.values.sum()', elem + '.values.min()', elem + '.values.mean()'):
                    self.ctx.ob('pair-at-exit', self.fi, stmt, False,
                                'every potential is shifted by `%s` before it is stored: for a table with a structural zero (-inf) that scalar is -inf, the '
                                'feasible cells become +inf and the impossible ones NaN - the stored parameters no longer describe the stored marginals' % U(dc.value.right),
                                construct='re-centred potentials')
        if vp is None and isinstance(value, (ast.BinOp, ast.UnaryOp)):
            for f in list(st.facts):
                if f[0] == 'SYNCX' and f[1] == U(value):
                    new.add(('SYNC', tp, f[2]))
        return new

    def on_kill(self, st, place):
        root = place.split('.')[0]
        st.facts = {f for f in st.facts if not (f[0] == 'SYNCX' and (root in f[3] or place == f[2]))}

    def on_element_store(self, st, base, target, value, stmt):
        for q in self.equal_places(st, base):
            self.kill(st, q)

    def verdict(self, st):
        clean_p, clean_m = ('CLEAN', POT) in st.facts, ('CLEAN', MARG) in st.facts
        if clean_p and clean_m:
            return True, 'neither potentials nor marginals written since setup'
        if ('SYNC', POT, MARG) in st.facts:
            return True, 'marginals = belief_propagation(potentials) of the stored parameter vector'
        if ('MLE', POT, MARG) in st.facts:
            return True, 'potentials = mle(marginals) of the stored marginals'
        if clean_p != clean_m:
            return False, 'only %s was stored since setup; the other half of the pair is stale' \
                % ('marginals' if clean_p else 'potentials')
        return False, 'stored potentials and marginals are not shown to be a matched pair on every path ' \
                      '(neither marginals = BP(potentials) nor potentials = mle(marginals) of the same object)'


def run(ctx):
    repo = ctx.repo
    ctx.explanation = (
        'Pair typestate on the structured CFG of every solver of FactoredInference (discovered as the methods that '
        'call the setup method): facts SYNC(theta, mu) / MLE(theta, mu) / EQ are propagated with must-semantics '
        '(intersection at joins, loop fixpoints incl. zero-trip paths); at every return and fall-through exit the '
        'objects stored in model.potentials and model.marginals must be a matched pair. Plus the form of '
        'GraphicalModel.mle (running separator).')
    ctx.rule_text = 'one obligation per solver exit (return statements and fall-through) + 3 obligations on GraphicalModel.mle'
    ctx.trusted = ['belief_propagation(theta) returns the marginals of theta (C01)',
                   'aliasing between distinct local names is tracked through simple copies only']
    setup = find_setup(repo, INF, 'FactoredInference')
    solvers = find_solvers(repo, INF, 'FactoredInference', setup)
    ctx.floor('solvers discovered', len(solvers), 3)
    n_exits = 0
    for fi in solvers:
        if fi.name in ('estimate', 'infer'):
            continue
        ctx.analysed(fi)
        an = Pair(fi, setup, ctx)
        for stmt, st in an.exits(fi.body, St()):
            ok, why = an.verdict(st)
            n_exits += 1
            node = stmt if stmt is not None else fi.node
            ctx.ob('pair-at-exit', fi, node, ok, why,
                   construct=header(stmt) if stmt is not None else 'fall-through exit of ' + fi.name)
    ctx.floor('solver exits checked', n_exits, 4)
    # ---- setup itself: it may leave marginals unset, or in sync - never stale -------------------------
    ctx.analysed(setup)
    an = Pair(setup, None, ctx)
    n = 0
    for stmt, st in an.exits(setup.body, St()):
        n += 1
        untouched = ('CLEAN', MARG) in st.facts
        ok = untouched or ('SYNC', POT, MARG) in st.facts or ('MLE', POT, MARG) in st.facts
        ctx.ob('pair-at-exit', setup, stmt if stmt is not None else setup.node, ok,
               'setup hands the solvers a model whose marginals are %s' % ('not set (queries fall back to the parameters)' if untouched else
                                                                            ('in sync with its parameters' if ok else
                                                                             'stored but not those of its final parameters (stale cache for an early-exiting solver)')),
               construct=header(stmt) if stmt is not None else 'fall-through exit of ' + setup.name)
    ctx.floor('setup exits checked', n, 1)
    check_mle(ctx)


def check_mle(ctx):
    """potentials[cl] = marginals[cl].log() - marginals[cl].project(new).log()
       with new = (all attributes of previously visited cliques) & cl, accumulator updated after use."""
    fi = ctx.repo.nfunc(GM, 'GraphicalModel.mle')
    marg = fi.params[1]
    loops = [s for s in fi.body if isinstance(s, ast.For)]
    if len(loops) != 1 or not isinstance(loops[0].target, ast.Name):
        raise AnalysisError('GraphicalModel.mle: unrecognised form (expected one loop over the cliques)')
    loop = loops[0]
    cl = loop.target.id
    ok_iter = U(loop.iter) == 'self.cliques'
    ctx.ob('mle-form', fi, loop, ok_iter, 'the refit must visit the model cliques in junction-tree (self.cliques) order')
    # accumulator: a set initialised empty before the loop and updated with cl inside
    acc = None
    for s in fi.body:
        if isinstance(s, ast.Assign) and len(s.targets) == 1 and isinstance(s.targets[0], ast.Name) and \
                U(s.value) in ('set()', 'set([])', 'frozenset()'):
            acc = s.targets[0].id
    if acc is None:
        ctx.ob('mle-form', fi, loop, False, 'no running set of visited attributes initialised empty before the loop')
        return
    from ..normalise import Defs, expand
    defs = Defs(loop.body)
    store = upd_idx = None
    for i, st in enumerate(loop.body):
        if isinstance(st, ast.Expr) and isinstance(st.value, ast.Call) and U(st.value.func) == acc + '.update' \
                and U(st.value.args[0]) in (cl, 'set(%s)' % cl):
            upd_idx = i
        if isinstance(st, ast.AugAssign) and U(st.target) == acc and isinstance(st.op, ast.BitOr):
            upd_idx = i
        if isinstance(st, ast.Assign) and isinstance(st.targets[0], ast.Subscript) and U(st.targets[0].slice) == cl:
            store = (i, st)
    # where is `acc & set(cl)` evaluated?
    sep_idx = None
    for i, st in enumerate(loop.body):
        for n in ast.walk(st):
            if isinstance(n, ast.BinOp) and isinstance(n.op, ast.BitAnd) and {U(n.left), U(n.right)} == {acc, 'set(%s)' % cl}:
                sep_idx = i if sep_idx is None else min(sep_idx, i)
    ok_order = sep_idx is not None and upd_idx is not None and sep_idx < upd_idx
    ctx.ob('mle-form', fi, loop.body[sep_idx] if sep_idx is not None else loop, ok_order,
           'separator must be (attributes of ALL previously visited cliques) & clique, computed before the running '
           'set is updated with the clique (accumulator `%s`)' % acc)
    ok_store = False
    got = None
    if store is not None:
        v = expand(store[1].value, defs, keep=(marg, cl, acc))
        got = U(v).replace(' ', '')
        m = '%s[%s]' % (marg, cl)
        seps = ['tuple(%s&set(%s))' % (acc, cl), 'tuple(set(%s)&%s)' % (cl, acc), 'list(%s&set(%s))' % (acc, cl),
                'sorted(%s&set(%s))' % (acc, cl)]
        ok_store = any(got == '%s.log()-%s.project(%s).log()' % (m, m, sp) for sp in seps)
        vec_note = ''
        if not ok_store:
            # the same difference on the raw arrays: Factor.log is np.log(values + FLOOR); the separator marginal broadcast to the clique.
            # Without the floor a cell where marginal and separator marginal are both 0 gives -inf - (-inf) = NaN.
            import re
            flog = ctx.repo.nfunc('src/mbi/factor.py', 'Factor.log')
            floors = {U(c.args[0].right) for c in ast.walk(flog.node) if isinstance(c, ast.Call) and U(c.func) in ('np.log', 'numpy.log') and c.args
                      and isinstance(c.args[0], ast.BinOp) and isinstance(c.args[0].op, ast.Add)}
            for sp in seps:
                for ctor in ('type(%s)' % m, 'Factor', 'self.Factor', '%s.__class__' % m):
                    pat = re.escape('%s(%s.domain,np.log(%s.values' % (ctor, m, m)) + r'(\+[0-9.e+-]+)?' + re.escape(')-np.log(%s.project(%s).expand(%s.domain).values' % (m, sp, m)) + \
                        r'(\+[0-9.e+-]+)?' + re.escape('))')
                    mm = re.fullmatch(pat, got)
                    if mm:
                        f1, f2 = mm.group(1), mm.group(2)
                        if f1 and f2 and f1 == f2 and f1[1:] in {x.replace(' ', '') for x in floors}:
                            ok_store = True
                        else:
                            vec_note = ('; the array form drops (or changes) the floor `%s` that Factor.log adds before taking the logarithm: where the '
                                        'marginal and its separator marginal are both 0 it gives -inf - (-inf) = NaN' % ', '.join(sorted(floors)))
    ctx.ob('mle-form', fi, store[1] if store else loop, ok_store,
           'potential of a clique must be log(marginal) - log(marginal projected onto the separator); source (locals expanded): `%s`%s' % (got, vec_note))
